"""C04 generators: schema, queries with @defer/@stream, data descriptions, grouped field sets.

A *case* is a JSON-able dict
  {"query": text with directives, "stripped": same without @defer/@stream,
   "ref0": stripped + @experimental_disableErrorPropagation, "noprop": bool,
   "data": data description (see tools/c04_loop.py), "streams": {pattern: initialCount},
   "variables": {...}}
"""
from __future__ import annotations

SDL = """
directive @defer(if: Boolean! = true, label: String) on FRAGMENT_SPREAD | INLINE_FRAGMENT
directive @stream(if: Boolean! = true, label: String, initialCount: Int! = 0) on FIELD
directive @experimental_disableErrorPropagation on QUERY | MUTATION | SUBSCRIPTION

interface N1 { s1: String s2: String s3: String i1: Int }
interface N2 { s1: String s2: String s3: String i1: Int }
interface N3 { s1: String s2: String s3: String i1: Int }
union U1 = T1 | X1
union U2 = T2 | X2
union U3 = T3 | X3
type X1 implements N1 { s1: String s2: String s3: String i1: Int n1: String! }
type X2 implements N2 { s1: String s2: String s3: String i1: Int n1: String! }
type X3 implements N3 { s1: String s2: String s3: String i1: Int n1: String! }

type Query { s1: String s2: String s3: String n1: String! i1: Int
  o1: T1 o2: T1! l1: [T1] l2: [T1!] l3: [String] l4: [T1!]!
  a1: N1 u1: U1 al: [N1] ul: [U1!] }
type T1 implements N1 { s1: String s2: String s3: String n1: String! i1: Int
  o1: T2 o2: T2! l1: [T2] l2: [T2!] l3: [String] l4: [T2!]!
  a1: N2 u1: U2 al: [N2] ul: [U2!] }
type T2 implements N2 { s1: String s2: String s3: String n1: String! i1: Int
  o1: T3 o2: T3! l1: [T3] l2: [T3!] l3: [String] l4: [T3!]!
  a1: N3 u1: U3 al: [N3] ul: [U3!] }
type T3 implements N3 { s1: String s2: String s3: String n1: String! i1: Int l3: [String] }
"""

TYPES = ["Query", "T1", "T2", "T3"]
SCALARS = ["s1", "s2", "s3", "n1", "i1"]
OBJS = ["o1", "o2"]
OBJ_LISTS = ["l1", "l2", "l4"]
SCALAR_LISTS = ["l3"]
ABSTRACT = ["a1", "u1"]  # interface / union valued
ABSTRACT_LISTS = ["al", "ul"]

# How abstract values find their runtime type is part of the *data*: an abstract object carries
#   "$type": "T2" | "X2"            its runtime type
#   "$rt": "sync" | "async" | "isof"  resolve_type answers directly / through a harness future / is absent
#                                     (graphql's default resolver then asks is_type_of of every member)
#   "$isof": "sync" | "async"       how is_type_of answers for this value
_CURRENT = {"harness": None}


def set_harness(h):
    _CURRENT["harness"] = h


def _path_name(info):
    return ".".join(str(p) for p in info.path.as_list())


def _resolve_type(value, info, abstract_type):
    from graphql.execution.executor import default_type_resolver

    if not isinstance(value, dict) or "$type" not in value:
        return default_type_resolver(value, info, abstract_type)
    mode = value.get("$rt", "sync")
    if mode == "isof":
        return default_type_resolver({k: v for k, v in value.items() if k != "__typename"} and value, info, abstract_type)
    if mode == "async" and _CURRENT["harness"] is not None:
        _, fut = _CURRENT["harness"].new_handle(_path_name(info) + "?type", value["$type"])
        return fut
    return value["$type"]


def _make_is_type_of(type_name):
    def is_type_of(value, info):
        if not isinstance(value, dict) or "$type" not in value:
            return True
        answer = value["$type"] == type_name
        if value.get("$isof", "sync") == "async" and _CURRENT["harness"] is not None:
            _, fut = _CURRENT["harness"].new_handle(f"{_path_name(info)}?is:{type_name}", answer)
            return fut
        return answer

    return is_type_of


def _install_type_resolution(sch):
    for name in ("N1", "N2", "N3", "U1", "U2", "U3"):
        sch.type_map[name].resolve_type = _resolve_type
    for name in ("T1", "T2", "T3", "X1", "X2", "X3"):
        sch.type_map[name].is_type_of = _make_is_type_of(name)
    return sch

_schema = None
_ref_schema = None


def schema():
    global _schema
    if _schema is None:
        from graphql import build_schema

        _schema = _install_type_resolution(build_schema(SDL))
    return _schema


def ref_schema():
    """The same schema without @defer/@stream (``execute`` refuses schemas that define them)."""
    global _ref_schema
    if _ref_schema is None:
        from graphql import build_schema

        _ref_schema = _install_type_resolution(
            build_schema(
                "\n".join(ln for ln in SDL.split("\n") if not ln.startswith(("directive @defer", "directive @stream")))
            )
        )
    return _ref_schema


D0, D1 = "\x01", "\x02"  # delimit directive text so that it can be stripped without a second parser


class QueryGen:
    def __init__(self, rng, p_defer=0.35, p_stream=0.5):
        self.rng = rng
        self.p_defer = p_defer
        self.p_stream = p_stream
        self.frags = {}  # name -> (level, body)
        self.frag_by_level = {0: [], 1: [], 2: [], 3: []}
        self.labels = 0
        self.streams = {}  # pattern -> (directive text, initialCount or None)
        self.used = {i: set() for i in range(4)}
        self.vars_used = set()
        self.n_defer = 0
        self.n_stream = 0
        self.budget = 40

    def label(self):
        self.labels += 1
        return f"L{self.labels}"

    def if_arg(self, allow_false=True):
        r = self.rng.random()
        if r < 0.70:
            return "", True
        if r < 0.80:
            self.vars_used.add("yes")
            return "if: $yes", True
        if not allow_false:
            return "", True
        if r < 0.90:
            return "if: false", False
        self.vars_used.add("no")
        return "if: $no", False

    def defer_dir(self):
        if self.rng.random() >= self.p_defer:
            return ""
        args = []
        ifa, _active = self.if_arg()
        if ifa:
            args.append(ifa)
        if self.rng.random() < 0.5:
            args.append(f'label: "{self.label()}"')
        self.n_defer += 1
        return f" {D0}@defer" + (f"({', '.join(args)})" if args else "") + D1

    def stream_dir(self, pattern):
        if pattern in self.streams:
            return self.streams[pattern][0]
        if self.rng.random() >= self.p_stream:
            self.streams[pattern] = ("", None)
            return ""
        ic = self.rng.choice([0, 0, 1, 1, 2, 3])
        args = [f"initialCount: {ic}"]
        ifa, active = self.if_arg()
        if ifa:
            args.append(ifa)
        if self.rng.random() < 0.12:
            args.append(f'label: "{self.label()}"')
        self.n_stream += 1
        text = f" {D0}@stream({', '.join(args)}){D1}"
        self.streams[pattern] = (text, ic if active else None)
        return text

    def selset(self, level, pattern, depth):
        rng = self.rng
        n = rng.randint(1, 3 if depth > 1 else 4)
        sels = []
        for _ in range(n):
            self.budget -= 1
            r = rng.random()
            if self.budget <= 0 or r < 0.30 or (level == 3 and r < 0.55):
                f = rng.choice(SCALARS[:3] if rng.random() < 0.6 else SCALARS)
                self.used[level].add(f)
                sels.append(f"a_{f}: {f}" if rng.random() < 0.1 else f)
            elif r < 0.42 and level == 3:
                self.used[level].add("l3")
                sels.append("l3" + self.stream_dir(pattern + ("l3",)))
            elif r < 0.45 and level < 3:
                f = rng.choice(OBJS)
                self.used[level].add(f)
                sels.append(f"{f} {self.selset(level + 1, pattern + (f,), depth + 1)}")
            elif r < 0.58 and level < 3:
                f = rng.choice(OBJ_LISTS)
                self.used[level].add(f)
                sd = self.stream_dir(pattern + (f,))
                sels.append(f"{f}{sd} {self.selset(level + 1, pattern + (f,), depth + 1)}")
            elif r < 0.63:
                self.used[level].add("l3")
                sels.append("l3" + self.stream_dir(pattern + ("l3",)))
            elif r < 0.72 and level < 3 and depth < 4:
                f = rng.choice(ABSTRACT + ABSTRACT_LISTS)
                self.used[level].add(f)
                sd = self.stream_dir(pattern + (f,)) if f in ABSTRACT_LISTS else ""
                sels.append(f"{f}{sd} {self.abstract_selset(level + 1, pattern + (f,), depth + 1, f[0] == 'a')}")
            elif r < 0.85:
                cond = f" on {TYPES[level]}" if rng.random() < 0.3 else ""
                sels.append(f"...{cond}{self.defer_dir()} {self.selset(level, pattern, depth + 1)}")
            else:
                names = self.frag_by_level[level]
                if names and rng.random() < 0.5:
                    name = rng.choice(names)
                else:
                    name = f"F{len(self.frags)}"
                    self.frags[name] = None  # reserve (no recursion into itself)
                    body = self.selset(level, pattern, depth + 1)
                    self.frags[name] = (level, body)
                    self.frag_by_level[level].append(name)
                sels.append(f"...{name}{self.defer_dir()}")
        return "{ " + " ".join(sels) + " }"


def _abstract_selset(self, level, pattern, depth, is_interface):
    """Selections on an interface (N<level>) or union (U<level>) whose members are T<level> and X<level>."""
    rng = self.rng
    sels = []
    if is_interface:
        for _ in range(rng.randint(0, 2)):
            sels.append(rng.choice(["s1", "s2", "s3", "i1"]))
        if rng.random() < 0.35:
            sels.append(f"...{self.defer_dir()} {{ {rng.choice(['s1', 's2', 's3'])} }}")
    elif rng.random() < 0.3:
        sels.append("__typename")
    if rng.random() < 0.85 or not sels:
        sels.append(f"... on T{level}{self.defer_dir()} {self.selset(level, pattern, depth + 1)}")
    if rng.random() < 0.6:
        inner = " ".join(rng.sample(["s1", "s2", "s3", "n1"], rng.randint(1, 2)))
        if rng.random() < 0.3:
            inner += f" ...{self.defer_dir()} {{ {rng.choice(['s1', 's2', 'i1'])} }}"
        sels.append(f"... on X{level}{self.defer_dir()} {{ {inner} }}")
    rng.shuffle(sels)
    return "{ " + " ".join(sels) + " }"


QueryGen.abstract_selset = _abstract_selset


def gen_query(rng):
    """-> dict(query, stripped, ref0, noprop, streams, variables, used, n_defer, n_stream)"""
    g = QueryGen(rng, p_defer=rng.choice([0.3, 0.5, 0.7]), p_stream=rng.choice([0.3, 0.6]))
    body = g.selset(0, (), 0)
    noprop = rng.random() < 0.25
    vdefs = []
    if "yes" in g.vars_used:
        vdefs.append("$yes: Boolean!")
    if "no" in g.vars_used:
        vdefs.append("$no: Boolean!")
    head = "query Q" + (f"({', '.join(vdefs)})" if vdefs else "")
    frs = "".join(
        f"\nfragment {n} on {TYPES[lv]} {b}" for n, (lv, b) in g.frags.items()
    )
    full = body + frs
    np_dir = " @experimental_disableErrorPropagation"
    with_dirs = full.replace(D0, "").replace(D1, "")
    stripped = _strip(full)
    # the stripped documents do not use the variables: declare them only where they are used
    return {
        "query": head + (np_dir if noprop else "") + " " + with_dirs,
        "stripped": "query Q" + (np_dir if noprop else "") + " " + stripped,
        "ref0": "query Q" + np_dir + " " + stripped,
        "noprop": noprop,
        "streams": {".".join(p): ic for p, (_t, ic) in g.streams.items() if ic is not None},
        "variables": {k: (k == "yes") for k in sorted(g.vars_used)},
        "used": {lv: sorted(s) for lv, s in g.used.items()},
        "n_defer": g.n_defer,
        "n_stream": g.n_stream,
    }


def _strip(text):
    out = []
    i = 0
    while i < len(text):
        j = text.find(D0, i)
        if j < 0:
            out.append(text[i:])
            break
        out.append(text[i:j].rstrip(" ") if text[j - 1 : j] == " " else text[i:j])
        i = text.index(D1, j) + 1
    return "".join(out)


class DataGen:
    def __init__(self, rng, used, p_async, p_err):
        self.rng = rng
        self.used = used
        self.p_async = p_async
        self.p_err = p_err
        self.counter = 0
        self.n_async = 0
        self.n_err = 0

    def wrap(self, v):
        if self.rng.random() < self.p_async and self.n_async < 7:
            self.n_async += 1
            return {"$async": v}
        return v

    def err(self):
        if self.rng.random() < self.p_err:
            self.n_err += 1
            return True
        return False

    def scalar(self, f):
        self.counter += 1
        if f == "i1":
            v = self.counter
        else:
            v = f"{f}-{self.counter}"
        if self.err():
            v = self.rng.choice([None, {"$raise": 1}, {"$raise": 1}]) if f == "n1" else {"$raise": 1}
        elif f != "n1" and self.rng.random() < 0.08:
            v = None
        return self.wrap(v)

    def obj(self, level):
        d = {}
        for f in self.used.get(level, ()):
            if f in SCALARS:
                d[f] = self.scalar(f)
            elif f in OBJS:
                if self.err():
                    v = self.rng.choice([None, {"$raise": 1}])  # o2 null -> error
                elif f == "o1" and self.rng.random() < 0.1:
                    v = None
                else:
                    v = self.obj(level + 1)
                d[f] = self.wrap(v)
            elif f in OBJ_LISTS:
                d[f] = self.lst(lambda: self.obj(level + 1), nullable_items=(f == "l1"), nullable=(f != "l4"))
            elif f in ABSTRACT:
                if self.err():
                    v = {"$raise": 1}
                elif self.rng.random() < 0.08:
                    v = None
                else:
                    v = self.abstract_obj(level + 1)
                d[f] = self.wrap(v)
            elif f in ABSTRACT_LISTS:
                d[f] = self.lst(lambda: self.abstract_obj(level + 1), nullable_items=(f == "al"), nullable=True)
            elif f == "l3":
                d[f] = self.lst(lambda: self.scalar("s1"), nullable_items=True, nullable=True, scalar=True)
        return d

    def abstract_obj(self, level):
        rng = self.rng
        if rng.random() < 0.6:
            v = self.obj(level)
            v["$type"] = f"T{level}"
        else:
            v = {f: self.scalar(f) for f in ("s1", "s2", "s3", "i1", "n1")}
            v["$type"] = f"X{level}"
        if self.p_async > 0 and self.n_async < 7:
            r = rng.random()
            if r < 0.4:
                v["$rt"] = "async"
                self.n_async += 1
            elif r < 0.55:
                v["$rt"] = "isof"
                if rng.random() < 0.6:
                    v["$isof"] = "async"
                    self.n_async += 2
        elif rng.random() < 0.2:
            v["$rt"] = "isof"
        return v

    def lst(self, mk, nullable_items, nullable, scalar=False):
        rng = self.rng
        if nullable and rng.random() < 0.05:
            return self.wrap(None)
        n = rng.choice([0, 1, 2, 2, 3, 3, 4])
        items = []
        for _ in range(n):
            x = mk()
            if scalar and isinstance(x, dict) and "$raise" in x:
                x = {"$error": 1}
            if not scalar and self.err():
                x = None if (nullable_items or rng.random() < 0.5) else {"$error": 1}
            elif not scalar and nullable_items and rng.random() < 0.08:
                x = None
            items.append(x)
        raise_at = None
        if self.err() or (self.p_err > 0 and rng.random() < 0.08):
            raise_at = rng.randint(0, n)
            self.n_err += 1
        kind = rng.choice(["list", "list", "aiter", "aiter", "iter"])
        if kind == "list":
            out = []
            for x in items:
                if not (isinstance(x, dict) and ("$async" in x or "$error" in x)) and rng.random() < self.p_async / 2 and self.n_async < 7:
                    self.n_async += 1
                    x = {"$async": x}
                out.append(x)
            return self.wrap(out)
        if kind == "iter":
            return {"$iter": items, "raise_at": raise_at}
        out = []
        for x in items:
            if rng.random() < self.p_async and self.n_async < 7:
                self.n_async += 1
                x = {"$gate": x}
            out.append(x)
        return {"$aiter": out, "raise_at": raise_at}


def gen_case(rng):
    for _ in range(6):
        q = gen_query(rng)
        if q["n_defer"] + q["n_stream"] >= 1:
            break
    used = {int(k): v for k, v in q["used"].items()}
    p_err = rng.choice([0.0, 0.0, 0.05, 0.12])
    dg = DataGen(rng, used, p_async=rng.choice([0.0, 0.15, 0.3, 0.3, 0.5, 0.5]), p_err=p_err)
    q["data"] = dg.obj(0)
    q["n_async"] = dg.n_async
    q["n_err"] = dg.n_err
    del q["used"]
    return q


def gen_overlap_case(rng):
    """Dedicated stream: the same field reachable from a deferred fragment A and from a fragment B nested
    one or two defers deep inside another deferred fragment P (A and P siblings at the same object), with
    independent awaitable gates on the fragments' own fields -- so that an execution group shared by A and B
    can complete while B is not yet announced, in some completion orders and not in others."""
    base = rng.choice([0, 0, 1])  # level of the object that carries A and P
    f = rng.choice(["o1", "o2", "l1", "l2", "l4", "a1", "a1", "al"])  # shared object / list / interface field
    x, y, z = rng.sample(["s1", "s2", "s3", "i1"], 3)  # leaves one level below
    own = rng.sample(["s1", "s2", "s3", "i1"], 3)  # own fields of A, P and of the mid-level fragment
    labels = iter(["A", "P", "B", "M", "C"])

    def defer(label):
        args = [f'label: "{label}"'] if rng.random() < 0.8 else []
        return f" {D0}@defer" + (f"({', '.join(args)})" if args else "") + D1

    nested_depth = rng.choice([1, 1, 2])
    b_body = f"{x}" + (f" {z}" if rng.random() < 0.4 else "")
    b = f"...{defer('B')} {{ {b_body} }}"
    if nested_depth == 2:
        b = f"...{defer('M')} {{ {z} {b} }}"
    a_sub = f"{x}" + (f" {y}" if rng.random() < 0.3 else "")
    a_own = f"{own[0]} " if rng.random() < 0.6 else ""
    frag_a = f"...{defer('A')} {{ {a_own}{f} {{ {a_sub} }} }}"
    p_inner = f"{y} {b}" if rng.random() < 0.8 else b
    frag_p = f"...{defer('P')} {{ {own[1]} {f} {{ {p_inner} }} }}"
    parts = [frag_a, frag_p]
    if rng.random() < 0.3:  # a third sibling fragment sharing the field as well
        parts.append(f"...{defer('C')} {{ {f} {{ {z} }} }}")
    rng.shuffle(parts)
    if rng.random() < 0.5:
        parts.insert(rng.randrange(len(parts) + 1), own[2])
    body = "{ " + " ".join(parts) + " }"
    wrapper = rng.choice(["o1", "o2"])
    full = body if base == 0 else f"{{ {wrapper} {body} }}"

    def val(name, p):
        v = 7 if name == "i1" else f"{name}-v"
        return {"$async": v} if rng.random() < p else v

    def child():
        c = {x: val(x, 0.35), y: val(y, 0.35), z: val(z, 0.25)}
        if f.startswith("a"):
            c["$type"] = rng.choice([f"T{base + 1}", f"X{base + 1}"])
            c["$rt"] = rng.choice(["sync", "async", "async", "isof"])
            if c["$rt"] == "isof":
                c["$isof"] = rng.choice(["sync", "async"])
        return c

    obj = {own[0]: val(own[0], 0.5), own[1]: val(own[1], 0.8), own[2]: val(own[2], 0.2)}
    if f in ("o1", "o2", "a1"):
        obj[f] = child() if rng.random() < 0.8 else {"$async": child()}
    else:
        obj[f] = [child() for _ in range(rng.choice([1, 2]))]
    data = obj if base == 0 else {wrapper: obj}
    noprop = rng.random() < 0.15
    np_dir = " @experimental_disableErrorPropagation"
    stripped = _strip(full)
    return {
        "query": "query Q" + (np_dir if noprop else "") + " " + full.replace(D0, "").replace(D1, ""),
        "stripped": "query Q" + (np_dir if noprop else "") + " " + stripped,
        "ref0": "query Q" + np_dir + " " + stripped,
        "noprop": noprop,
        "streams": {},
        "variables": {},
        "n_defer": 3,
        "n_stream": 0,
        "data": data,
        "overlap_stream": True,
    }


# ----------------------------------------------------------------------------- JSON -> driver tokens


def tok(v, out):
    if v is None:
        out.append("n")
    elif v is True:
        out.append("t")
    elif v is False:
        out.append("f")
    elif isinstance(v, int):
        out.append(f"i{v}")
    elif isinstance(v, str):
        out.append("s" + ".".join(str(ord(c)) for c in v))
    elif isinstance(v, (list, tuple)):
        out.append(f"[{len(v)}")
        for x in v:
            tok(x, out)
    elif isinstance(v, dict):
        out.append("{" + str(len(v)))
        for k, x in v.items():
            out.append("s" + ".".join(str(ord(c)) for c in str(k)))
            tok(x, out)
    else:
        raise TypeError(f"cannot encode {type(v).__name__}")
    return out


def untok(tokens):
    """Inverse of ``tok`` (for reading the assembled value back)."""
    it = iter(tokens)

    def s(t):
        body = t[1:]
        return "".join(chr(int(w)) for w in body.split(".")) if body else ""

    def go():
        t = next(it)
        if t == "n":
            return None
        if t == "t":
            return True
        if t == "f":
            return False
        if t[0] == "i":
            return int(t[1:])
        if t[0] == "s":
            return s(t)
        if t[0] == "[":
            return [go() for _ in range(int(t[1:]))]
        if t[0] == "{":
            d = {}
            for _ in range(int(t[1:])):
                k = s(next(it))
                d[k] = go()
            return d
        raise ValueError(t)

    return go()


# ----------------------------------------------------------------------------- grouped field sets


def gen_grouped_field_set(rng):
    """Random defer-usage forest + grouped field set + parent defer usage set.

    -> (parents: list[int|None], parent_set: list[int], groups: list[(key:int, [du|None])])
    """
    ndu = rng.randint(0, 6)
    parents = []
    for d in range(ndu):
        parents.append(rng.randrange(d) if d and rng.random() < 0.6 else None)
    nk = rng.randint(0, 6)
    groups = []
    for k in range(nk):
        nf = rng.randint(1, 4)
        mode = rng.random()
        fs = []
        for _ in range(nf):
            if ndu == 0 or (mode < 0.3 and rng.random() < 0.5):
                fs.append(None)
            else:
                fs.append(rng.randrange(ndu))
        groups.append((k, fs))
    parent_set = []
    if ndu and rng.random() < 0.6:
        # a set that some key may reproduce: the filtered set of a random key, or random
        parent_set = sorted(set(rng.sample(range(ndu), rng.randint(1, min(2, ndu)))))
        rng.shuffle(parent_set)
    return parents, parent_set, groups
