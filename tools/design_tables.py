"""Regenerates the Markdown tables of DESIGN.md §0.3 (fix: commits) and §0.4 (known findings) from known_findings.json.
usage: python tools/design_tables.py            (prints both tables)"""
import json
import subprocess
from pathlib import Path

ROOT = Path(__file__).resolve().parent.parent


def main():
    k = json.loads((ROOT / "known_findings.json").read_text())["findings"]
    order = subprocess.run(["git", "-C", "/repo", "log", "--reverse", "--format=%h"], capture_output=True, text=True).stdout.split()
    pos = {c: i for i, c in enumerate(order)}
    fixed = {}
    for e in k:
        if e["status"] == "fixed":
            c = e["commit"]
            fixed.setdefault(c, {"props": [], "what": []})
            if e["property"] not in fixed[c]["props"]:
                fixed[c]["props"].append(e["property"])
            w = e["what"]
            w = w.split(c, 1)[1].strip() if c in w else w
            fixed[c]["what"].append(w)
    print(f"({len(fixed)} `fix:` commits)\n")
    print("| commit | property | what failed |\n|---|---|---|")
    for c in sorted(fixed, key=lambda c: pos.get(c, 10**6)):
        what = fixed[c]["what"][0]
        if len(what) > 330:
            what = what[:327] + "..."
        print(f"| {c} | {', '.join(fixed[c]['props'])} | {what.replace('|', '/')} |")
    print("\n| property | fingerprint | what fails |\n|---|---|---|")
    for e in k:
        if e["status"] == "known":
            w = e["what"]
            w = w.split(" ", 2)[2] if w.startswith("known: property=") else w
            print(f"| {e['property']} | `{e['fingerprint']}` | {w[:300].replace('|', '/')} |")


if __name__ == "__main__":
    main()
