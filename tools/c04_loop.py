"""C04 harness: controlled asyncio execution of graphql-core's incremental delivery.

Everything is driven from the outside (no source hooks):

* a custom ``field_resolver`` interprets a JSON *data description*; values may carry markers
    {"$async": v}            resolver returns a harness-held future, later resolved with ``v``
    {"$raise": 1}            resolver raises synchronously
    {"$async": {"$raise":1}} the future is failed
    {"$aiter": [items], "raise_at": k|None}   async generator (stream source); an item wrapped as
                                              {"$gate": x} waits on a harness future before it is yielded,
                                              {"$async": x} is yielded as a future (awaitable item)
    {"$iter": [items], "raise_at": k|None}    synchronous generator
    [ ... {"$async": x} ... {"$error": 1} ]   list of awaitables / exception instances
* the *schedule* decides which pending handle is resolved next and when the consumer pulls the next
  payload; between two actions the event loop is run to quiescence.

A run returns the list of ``.formatted`` payloads (initial first), the decision trace and flags.
"""
from __future__ import annotations

import asyncio
import random
import sys
import warnings

# coroutines abandoned by cancellation paths of the library are not this check's subject
warnings.filterwarnings("ignore", category=RuntimeWarning, message=".*was never awaited")



def _quiet_unraisable(unraisable):
    """Coroutines abandoned by the library's cancellation paths are finalized at interpreter exit,
    where their ``finally`` blocks fail on half-torn-down modules; that noise is not a result."""
    if isinstance(unraisable.exc_value, (KeyError, RuntimeError, ImportError, AttributeError, TypeError)):
        return
    sys.__unraisablehook__(unraisable)


sys.unraisablehook = _quiet_unraisable

MAX_STEPS = 4000


class Hang(Exception):
    pass


class Harness:
    def __init__(self, loop, truncate=None):
        self.loop = loop
        self.handles = {}  # name -> [future, outcome, state]  state: pending|done|dead
        self.order = []
        self.counts = {}
        self.truncate = truncate  # None or {path-pattern: initialCount}: reference mode
        self.truncated = []  # path patterns whose raising source was cut (reference mode)
        self.raised_sources = []  # (pattern, index) of stream sources that raised (both modes)

    # -- handles
    def new_handle(self, name, outcome):
        n = self.counts.get(name, 0)
        self.counts[name] = n + 1
        if n:
            name = f"{name}#{n + 1}"
        fut = self.loop.create_future()
        self.handles[name] = [fut, outcome, "pending"]
        self.order.append(name)
        return name, fut

    def pending(self):
        out = []
        for name in self.order:
            h = self.handles[name]
            if h[2] == "pending":
                if h[0].done():  # cancelled by the library
                    h[2] = "dead"
                else:
                    out.append(name)
        return out

    # -- data realisation
    def realize(self, v, name, pattern):
        if isinstance(v, dict):
            if "$async" in v:
                inner = v["$async"]
                _, fut = self.new_handle(name, _Lazy(self, inner, name, pattern))
                return _unwrap(fut)
            if "$raise" in v:
                raise RuntimeError("boom")
            if "$aiter" in v:
                return self._aiter(v["$aiter"], v.get("raise_at"), name, pattern)
            if "$iter" in v:
                return self._iter(v["$iter"], v.get("raise_at"), name, pattern)
            return v
        if isinstance(v, list):
            return [self.realize_item(x, f"{name}.{i}", pattern) for i, x in enumerate(v)]
        return v

    def realize_item(self, x, name, pattern):
        if isinstance(x, dict):
            if "$async" in x:
                _, fut = self.new_handle(name, _Lazy(self, x["$async"], name, pattern))
                return _unwrap(fut)
            if "$error" in x:
                return RuntimeError("boom")
            if "$gate" in x:  # only meaningful in $aiter; elsewhere plain
                return self.realize_item(x["$gate"], name, pattern)
        return x

    def _cut(self, raise_at, pattern):
        """Reference mode: a streamed source raising at or after initialCount ends there instead."""
        if self.truncate is None or raise_at is None:
            return False
        ic = self.truncate.get(pattern)
        return ic is not None and raise_at >= ic

    def _iter(self, items, raise_at, name, pattern):
        cut = self._cut(raise_at, pattern)

        def gen():
            for i, x in enumerate(items):
                if raise_at == i:
                    if cut:
                        self.truncated.append(_parts(name))
                        return
                    self.raised_sources.append((pattern, i))
                    raise RuntimeError("boom")
                yield self.realize_item(x, f"{name}.{i}", pattern)
            if raise_at is not None and raise_at >= len(items):
                if cut:
                    self.truncated.append(_parts(name))
                    return
                self.raised_sources.append((pattern, len(items)))
                raise RuntimeError("boom")

        return gen()

    def _aiter(self, items, raise_at, name, pattern):
        cut = self._cut(raise_at, pattern)
        harness = self

        async def agen():
            cur = None
            try:
                for i, x in enumerate(items):
                    if raise_at == i:
                        if cut:
                            harness.truncated.append(_parts(name))
                            return
                        harness.raised_sources.append((pattern, i))
                        raise RuntimeError("boom")
                    if isinstance(x, dict) and "$gate" in x:
                        cur, fut = harness.new_handle(f"{name}@{i}", None)
                        await fut
                        cur = None
                        x = x["$gate"]
                    yield harness.realize_item(x, f"{name}.{i}", pattern)
                if raise_at is not None and raise_at >= len(items):
                    if cut:
                        harness.truncated.append(_parts(name))
                        return
                    harness.raised_sources.append((pattern, len(items)))
                    raise RuntimeError("boom")
            finally:
                if cur is not None and harness.handles[cur][2] == "pending":
                    harness.handles[cur][2] = "dead"

        return agen()


def _parts(name):
    """'l1.1.l3!' -> ['l1', 1, 'l3']"""
    return [int(w) if w.isdigit() else w for w in name.replace("!", "").split(".")]


class _Lazy:
    """Outcome of a handle: realised (nested markers) only when the handle fires."""

    def __init__(self, harness, inner, name, pattern):
        self.harness, self.inner, self.name, self.pattern = harness, inner, name, pattern


async def _unwrap(fut):
    out = await fut
    if isinstance(out, _Lazy):
        return out.harness.realize(out.inner, out.name + "!", out.pattern)
    return out


def make_resolver(harness):
    def resolve(source, info, **_args):
        if isinstance(source, dict):
            v = source.get(info.field_name)
        else:
            v = getattr(source, info.field_name, None)
        parts = info.path.as_list()
        name = ".".join(str(p) for p in parts)
        pattern = ".".join(str(p) for p in parts if not isinstance(p, int))
        return harness.realize(v, name, pattern)

    return resolve


def _fire(harness, name):
    fut, outcome, _ = harness.handles[name]
    harness.handles[name][2] = "done"
    if fut.done():
        return
    inner = outcome.inner if isinstance(outcome, _Lazy) else outcome
    if isinstance(inner, dict) and "$raise" in inner:
        fut.set_exception(RuntimeError("boom"))
    else:
        fut.set_result(outcome)


# ----------------------------------------------------------------------------- choosers


class Chooser:
    """Decides the next action: fire one of the pending ``handles`` or 'pull' the next payload.

    script: list of action names replayed first (unavailable names are skipped);
    afterwards, by ``mode``:
      eager  - the consumer pulls whenever no pull is outstanding (forced, not a decision);
               handle order: DFS ``prefix`` of indices, then creation order
      lazy   - handles first, the consumer pulls only when nothing else can be done (forced)
      random - uniformly random among handles and 'pull' (seeded)
    """

    def __init__(self, mode="eager", seed=0, script=None, prefix=None):
        self.mode = mode
        self.rng = random.Random(seed)
        self.script = list(script or [])
        self.prefix = list(prefix or [])
        self.trace = []  # chosen action names, replayable as ``script``
        self.decisions = []  # (n_alternatives, chosen index) for handle choices
        self.max_pending = 0

    def choose(self, handles, can_pull):
        self.max_pending = max(self.max_pending, len(handles))
        a = self._choose(handles, can_pull)
        self.trace.append(a)
        return a

    def _choose(self, handles, can_pull):
        while self.script:
            a = self.script.pop(0)
            if a in handles or (a == "pull" and can_pull):
                return a
        if self.mode == "random":
            acts = handles + (["pull"] if can_pull else [])
            return acts[self.rng.randrange(len(acts))]
        if can_pull and (self.mode == "eager" or not handles):
            return "pull"
        k = len(self.decisions)
        idx = min(self.prefix[k], len(handles) - 1) if k < len(self.prefix) else 0
        self.decisions.append((len(handles), idx))
        return handles[idx]


# ----------------------------------------------------------------------------- observation of the work queue
#
# From the outside (no source change): ``incremental_publisher.WorkQueue`` is replaced by a recording
# subclass.  It records when ``_prune_empty_groups`` drops a group as "empty" (pending == 0) although the
# group still holds a task that has completed but whose value has not been delivered, because that task
# also belongs to another group that is still in the graph.  Used only to fingerprint a known finding;
# it never changes what the work queue does.

_PRUNE_SINK = None


def _observe_prune(wq, new_groups, sink):
    group_nodes = wq._group_nodes  # noqa: SLF001
    task_nodes = wq._task_nodes  # noqa: SLF001
    for group in new_groups:
        node = group_nodes.get(group)
        if node is None or node.pending or not node.tasks:
            continue
        for task in node.tasks:
            task_node = task_nodes.get(task)
            value = getattr(task_node, "value", None)
            data = getattr(value, "data", None)
            if not isinstance(data, dict):
                continue
            if not any(other is not group and other in group_nodes for other in task.groups):
                continue
            base = list(getattr(value, "path", []) or [])
            path = getattr(group, "path", None)
            sink.append(
                {
                    "group_path": path.as_list() if path else [],
                    "group_label": getattr(group, "label", None),
                    "produced": [base + [k] for k in data],
                }
            )


def _install_recorder():
    from graphql.execution.incremental import incremental_publisher as ip

    base = ip.WorkQueue
    if getattr(base, "_c04_recording", False):
        return

    class RecordingWorkQueue(base):
        _c04_recording = True

        def _prune_empty_groups(self, new_groups, non_empty_new_groups=None):
            sink = _PRUNE_SINK
            if sink is not None:
                try:
                    _observe_prune(self, new_groups, sink)
                except Exception:  # noqa: BLE001  (observation must never change behaviour)
                    pass
            return super()._prune_empty_groups(new_groups, non_empty_new_groups)

    ip.WorkQueue = RecordingWorkQueue


def _set_type_harness(harness):
    """Awaitable resolve_type / is_type_of answers of the generated schema are handles of this run."""
    try:
        from tools import c04_gen

        c04_gen.set_harness(harness)
    except Exception:  # noqa: BLE001
        pass


# ----------------------------------------------------------------------------- runs


async def _settle(loop):
    for _ in range(100000):
        await asyncio.sleep(0)
        if not loop._ready:  # noqa: SLF001
            return
    raise Hang("event loop never quiescent")


async def _drive_until(loop, harness, chooser, fut):
    steps = 0
    while True:
        await _settle(loop)
        if fut.done():
            return
        acts = harness.pending()
        if not acts:
            raise Hang("awaiting initial result with nothing left to resolve")
        _fire(harness, chooser.choose(acts, False))
        steps += 1
        if steps > MAX_STEPS:
            raise Hang("too many steps")


async def _run_incremental(loop, schema, document, data, early, chooser, variables):
    from graphql.execution import (
        ExperimentalIncrementalExecutionResults,
        experimental_execute_incrementally,
    )

    global _PRUNE_SINK
    harness = Harness(loop)
    _set_type_harness(harness)
    info = {"harness": harness, "hang": None, "kind": None, "pruned_undelivered": []}
    try:
        _install_recorder()
        _PRUNE_SINK = info["pruned_undelivered"]
    except Exception:  # noqa: BLE001
        _PRUNE_SINK = None
    result = experimental_execute_incrementally(
        schema,
        document,
        data,
        variable_values=variables,
        field_resolver=make_resolver(harness),
        enable_early_execution=early,
    )
    if asyncio.iscoroutine(result) or asyncio.isfuture(result) or hasattr(result, "__await__"):
        task = asyncio.ensure_future(result)
        await _drive_until(loop, harness, chooser, task)
        result = task.result()
    if not isinstance(result, ExperimentalIncrementalExecutionResults):
        info["kind"] = "single"
        return [result.formatted], info
    info["kind"] = "incremental"
    payloads = [result.initial_result.formatted]
    agen = result.subsequent_results
    pull = None
    steps = 0
    try:
        while True:
            await _settle(loop)
            if pull is not None and pull.done():
                try:
                    payloads.append(pull.result().formatted)
                except StopAsyncIteration:
                    break
                pull = None
                continue
            acts = harness.pending()
            if not acts and pull is not None:
                raise Hang("pull outstanding, nothing left to resolve, no payload")
            a = chooser.choose(acts, pull is None)
            if a == "pull":
                pull = asyncio.ensure_future(agen.__anext__())
            else:
                _fire(harness, a)
            steps += 1
            if steps > MAX_STEPS:
                raise Hang("too many steps")
    finally:
        if pull is not None and not pull.done():
            pull.cancel()
        try:
            await agen.aclose()
        except BaseException:  # noqa: BLE001
            pass
    return payloads, info


async def _run_reference(loop, schema, document, data, truncate, variables):
    from graphql.execution import execute

    harness = Harness(loop, truncate=truncate)
    _set_type_harness(harness)
    chooser = Chooser("lazy")
    result = execute(
        schema, document, data, variable_values=variables, field_resolver=make_resolver(harness)
    )
    if hasattr(result, "__await__"):
        task = asyncio.ensure_future(result)
        await _drive_until(loop, harness, chooser, task)
        result = task.result()
    return result.formatted, harness


_LOOP = None


def _with_loop(coro_fn):
    """Run on a per-process event loop that is reused (creating a loop costs several syscalls)."""
    global _LOOP
    if _LOOP is None or _LOOP.is_closed():
        _LOOP = asyncio.new_event_loop()
        _LOOP.set_exception_handler(lambda *_a: None)
    loop = _LOOP
    try:
        return loop.run_until_complete(coro_fn(loop))
    finally:
        try:
            for _ in range(50):
                tasks = asyncio.all_tasks(loop)
                if not tasks:
                    break
                for t in tasks:
                    t.cancel()
                loop.run_until_complete(asyncio.gather(*tasks, return_exceptions=True))
            if loop._ready or loop._scheduled:  # noqa: SLF001
                loop.run_until_complete(asyncio.sleep(0))
        except BaseException:  # noqa: BLE001
            try:
                loop.close()
            except BaseException:  # noqa: BLE001
                pass
            _LOOP = None


def shutdown():
    """Finalize abandoned coroutines / generators now rather than at interpreter exit."""
    import gc

    global _LOOP
    gc.collect()
    if _LOOP is not None and not _LOOP.is_closed():
        try:
            _LOOP.run_until_complete(_LOOP.shutdown_asyncgens())
            _LOOP.close()
        except BaseException:  # noqa: BLE001
            pass
    _LOOP = None
    gc.collect()


def run_incremental(schema, document, data, early, chooser, variables=None):
    """-> (payloads, info) ; info['hang'] set when the run did not terminate."""

    async def go(loop):
        try:
            return await _run_incremental(loop, schema, document, data, early, chooser, variables)
        except Hang as e:
            return None, {"hang": str(e), "kind": "hang"}

    return _with_loop(go)


def run_reference(schema, document, data, truncate=None, variables=None):
    """Non-incremental execution of a directive-free document. -> (formatted, harness)"""

    async def go(loop):
        return await _run_reference(loop, schema, document, data, truncate, variables)

    return _with_loop(go)


def enumerate_schedules(run, cap):
    """Stateless DFS over the decision tree of ``run(prefix) -> decisions``.

    Yields nothing; calls ``run`` for up to ``cap`` distinct schedules.  Returns (count, complete).
    """
    stack = [[]]
    n = 0
    while stack:
        if n >= cap:
            return n, False
        prefix = stack.pop()
        decisions = run(prefix)
        n += 1
        if decisions is None:
            continue
        for i in range(len(decisions) - 1, len(prefix) - 1, -1):
            alts, chosen = decisions[i]
            base = [c for _, c in decisions[:i]]
            for j in range(alts - 1, -1, -1):
                if j != chosen:
                    stack.append(base + [j])
    return n, True
