"""Schema generator, IR and (de)serialisation shared by checks/c17.py and checks/c19.py.

IR ("schema content", the same shape as the Lean structure `Gql.Types.Schema`):

  schema  = {"desc": str|None, "query"/"mutation"/"subscription": name|None,
             "directives": [directive], "types": [type]}
  directive = {"name", "desc", "args": [arg], "repeatable": bool, "locations": [str], "depr": str|None}
  type    = {"kind": "scalar", "name", "desc", "spec": str|None}
          | {"kind": "object"|"interface", "name", "desc", "interfaces": [name], "fields": [field]}
          | {"kind": "union", "name", "desc", "members": [name]}
          | {"kind": "enum", "name", "desc", "values": [{"name", "desc", "depr"}]}
          | {"kind": "input", "name", "desc", "oneof": bool, "fields": [arg]}
  field   = {"name", "desc", "args": [arg], "type": tref, "depr"}
  arg     = {"name", "desc", "type": tref, "default": value|None, "depr"}   (+ "py": python value, generator only)
  tref    = ["named", n] | ["list", t] | ["nn", t]
  value   = ["int", s] | ["float", s] | ["str", s, block] | ["bool", b] | ["null"] | ["enum", n]
          | ["list", [value]] | ["obj", [[name, value]]]

Everything random derives from the `random.Random` handed in.
"""
from __future__ import annotations

import copy
import re

STD_SCALARS = ["String", "Int", "Float", "Boolean", "ID"]
LOCATIONS = [
    "QUERY", "MUTATION", "SUBSCRIPTION", "FIELD", "FRAGMENT_DEFINITION", "FRAGMENT_SPREAD",
    "INLINE_FRAGMENT", "VARIABLE_DEFINITION", "FRAGMENT_VARIABLE_DEFINITION", "SCHEMA", "SCALAR",
    "OBJECT", "FIELD_DEFINITION", "ARGUMENT_DEFINITION", "INTERFACE", "UNION", "ENUM", "ENUM_VALUE",
    "INPUT_OBJECT", "INPUT_FIELD_DEFINITION", "DIRECTIVE_DEFINITION",
]

LONG = "long " + "x" * 70
ADVERSARIAL = [
    "", " ", "a", "plain text", "  lead", "trail  ", "\tlead tab", "trail tab\t", 'q"uote', '"', '""', '"""',
    'x"""y', '"""lead', 'ends with quote"', 'ends with triple"""', "back\\slash", "ends\\", "\\", '\\"', '\\"""',
    "line1\nline2", "\nleading nl", "trailing nl\n", "\n", "a\rb", "a\r\nb", "\r", "a\r", "\rb", "a\x0bb", "a\x0cb",
    "\x0c", "\x0cx", "a\x1cb", "a\x1db", "a\x1eb", "a\x85b", "a b", "a b", " ", "   x",
    "a\n b", LONG, LONG + "\nsecond", '"' + LONG, " " + LONG, "  indented\n  lines", "a\n  b\n  c", "a\n\n\nb",
    "multi\n   \nblank", "  a\n b", "a\n b", " a\n  b", "\ta\n\tb", "uni é \U0001f600", "\x00", "\x01\x1f", "\x7f",
    "tab\tinside", " \n ", "#not a comment", "@deprecated", "﻿ bom", "No longer supported", "No longer supported ",
    "a\\nb", "\\u0041", "x\x0by\n z", "{ } : , ! | & = ( ) [ ]", "a\n\"\"\"\nb", "\"\n\"", "'single'", "a b", "a \\",
    "ends with nl and quote\n\"", "trailing spaces \nx  ", "x\n  ", "\n\n", "x\n\ny\n",
]

NAME_RE = re.compile(r"[_A-Za-z][_0-9A-Za-z]*")


def adv(rng, p_none=0.5):
    if rng.random() < p_none:
        return None
    if rng.random() < 0.12:
        # random composition over the critical alphabet
        alpha = ['"', "\\", "\n", "\r", " ", "\t", "a", "b", "\x0c", " ", "\x85", "#", "\x1c", "\x0b"]
        return "".join(rng.choice(alpha) for _ in range(rng.randint(1, 9)))
    return rng.choice(ADVERSARIAL)


def adv_depr(rng, p_none=0.7):
    if rng.random() < p_none:
        return None
    if rng.random() < 0.3:
        return "No longer supported"
    return rng.choice(ADVERSARIAL)


# ----------------------------------------------------------------------------- type refs / values


def named_of(t):
    while t[0] != "named":
        t = t[1]
    return t[1]


def tref_str(t):
    if t[0] == "named":
        return t[1]
    if t[0] == "list":
        return "[" + tref_str(t[1]) + "]"
    return tref_str(t[1]) + "!"


def wrap_random(rng, name, depth=0):
    t = ["named", name]
    r = rng.random()
    if r < 0.45:
        pass
    elif r < 0.6:
        t = ["nn", t]
    elif r < 0.8:
        t = ["list", ["nn", t]] if rng.random() < 0.5 else ["list", t]
        if rng.random() < 0.3:
            t = ["nn", t]
    else:
        t = ["list", ["list", t]] if rng.random() < 0.5 else ["nn", ["list", ["nn", t]]]
    return t


INT_POOL = [0, 1, -1, 7, 42, -2147483648, 2147483647, 10, 100]
FLOAT_POOL = [0.0, 1.5, -2.25, 1e20, 1.5e-7, 3.0, 123456.789, -0.5, 1e100]
ID_POOL = ["abc", "1", "007", "", "x y", 5, 0]


class Gen:
    def __init__(self, rng, size=1.0):
        self.rng = rng
        self.size = size
        self.used = set(STD_SCALARS) | {"Query", "Mutation", "Subscription"}
        self.kinds = {}  # name -> kind
        self.types = {}  # name -> type ir

    # -- names (contain a digit: natural sort; never collide with wording of change descriptions)
    def fresh(self, prefixes, universe=None):
        rng = self.rng
        for _ in range(1000):
            n = rng.choice(prefixes) + rng.choice(["1", "2", "3", "9", "10", "11", "02", "007", "1a2", "20", "1_1", "100", "12b"])
            if rng.random() < 0.15:
                n += rng.choice(["x", "_", "Y", "0"])
            if n not in self.used:
                self.used.add(n)
                return n
        raise RuntimeError("names exhausted")

    def member_names(self, prefixes, n):
        out = []
        seen = set()
        rng = self.rng
        while len(out) < n:
            x = rng.choice(prefixes) + rng.choice(["1", "2", "3", "9", "10", "11", "02", "007", "1a2", "20", "a1", "b2", "1_1"])
            if x not in seen:
                seen.add(x)
                out.append(x)
        return out

    # -- values
    def value_for(self, t, depth=0, allow_null=True):
        """(literal ir, python external value) valid for input type ref t."""
        rng = self.rng
        if t[0] == "nn":
            return self.value_for(t[1], depth, allow_null=False)
        if allow_null and rng.random() < 0.12:
            return ["null"], None
        if t[0] == "list":
            if rng.random() < 0.12 and t[1][0] != "list" and depth < 3:
                # single item coerced to a list is valid as a literal too
                return self.value_for(t[1], depth + 1, allow_null=False)
            n = rng.choice([0, 1, 2, 3]) if depth < 2 else (rng.choice([0, 1]) if depth < 4 else 0)
            items = [self.value_for(t[1], depth + 1) for _ in range(n)]
            return ["list", [i[0] for i in items]], [i[1] for i in items]
        name = t[1]
        if name == "Int":
            v = rng.choice(INT_POOL)
            return ["int", str(v)], v
        if name == "Float":
            if rng.random() < 0.3:
                v = rng.choice(INT_POOL)
                return ["int", str(v)], v
            v = rng.choice(FLOAT_POOL)
            return ["float", repr(v)], v
        if name == "String":
            s = rng.choice(ADVERSARIAL)
            return ["str", s, False], s
        if name == "Boolean":
            b = rng.random() < 0.5
            return ["bool", b], b
        if name == "ID":
            v = rng.choice(ID_POOL)
            if isinstance(v, int):
                return ["int", str(v)], v
            return ["str", v, False], v
        kind = self.kinds[name]
        if kind == "scalar":
            # custom scalars accept any literal
            r = rng.random()
            if r < 0.3:
                s = rng.choice(ADVERSARIAL)
                return ["str", s, False], s
            if r < 0.5:
                v = rng.choice(INT_POOL)
                return ["int", str(v)], v
            if r < 0.6:
                return ["bool", True], True
            if r < 0.8 and depth < 2:
                a, b = self.value_for(["named", name], depth + 1), self.value_for(["named", name], depth + 1)
                return ["list", [a[0], b[0]]], [a[1], b[1]]
            if depth < 2:
                a = self.value_for(["named", name], depth + 1)
                k = rng.choice(["k1", "z", "k10", "k2"])
                return ["obj", [[k, a[0]]]], {k: a[1]}
            return ["float", "1.5"], 1.5
        if kind == "enum":
            v = rng.choice(self.types[name]["values"])["name"]
            return ["enum", v], v
        if kind == "input":
            ty = self.types[name]
            if ty["oneof"]:
                f = rng.choice(ty["fields"])
                lit, py = self.value_for(f["type"], depth + 1, allow_null=False)
                return ["obj", [[f["name"], lit]]], {f["name"]: py}
            fields = []
            py = {}
            order = list(ty["fields"])
            if rng.random() < 0.5:
                rng.shuffle(order)
            for f in order:
                required = f["type"][0] == "nn" and f["default"] is None
                if required or rng.random() < 0.5:
                    if depth >= 2 and not required:
                        continue
                    lit, v = self.value_for(f["type"], depth + 1)
                    fields.append([f["name"], lit])
                    py[f["name"]] = v
            return ["obj", fields], py
        raise AssertionError(kind)

    def arg(self, name, input_names, allow_required=True, default_ok=lambda n: True):
        rng = self.rng
        base = rng.choice(input_names)
        t = wrap_random(rng, base)
        a = {"name": name, "desc": adv(rng, 0.6), "type": t, "default": None, "depr": None}
        if not allow_required and t[0] == "nn":
            t = t[1]
            a["type"] = t
        if rng.random() < 0.45 and default_ok(base):
            lit, py = self.value_for(t)
            a["default"] = lit
            a["py"] = py
        required = t[0] == "nn" and a["default"] is None
        if not required:
            a["depr"] = adv_depr(rng, 0.75)
        return a


def gen_ir(rng, size=1.0, sdl_mode=True):
    """A random valid schema IR.  `sdl_mode=False` avoids features that cannot be assembled
    programmatically in the same way (block-string default literals)."""
    g = Gen(rng, size)
    n_scalar = rng.choice([0, 1, 1, 2])
    n_enum = rng.choice([1, 1, 2])
    n_input = rng.choice([1, 2, 3])
    n_iface = rng.choice([0, 1, 2, 3])
    n_obj = rng.choice([1, 2, 3])
    n_union = rng.choice([0, 1, 1, 2])
    n_dir = rng.choice([0, 1, 2, 3])
    tp = ["T", "t", "Ty", "Z_", "A"]

    types = []
    for _ in range(n_scalar):
        n = g.fresh(tp)
        t = {"kind": "scalar", "name": n, "desc": adv(rng), "spec": None}
        if rng.random() < 0.5:
            t["spec"] = rng.choice(["https://example.com/spec", rng.choice(ADVERSARIAL)])
        g.kinds[n] = "scalar"
        g.types[n] = t
        types.append(t)
    for _ in range(n_enum):
        n = g.fresh(tp)
        vals = [
            {"name": v, "desc": adv(rng, 0.6), "depr": adv_depr(rng)}
            for v in g.member_names(["V", "v", "RED", "W_"], rng.randint(1, 4))
            if v not in ("true", "false", "null")
        ]
        t = {"kind": "enum", "name": n, "desc": adv(rng), "values": vals}
        g.kinds[n] = "enum"
        g.types[n] = t
        types.append(t)
    # input objects: defaults only mention earlier inputs (no default cycles); recursion via nullable/list refs
    input_names = []
    for _ in range(n_input):
        n = g.fresh(tp)
        g.kinds[n] = "input"
        oneof = rng.random() < 0.25
        leafs = STD_SCALARS + [x["name"] for x in types if x["kind"] in ("scalar", "enum")]
        fields = []
        for fname in g.member_names(["a", "in", "f", "x_"], rng.randint(1, 4)):
            r = rng.random()
            if r < 0.2 and not oneof:
                # recursive reference (self), nullable or list, never a default mentioning it
                t = rng.choice([["named", n], ["list", ["named", n]], ["list", ["nn", ["named", n]]], ["nn", ["list", ["named", n]]]])
                f = {"name": fname, "desc": adv(rng, 0.6), "type": t, "default": None, "depr": None}
                if rng.random() < 0.3:
                    f["default"] = ["null"] if t[0] != "nn" else ["list", []]
                    f["py"] = None if t[0] != "nn" else []
                if not (t[0] == "nn" and f["default"] is None):
                    f["depr"] = adv_depr(rng, 0.8)
            else:
                pool = leafs + input_names
                f = g.arg(fname, pool, allow_required=not oneof)
                if oneof:
                    f["default"] = None
                    f.pop("py", None)
                    # oneOf fields are nullable => deprecation allowed
            fields.append(f)
        t = {"kind": "input", "name": n, "desc": adv(rng), "oneof": oneof, "fields": fields}
        g.types[n] = t
        types.append(t)
        input_names.append(n)
    all_inputs = STD_SCALARS + [x["name"] for x in types if x["kind"] in ("scalar", "enum", "input")]
    leaf_out = STD_SCALARS + [x["name"] for x in types if x["kind"] in ("scalar", "enum")]

    # names of output composite types are fixed up front so fields can reference any of them
    iface_names = [g.fresh(["I", "i", "Node", "T"]) for _ in range(n_iface)]
    obj_names = [g.fresh(tp) for _ in range(n_obj)]
    union_names = [g.fresh(["U", "u", "T"]) for _ in range(n_union)]
    # roots
    root_mode = rng.choice(["default", "default", "custom", "custom", "swapped", "query-only"])
    roots = {"query": None, "mutation": None, "subscription": None}

    def take_root(default_name, use_default):
        if use_default:
            g.used.add(default_name)
            return default_name
        return g.fresh(tp + ["Root", "Q"])

    if root_mode == "default":
        roots["query"] = take_root("Query", True)
        if rng.random() < 0.6:
            roots["mutation"] = take_root("Mutation", True)
        if rng.random() < 0.4:
            roots["subscription"] = take_root("Subscription", True)
    elif root_mode == "custom":
        roots["query"] = take_root("Query", rng.random() < 0.3)
        if rng.random() < 0.6:
            roots["mutation"] = take_root("Mutation", rng.random() < 0.3)
        if rng.random() < 0.4:
            roots["subscription"] = take_root("Subscription", rng.random() < 0.3)
    elif root_mode == "swapped":
        # conventional names used for *other* roles / plain types: the schema block must be printed
        roots["query"] = rng.choice(["Mutation", "Subscription", g.fresh(tp)])
        g.used.add(roots["query"])
        if rng.random() < 0.5:
            roots["mutation"] = "Query" if roots["query"] != "Query" else None
    else:
        roots["query"] = take_root("Query", rng.random() < 0.5)
    root_names = [r for r in roots.values() if r]
    extra_obj = []
    if root_mode in ("custom", "query-only") and rng.random() < 0.35:
        # an ordinary type that happens to be called Mutation/Subscription/Query
        for cand in ("Mutation", "Subscription", "Query"):
            if cand not in root_names and rng.random() < 0.5:
                extra_obj.append(cand)
                break
    obj_names = root_names + extra_obj + obj_names
    for n in iface_names:
        g.kinds[n] = "interface"
    for n in obj_names:
        g.kinds[n] = "object"
    for n in union_names:
        g.kinds[n] = "union"
    out_names = leaf_out + iface_names + obj_names + union_names

    def gen_field(fname):
        f = {
            "name": fname,
            "desc": adv(rng, 0.6),
            "args": [g.arg(a, all_inputs) for a in g.member_names(["a", "arg", "p_"], rng.choice([0, 0, 1, 2, 3]))],
            "type": wrap_random(rng, rng.choice(out_names)),
            "depr": adv_depr(rng, 0.8),
        }
        return f

    ifaces = {}
    iface_field_names = set()
    for idx, n in enumerate(iface_names):
        parents = []
        for p in iface_names[:idx]:
            if rng.random() < 0.4:
                for q in ifaces[p]["interfaces"] + [p]:
                    if q not in parents:
                        parents.append(q)
        if rng.random() < 0.5:
            rng.shuffle(parents)
        fields = inherited_fields(g, ifaces, parents)
        have = {f["name"] for f in fields}
        for fname in g.member_names(["f", "g", "field", "h_"], rng.randint(1, 3)):
            if fname not in have and fname not in iface_field_names:
                have.add(fname)
                iface_field_names.add(fname)
                fields.append(gen_field(fname))
        if not fields:
            fname = g.fresh(["f", "g"])
            iface_field_names.add(fname)
            fields.append(gen_field(fname))
        if rng.random() < 0.4:
            rng.shuffle(fields)
        t = {"kind": "interface", "name": n, "desc": adv(rng), "interfaces": parents, "fields": fields}
        ifaces[n] = t
        g.types[n] = t
        types.append(t)
    for n in obj_names:
        parents = []
        for p in iface_names:
            if rng.random() < 0.35:
                for q in ifaces[p]["interfaces"] + [p]:
                    if q not in parents:
                        parents.append(q)
        if rng.random() < 0.5:
            rng.shuffle(parents)
        fields = inherited_fields(g, ifaces, parents)
        have = {f["name"] for f in fields}
        for fname in g.member_names(["f", "g", "field", "h_"], rng.randint(1, 3)):
            if fname not in have:
                have.add(fname)
                fields.append(gen_field(fname))
        if rng.random() < 0.4:
            rng.shuffle(fields)
        t = {"kind": "object", "name": n, "desc": adv(rng), "interfaces": parents, "fields": fields}
        g.types[n] = t
        types.append(t)
    for n in union_names:
        k = rng.randint(1, min(3, len(obj_names)))
        t = {"kind": "union", "name": n, "desc": adv(rng), "members": rng.sample(obj_names, k)}
        g.types[n] = t
        types.append(t)
    directives = []
    for _ in range(n_dir):
        n = g.fresh(["d", "dir", "D_", "a"])
        k = rng.choice([1, 1, 2, 3, 5, len(LOCATIONS)])
        locs = rng.sample(LOCATIONS, k)
        directives.append(
            {
                "name": n,
                "desc": adv(rng),
                "args": [g.arg(a, all_inputs) for a in g.member_names(["a", "arg", "p_"], rng.choice([0, 1, 2, 3]))],
                "repeatable": rng.random() < 0.4,
                "locations": locs,
                "depr": adv_depr(rng, 0.7),
            }
        )
    if sdl_mode:
        # some block-string default literals (SDL only)
        for a in all_args_of(types, directives):
            d = a.get("default")
            if d and d[0] == "str" and rng.random() < 0.3 and block_safe(d[1]):
                d[2] = True
    rng.shuffle(types)
    desc = adv(rng, 0.6)
    return {
        "desc": desc,
        "query": roots["query"],
        "mutation": roots["mutation"],
        "subscription": roots["subscription"],
        "directives": directives,
        "types": types,
    }


def block_safe(s):
    """Strings whose block form `\"\"\"\\n<s>\\n\"\"\"`-style emission by ir_to_sdl re-reads as s."""
    if not s or s != s.strip(" \t\n\r") or '"""' in s or "\\" in s or "\r" in s:
        return False
    if any(ord(c) < 0x20 and c not in "\n\t" for c in s):
        return False
    lines = s.split("\n")
    if any(ln.strip(" \t") == "" for ln in lines):
        return False
    return all(not ln.startswith((" ", "\t")) for ln in lines)


def parents_deprecated(ifaces, parents, fname):
    """A field may be deprecated only if every implemented interface field of that name is."""
    for p in parents:
        for f in ifaces[p]["fields"]:
            if f["name"] == fname and f["depr"] is None:
                return False
    return True


def inherited_fields(g, ifaces, parents):
    """Fields a type must carry to implement all of `parents`: per field name the versions of
    all parents are merged (non-null if any is, union of the arguments), then varied."""
    by_name = {}
    for p in parents:
        for f in ifaces[p]["fields"]:
            by_name.setdefault(f["name"], []).append(f)
    out = []
    for name, versions in by_name.items():
        base = copy.deepcopy(versions[-1])
        have = {a["name"] for a in base["args"]}
        for v in versions[:-1]:
            if v["type"][0] == "nn" and base["type"][0] != "nn":
                base["type"] = ["nn", base["type"]]
            for a in v["args"]:
                if a["name"] not in have:
                    have.add(a["name"])
                    base["args"].append(copy.deepcopy(a))
        out.append(implement_field(g, base, all(v["depr"] is not None for v in versions)))
    return out


def implement_field(g, f, may_deprecate):
    rng = g.rng
    nf = copy.deepcopy(f)
    nf["desc"] = adv(rng, 0.6)
    # covariant result: sometimes add non-null
    if nf["type"][0] != "nn" and rng.random() < 0.3:
        nf["type"] = ["nn", nf["type"]]
    for a in nf["args"]:
        a["desc"] = adv(rng, 0.7)
    if rng.random() < 0.3:
        # additional optional argument (globally fresh name: merged versions never clash)
        a = g.arg(g.fresh(["extra", "opt"]), STD_SCALARS, allow_required=False)
        nf["args"].append(a)
    if not may_deprecate:
        nf["depr"] = None
    elif rng.random() < 0.5:
        nf["depr"] = adv_depr(rng, 0.3)
    return nf


def all_args_of(types, directives):
    for t in types:
        if t["kind"] in ("object", "interface"):
            for f in t["fields"]:
                yield from f["args"]
        elif t["kind"] == "input":
            yield from t["fields"]
    for d in directives:
        yield from d["args"]


# ----------------------------------------------------------------------------- IR -> SDL (own emitter)


def q(s):
    """Quoted GraphQL string literal (independent of graphql.language.print_string)."""
    out = ['"']
    for ch in s:
        o = ord(ch)
        if ch == '"':
            out.append('\\"')
        elif ch == "\\":
            out.append("\\\\")
        elif o < 0x20 or o == 0x7F:
            out.append("\\u%04X" % o)
        else:
            out.append(ch)
    out.append('"')
    return "".join(out)


def sdl_value(v):
    k = v[0]
    if k in ("int", "float", "enum"):
        return v[1]
    if k == "str":
        if v[2]:
            return '"""\n' + v[1] + '\n"""'
        return q(v[1])
    if k == "bool":
        return "true" if v[1] else "false"
    if k == "null":
        return "null"
    if k == "list":
        return "[" + ", ".join(sdl_value(x) for x in v[1]) + "]"
    if k == "obj":
        return "{" + ", ".join(f"{n}: {sdl_value(x)}" for n, x in v[1]) + "}"
    raise AssertionError(v)


def sdl_desc(d, rng, indent=""):
    if d is None:
        return ""
    if rng.random() < 0.5 and block_safe(d):
        return indent + '"""\n' + "\n".join(indent + ln for ln in d.split("\n")) + "\n" + indent + '"""\n'
    return indent + q(d) + "\n"


def sdl_depr(r, rng):
    if r is None:
        return ""
    if r == "No longer supported" and rng.random() < 0.7:
        return " @deprecated"
    return f" @deprecated(reason: {q(r)})"


def sdl_arg(a, rng, indent=""):
    s = sdl_desc(a["desc"], rng, indent) + indent + f"{a['name']}: {tref_str(a['type'])}"
    if a["default"] is not None:
        s += " = " + sdl_value(a["default"])
    return s + sdl_depr(a["depr"], rng)


def sdl_args(args, rng, indent):
    if not args:
        return ""
    return "(\n" + "\n".join(sdl_arg(a, rng, indent + "  ") for a in args) + "\n" + indent + ")"


def sdl_fields(fields, rng):
    out = []
    for f in fields:
        out.append(
            sdl_desc(f["desc"], rng, "  ")
            + f"  {f['name']}{sdl_args(f['args'], rng, '  ')}: {tref_str(f['type'])}{sdl_depr(f['depr'], rng)}"
        )
    return " {\n" + "\n".join(out) + "\n}"


def sdl_type(t, rng, ext=False):
    kw = "extend " if ext else ""
    d = "" if ext else sdl_desc(t["desc"], rng)
    k = t["kind"]
    ap = t.get("applied", "") if ext else ""
    if k == "scalar":
        spec = f" @specifiedBy(url: {q(t['spec'])})" if t["spec"] is not None else ""
        return d + kw + f"scalar {t['name']}" + (ap + spec if ext and len(ap) % 2 else spec + ap)
    if k in ("object", "interface"):
        kwd = "type" if k == "object" else "interface"
        impl = (" implements " + " & ".join(t["interfaces"])) if t["interfaces"] else ""
        return d + kw + f"{kwd} {t['name']}{impl}{ap}" + (sdl_fields(t["fields"], rng) if t["fields"] else "")
    if k == "union":
        return d + kw + f"union {t['name']}{ap}" + ((" = " + " | ".join(t["members"])) if t["members"] else "")
    if k == "enum":
        vals = [sdl_desc(v["desc"], rng, "  ") + f"  {v['name']}{sdl_depr(v['depr'], rng)}" for v in t["values"]]
        return d + kw + f"enum {t['name']}{ap}" + ((" {\n" + "\n".join(vals) + "\n}") if vals else "")
    if k == "input":
        fs = [sdl_arg(a, rng, "  ") for a in t["fields"]]
        return d + kw + f"input {t['name']}" + (" @oneOf" if t.get("oneof") else "") + ap + ((" {\n" + "\n".join(fs) + "\n}") if fs else "")
    raise AssertionError(k)


def sdl_directive(d, rng):
    return (
        sdl_desc(d["desc"], rng)
        + f"directive @{d['name']}{sdl_args(d['args'], rng, '')}{sdl_depr(d['depr'], rng)}"
        + (" repeatable" if d["repeatable"] else "")
        + " on "
        + " | ".join(d["locations"])
    )


def needs_schema_block(ir):
    if ir["desc"] is not None:
        return True
    names = {t["name"] for t in ir["types"]}
    for op, conv in (("query", "Query"), ("mutation", "Mutation"), ("subscription", "Subscription")):
        r = ir[op]
        if r is None:
            if conv in names:
                return True
        elif r != conv:
            return True
    return False


def sdl_schema_block(ir, rng, force=False):
    if not (force or needs_schema_block(ir)):
        return None
    ops = [f"  {op}: {ir[op]}" for op in ("query", "mutation", "subscription") if ir[op]]
    return sdl_desc(ir["desc"], rng) + "schema {\n" + "\n".join(ops) + "\n}"


def ir_to_sdl(ir, rng, shuffle=True):
    """SDL text for the IR.  Type definitions keep IR order (it determines the type-map order);
    directive definitions keep their relative order; the schema block and the directive
    definitions are interleaved at random positions."""
    parts = [("t", sdl_type(t, rng)) for t in ir["types"]]
    dirs = [("d", sdl_directive(d, rng)) for d in ir["directives"]]
    blk = sdl_schema_block(ir, rng, force=rng.random() < 0.3)
    extras = dirs + ([("s", blk)] if blk else [])
    if shuffle:
        # insert extras at random positions, preserving relative order of directives
        pos = sorted(rng.randint(0, len(parts)) for _ in extras)
        if blk and shuffle:
            # the schema block may go anywhere among the extras
            i = rng.randrange(len(extras))
            extras.insert(i, extras.pop())
        out = list(parts)
        for off, (p, e) in enumerate(zip(pos, extras)):
            out.insert(p + off, e)
        parts = out
    else:
        parts = ([("s", blk)] if blk else []) + dirs + parts
    sep = rng.choice(["\n\n", "\n", "\n\n\n"])
    return sep.join(p[1] for p in parts) + "\n"


# ----------------------------------------------------------------------------- IR -> programmatic schema


def ir_to_schema(ir, rng, mode=None):
    """Assemble the schema from GraphQL*Type objects; defaults are Python values that go
    through value_to_literal (GraphQLDefaultInput(value=...)) or ast_from_value (legacy
    default_value=...).  Returns (schema, ordered) where `ordered` says whether the IR type
    order is the type-map order (types=all given in IR order)."""
    import graphql as G
    from graphql.language import DirectiveLocation
    from graphql.type import GraphQLDefaultInput

    std = {
        "String": G.GraphQLString, "Int": G.GraphQLInt, "Float": G.GraphQLFloat,
        "Boolean": G.GraphQLBoolean, "ID": G.GraphQLID,
    }
    objs = {}
    mode = mode or rng.choice(["all", "all", "none", "some"])

    def tref(t):
        if t[0] == "named":
            return std.get(t[1]) or objs[t[1]]
        if t[0] == "list":
            return G.GraphQLList(tref(t[1]))
        return G.GraphQLNonNull(tref(t[1]))

    def legacy_ok(t, lit):
        """ast_from_value path (internal values): usable when value_to_literal and
        ast_from_value agree in literal form — ints, bools, plain strings, enums, lists, objects
        of ints, bools, plain strings and enums (not custom scalars, floats, ID, input objects)."""
        k = lit[0]
        t0 = t[1] if t[0] == "nn" else t
        if k == "null":
            return False
        if t0[0] == "list":
            return k == "list" and lit[1] and all(legacy_ok(t0[1], x) for x in lit[1])
        nm = t0[1]
        if nm in ("Int", "Boolean", "String"):
            return k in ("int", "bool", "str")
        if nm in std:
            return False
        kd = kinds[nm]
        if kd == "enum":
            return k == "enum"
        # input objects: an *internal* default must already contain the defaults of the nested
        # fields (it is used as is); the generator's Python values are external ones
        return False

    def mk_arg(a, cls):
        kw = {"description": a["desc"], "deprecation_reason": a["depr"]}
        if a["default"] is not None:
            if "py" in a and legacy_ok(a["type"], a["default"]) and rng.random() < 0.3:
                kw["default_value"] = a["py"]
            elif "py" in a and not has_block(a["default"]):
                kw["default"] = GraphQLDefaultInput(value=a["py"])
            else:
                kw["default"] = GraphQLDefaultInput(literal=G.parse_const_value(sdl_value(a["default"]), no_location=True))
        return cls(tref(a["type"]), **kw)

    def mk_fields(t):
        def thunk():
            return {
                f["name"]: G.GraphQLField(
                    tref(f["type"]),
                    args={a["name"]: mk_arg(a, G.GraphQLArgument) for a in f["args"]},
                    description=f["desc"],
                    deprecation_reason=f["depr"],
                )
                for f in t["fields"]
            }

        return thunk

    kinds = {t["name"]: t["kind"] for t in ir["types"]}
    tmap = {t["name"]: t for t in ir["types"]}
    for t in ir["types"]:
        k, n = t["kind"], t["name"]
        if k == "scalar":
            objs[n] = G.GraphQLScalarType(n, description=t["desc"], specified_by_url=t["spec"])
        elif k == "enum":
            objs[n] = G.GraphQLEnumType(
                n,
                {v["name"]: G.GraphQLEnumValue(v["name"], description=v["desc"], deprecation_reason=v["depr"]) for v in t["values"]},
                description=t["desc"],
            )
        elif k == "input":
            objs[n] = G.GraphQLInputObjectType(
                n,
                (lambda t=t: {a["name"]: mk_arg(a, G.GraphQLInputField) for a in t["fields"]}),
                description=t["desc"],
                is_one_of=t["oneof"],
            )
        elif k == "object":
            objs[n] = G.GraphQLObjectType(
                n, mk_fields(t), interfaces=(lambda t=t: [objs[i] for i in t["interfaces"]]), description=t["desc"]
            )
        elif k == "interface":
            objs[n] = G.GraphQLInterfaceType(
                n, mk_fields(t), interfaces=(lambda t=t: [objs[i] for i in t["interfaces"]]), description=t["desc"]
            )
        elif k == "union":
            objs[n] = G.GraphQLUnionType(n, (lambda t=t: [objs[m] for m in t["members"]]), description=t["desc"])
    dirs = [
        G.GraphQLDirective(
            d["name"],
            [DirectiveLocation[x] for x in d["locations"]],
            args={a["name"]: mk_arg(a, G.GraphQLArgument) for a in d["args"]},
            is_repeatable=d["repeatable"],
            description=d["desc"],
            deprecation_reason=d["depr"],
        )
        for d in ir["directives"]
    ]
    if rng.random() < 0.5:
        directives = list(G.specified_directives) + dirs
    else:
        directives = dirs + list(G.specified_directives)
    if mode == "all":
        types = [objs[t["name"]] for t in ir["types"]]
    elif mode == "none":
        types = None
    else:
        types = [objs[t["name"]] for t in ir["types"] if rng.random() < 0.5]
        rng.shuffle(types)
    schema = G.GraphQLSchema(
        query=objs[ir["query"]] if ir["query"] else None,
        mutation=objs[ir["mutation"]] if ir["mutation"] else None,
        subscription=objs[ir["subscription"]] if ir["subscription"] else None,
        types=types,
        directives=directives,
        description=ir["desc"],
    )
    return schema, mode == "all"


def has_block(v):
    if v[0] == "str":
        return bool(v[2])
    if v[0] == "list":
        return any(has_block(x) for x in v[1])
    if v[0] == "obj":
        return any(has_block(x) for _, x in v[1])
    return False


# ----------------------------------------------------------------------------- schema object -> IR


def value_ir(node):
    """ConstValueNode -> value IR."""
    from graphql import language as L

    if isinstance(node, L.IntValueNode):
        return ["int", node.value]
    if isinstance(node, L.FloatValueNode):
        return ["float", node.value]
    if isinstance(node, L.StringValueNode):
        return ["str", node.value, bool(node.block)]
    if isinstance(node, L.BooleanValueNode):
        return ["bool", bool(node.value)]
    if isinstance(node, L.NullValueNode):
        return ["null"]
    if isinstance(node, L.EnumValueNode):
        return ["enum", node.value]
    if isinstance(node, L.ListValueNode):
        return ["list", [value_ir(x) for x in node.values]]
    if isinstance(node, L.ObjectValueNode):
        return ["obj", [[f.name.value, value_ir(f.value)] for f in node.fields]]
    raise TypeError(f"not a const value node: {node!r}")


def tref_ir(t):
    import graphql as G

    if G.is_list_type(t):
        return ["list", tref_ir(t.of_type)]
    if G.is_non_null_type(t):
        return ["nn", tref_ir(t.of_type)]
    return ["named", t.name]


def arg_ir(name, a):
    from graphql.utilities.get_default_value_ast import get_default_value_ast

    d = get_default_value_ast(a)
    return {
        "name": name,
        "desc": a.description,
        "type": tref_ir(a.type),
        "default": value_ir(d) if d is not None else None,
        "depr": a.deprecation_reason,
    }


def field_ir(name, f):
    return {
        "name": name,
        "desc": f.description,
        "args": [arg_ir(n, a) for n, a in f.args.items()],
        "type": tref_ir(f.type),
        "depr": f.deprecation_reason,
    }


def type_ir(t):
    import graphql as G

    if G.is_scalar_type(t):
        return {"kind": "scalar", "name": t.name, "desc": t.description, "spec": t.specified_by_url}
    if G.is_object_type(t) or G.is_interface_type(t):
        return {
            "kind": "object" if G.is_object_type(t) else "interface",
            "name": t.name,
            "desc": t.description,
            "interfaces": [i.name for i in t.interfaces],
            "fields": [field_ir(n, f) for n, f in t.fields.items()],
        }
    if G.is_union_type(t):
        return {"kind": "union", "name": t.name, "desc": t.description, "members": [m.name for m in t.types]}
    if G.is_enum_type(t):
        return {
            "kind": "enum",
            "name": t.name,
            "desc": t.description,
            "values": [{"name": n, "desc": v.description, "depr": v.deprecation_reason} for n, v in t.values.items()],
        }
    if G.is_input_object_type(t):
        return {
            "kind": "input",
            "name": t.name,
            "desc": t.description,
            "oneof": bool(t.is_one_of),
            "fields": [arg_ir(n, a) for n, a in t.fields.items()],
        }
    raise TypeError(t)


def directive_ir(d):
    return {
        "name": d.name,
        "desc": d.description,
        "args": [arg_ir(n, a) for n, a in d.args.items()],
        "repeatable": bool(d.is_repeatable),
        "locations": [loc.name for loc in d.locations],
        "depr": d.deprecation_reason,
    }


def schema_ir(schema, with_std=False):
    """Everything print/diff-relevant of a GraphQLSchema, in type-map / declaration order.
    Introspection types, specified scalars and specified directives are left out unless
    `with_std` (then specified scalars present in the type map are listed under "std")."""
    import graphql as G
    from graphql.type import is_specified_directive

    types = [
        type_ir(t)
        for t in schema.type_map.values()
        if not G.is_introspection_type(t) and not G.is_specified_scalar_type(t)
    ]
    ir = {
        "desc": schema.description,
        "query": schema.query_type.name if schema.query_type else None,
        "mutation": schema.mutation_type.name if schema.mutation_type else None,
        "subscription": schema.subscription_type.name if schema.subscription_type else None,
        "directives": [directive_ir(d) for d in schema.directives if not is_specified_directive(d)],
        "types": types,
    }
    if with_std:
        ir["std"] = [n for n, t in schema.type_map.items() if G.is_specified_scalar_type(t)]
    return ir


def strip_py(ir):
    """IR without the generator-only python values."""
    ir = copy.deepcopy(ir)
    for a in all_args_of(ir["types"], ir["directives"]):
        a.pop("py", None)
    return ir


# ----------------------------------------------------------------------------- S-expressions


def sx_str(s):
    return "[ " + "".join(f"{ord(c)} " for c in s) + "]"


def sx_opt(x, f):
    return "N" if x is None else "( S " + f(x) + " )"


def sx_list(xs, f):
    return "( L " + "".join(f(x) + " " for x in xs) + ")"


def sx_bool(b):
    return "T" if b else "F"


def sx_value(v):
    k = v[0]
    if k in ("int", "float", "enum"):
        return f"( {k} {sx_str(v[1])} )"
    if k == "str":
        return f"( str {sx_str(v[1])} {sx_bool(v[2])} )"
    if k == "bool":
        return f"( bool {sx_bool(v[1])} )"
    if k == "null":
        return "( null )"
    if k == "list":
        return f"( list {sx_list(v[1], sx_value)} )"
    if k == "obj":
        return "( obj " + sx_list(v[1], lambda p: f"( of {sx_str(p[0])} {sx_value(p[1])} )") + " )"
    raise AssertionError(v)


def sx_tref(t):
    if t[0] == "named":
        return f"( named {sx_str(t[1])} )"
    if t[0] == "list":
        return f"( listT {sx_tref(t[1])} )"
    return f"( nn {sx_tref(t[1])} )"


def sx_arg(a):
    return f"( arg {sx_str(a['name'])} {sx_opt(a['desc'], sx_str)} {sx_tref(a['type'])} {sx_opt(a['default'], sx_value)} {sx_opt(a['depr'], sx_str)} )"


def sx_field(f):
    return f"( field {sx_str(f['name'])} {sx_opt(f['desc'], sx_str)} {sx_list(f['args'], sx_arg)} {sx_tref(f['type'])} {sx_opt(f['depr'], sx_str)} )"


def sx_type(t):
    k = t["kind"]
    head = f"{sx_str(t['name'])} {sx_opt(t['desc'], sx_str)}"
    if k == "scalar":
        return f"( scalar {head} {sx_opt(t['spec'], sx_str)} )"
    if k in ("object", "interface"):
        return f"( {k} {head} {sx_list(t['interfaces'], sx_str)} {sx_list(t['fields'], sx_field)} )"
    if k == "union":
        return f"( union {head} {sx_list(t['members'], sx_str)} )"
    if k == "enum":
        return f"( enum {head} " + sx_list(
            t["values"], lambda v: f"( ev {sx_str(v['name'])} {sx_opt(v['desc'], sx_str)} {sx_opt(v['depr'], sx_str)} )"
        ) + " )"
    if k == "input":
        return f"( input {head} {sx_bool(t['oneof'])} {sx_list(t['fields'], sx_arg)} )"
    raise AssertionError(k)


def sx_directive(d):
    return (
        f"( dir {sx_str(d['name'])} {sx_opt(d['desc'], sx_str)} {sx_list(d['args'], sx_arg)} "
        f"{sx_bool(d['repeatable'])} {sx_list(d['locations'], str)} {sx_opt(d['depr'], sx_str)} )"
    )


def sx_schema(ir):
    return (
        f"( schema {sx_opt(ir['desc'], sx_str)} {sx_opt(ir['query'], sx_str)} {sx_opt(ir['mutation'], sx_str)} "
        f"{sx_opt(ir['subscription'], sx_str)} {sx_list(ir['directives'], sx_directive)} {sx_list(ir['types'], sx_type)} )"
    )


# -- definition ASTs (parsed documents) ---------------------------------------------------------


def sx_desc_node(n):
    return "N" if n is None else f"( S ( d {sx_str(n.value)} {sx_bool(bool(n.block))} ) )"


def sx_dirapps(ds):
    def one(d):
        return f"( da {sx_str(d.name.value)} " + sx_list(
            d.arguments or (), lambda a: f"( ar {sx_str(a.name.value)} {sx_value(value_ir(a.value))} )"
        ) + " )"

    return sx_list(ds or (), one)


def sx_type_node(t):
    from graphql import language as L

    if isinstance(t, L.ListTypeNode):
        return f"( listT {sx_type_node(t.type)} )"
    if isinstance(t, L.NonNullTypeNode):
        return f"( nn {sx_type_node(t.type)} )"
    return f"( named {sx_str(t.name.value)} )"


def sx_ivd(a):
    dv = "N" if a.default_value is None else f"( S {sx_value(value_ir(a.default_value))} )"
    return f"( ivd {sx_desc_node(a.description)} {sx_str(a.name.value)} {sx_type_node(a.type)} {dv} {sx_dirapps(a.directives)} )"


def sx_fd(f):
    return (
        f"( fd {sx_desc_node(f.description)} {sx_str(f.name.value)} {sx_list(f.arguments or (), sx_ivd)} "
        f"{sx_type_node(f.type)} {sx_dirapps(f.directives)} )"
    )


def sx_evd(v):
    return f"( evd {sx_desc_node(v.description)} {sx_str(v.name.value)} {sx_dirapps(v.directives)} )"


def sx_ops(ops):
    return sx_list(ops or (), lambda o: f"( op {o.operation.value} {sx_str(o.type.name.value)} )")


def sx_names(ns):
    return sx_list(ns or (), lambda n: sx_str(n.name.value))


def sx_def(d):
    from graphql import language as L

    nm = lambda: sx_str(d.name.value)  # noqa: E731
    ds = lambda: sx_desc_node(d.description)  # noqa: E731
    da = lambda: sx_dirapps(d.directives)  # noqa: E731
    if isinstance(d, L.SchemaDefinitionNode):
        return f"( schema {ds()} {da()} {sx_ops(d.operation_types)} )"
    if isinstance(d, L.SchemaExtensionNode):
        return f"( xschema {da()} {sx_ops(d.operation_types)} )"
    if isinstance(d, L.DirectiveDefinitionNode):
        return (
            f"( directive {ds()} {nm()} {sx_list(d.arguments or (), sx_ivd)} {da()} {sx_bool(d.repeatable)} "
            f"{sx_list(d.locations, lambda x: x.value)} )"
        )
    if isinstance(d, L.DirectiveExtensionNode):
        return f"( xdirective {nm()} {da()} )"
    if isinstance(d, L.ScalarTypeDefinitionNode):
        return f"( scalar {ds()} {nm()} {da()} )"
    if isinstance(d, L.ScalarTypeExtensionNode):
        return f"( xscalar {nm()} {da()} )"
    if isinstance(d, (L.ObjectTypeDefinitionNode, L.InterfaceTypeDefinitionNode)):
        k = "object" if isinstance(d, L.ObjectTypeDefinitionNode) else "interface"
        return f"( {k} {ds()} {nm()} {sx_names(d.interfaces)} {da()} {sx_list(d.fields or (), sx_fd)} )"
    if isinstance(d, (L.ObjectTypeExtensionNode, L.InterfaceTypeExtensionNode)):
        k = "xobject" if isinstance(d, L.ObjectTypeExtensionNode) else "xinterface"
        return f"( {k} {nm()} {sx_names(d.interfaces)} {da()} {sx_list(d.fields or (), sx_fd)} )"
    if isinstance(d, L.UnionTypeDefinitionNode):
        return f"( union {ds()} {nm()} {da()} {sx_names(d.types)} )"
    if isinstance(d, L.UnionTypeExtensionNode):
        return f"( xunion {nm()} {da()} {sx_names(d.types)} )"
    if isinstance(d, L.EnumTypeDefinitionNode):
        return f"( enum {ds()} {nm()} {da()} {sx_list(d.values or (), sx_evd)} )"
    if isinstance(d, L.EnumTypeExtensionNode):
        return f"( xenum {nm()} {da()} {sx_list(d.values or (), sx_evd)} )"
    if isinstance(d, L.InputObjectTypeDefinitionNode):
        return f"( input {ds()} {nm()} {da()} {sx_list(d.fields or (), sx_ivd)} )"
    if isinstance(d, L.InputObjectTypeExtensionNode):
        return f"( xinput {nm()} {da()} {sx_list(d.fields or (), sx_ivd)} )"
    raise TypeError(d)


def sx_doc(doc):
    return sx_list(doc.definitions, sx_def)


def parse_sdl(text):
    from graphql import parse

    return parse(text, no_location=True, experimental_directives_on_directive_definitions=True)


def build(text):
    from graphql import build_schema

    return build_schema(text, experimental_directives_on_directive_definitions=True)


# ----------------------------------------------------------------------------- C19: extensions


def type_index(ir):
    return {t["name"]: t for t in ir["types"]}


def iface_closure(tmap, names):
    out = []
    for n in names:
        for q in tmap[n]["interfaces"] + [n]:
            if q not in out:
                out.append(q)
    return out


def gen_extension(rng, ir, explicit_schema_block):
    """Extension items for the base IR, in document order.  Returns (items, combined_ir):
    `combined_ir` is what building A and B together must contain.  Items are
    ("xtype", type-fragment) | ("type", type) | ("directive", d) | ("xschema", {op: name}) |
    ("xdirective", name, reason)."""
    base = strip_py(ir)
    comb = copy.deepcopy(base)
    g = Gen(rng)
    for t in comb["types"]:
        g.used.add(t["name"])
        g.kinds[t["name"]] = t["kind"]
        g.types[t["name"]] = t
    for d in comb["directives"]:
        g.used.add(d["name"])
    tmap = type_index(comb)
    items = []
    forbidden_new = set() if explicit_schema_block else {"Query", "Mutation", "Subscription"}
    g.used |= {"Query", "Mutation", "Subscription"}

    def input_names():
        return STD_SCALARS + [t["name"] for t in comb["types"] if t["kind"] in ("scalar", "enum", "input")]

    def output_names():
        return STD_SCALARS + [t["name"] for t in comb["types"] if t["kind"] in ("scalar", "enum", "object", "interface", "union")]

    def new_field(existing):
        for _ in range(20):
            n = g.member_names(["nf", "x", "added_"], 1)[0]
            if n not in existing:
                break
        else:
            return None
        f = {
            "name": n, "desc": adv(rng, 0.6),
            "args": [g.arg(a, input_names()) for a in g.member_names(["a", "p_"], rng.choice([0, 0, 1, 2]))],
            "type": wrap_random(rng, rng.choice(output_names())), "depr": adv_depr(rng, 0.8),
        }
        for a in f["args"]:
            a.pop("py", None)
        return f

    # names of interface fields anywhere (new plain fields must not collide with them in implementers)
    def content_ext(t):
        """One extension of type `t` that adds content (updates `comb`); None if nothing applies."""
        k = t["kind"]
        frag = {"kind": k, "name": t["name"], "desc": None}
        if k == "scalar":
            if t["spec"] is None:
                t["spec"] = rng.choice(["https://example.com/x", "u"])
                frag["spec"] = t["spec"]
            else:
                return None
        elif k == "enum":
            have = {v["name"] for v in t["values"]}
            vs = [{"name": v, "desc": adv(rng, 0.7), "depr": adv_depr(rng)} for v in g.member_names(["X", "NEW"], rng.randint(1, 2)) if v not in have]
            if not vs:
                return None
            t["values"] += vs
            frag["values"] = copy.deepcopy(vs)
        elif k == "input":
            have = {a["name"] for a in t["fields"]}
            fs = []
            for a in g.member_names(["nx", "added"], rng.randint(1, 2)):
                if a in have:
                    continue
                f = g.arg(a, [x for x in input_names() if x != t["name"]], allow_required=not t["oneof"])
                f.pop("py", None)
                if t["oneof"]:
                    f["default"] = None
                elif f["type"][0] == "nn" and f["default"] is None:
                    f["type"] = f["type"][1]  # keep old literals of this type valid
                fs.append(f)
            if not fs:
                return None
            t["fields"] += fs
            frag["oneof"] = False
            frag["fields"] = copy.deepcopy(fs)
        elif k == "union":
            objs = [x["name"] for x in comb["types"] if x["kind"] == "object" and x["name"] not in t["members"]]
            if not objs:
                return None
            ms = rng.sample(objs, rng.randint(1, min(2, len(objs))))
            t["members"] += ms
            frag["members"] = ms
        else:
            # object / interface: new fields and/or new interfaces (with the fields they require)
            have = {f["name"] for f in t["fields"]}
            fs = []
            new_ifaces = []
            if rng.random() < 0.4:
                ifs = [x["name"] for x in comb["types"] if x["kind"] == "interface" and x["name"] != t["name"] and x["name"] not in t["interfaces"]]
                # an interface may only implement interfaces that do not (transitively) implement it
                ifs = [i for i in ifs if t["name"] not in iface_closure(tmap, [i])]
                # implementers of an interface would have to follow: only extend objects, or interfaces nobody implements
                implemented = any(t["name"] in x.get("interfaces", []) for x in comb["types"])
                if ifs and not (k == "interface" and implemented):
                    want = iface_closure(tmap, [rng.choice(ifs)])
                    new_ifaces = [i for i in want if i not in t["interfaces"]]
                    ok = True
                    for i in new_ifaces:
                        for f in tmap[i]["fields"]:
                            if f["name"] in have:
                                ok = False  # an existing field may not satisfy the interface
                            elif f["name"] not in {x["name"] for x in fs}:
                                fs.append(copy.deepcopy(f))
                            else:
                                # two new interfaces with the same field: keep the later (more derived) one
                                fs = [x for x in fs if x["name"] != f["name"]] + [copy.deepcopy(f)]
                    if not ok:
                        new_ifaces, fs = [], []
                    else:
                        # a field required by several interfaces: take the most derived version
                        pass
            implemented = k == "interface" and any(t["name"] in x.get("interfaces", []) for x in comb["types"])
            if not implemented:
                for _ in range(rng.randint(0 if new_ifaces else 1, 2)):
                    f = new_field(have | {x["name"] for x in fs})
                    if f:
                        fs.append(f)
            if not fs and not new_ifaces:
                return None
            t["fields"] += fs
            t["interfaces"] += new_ifaces
            frag["interfaces"] = new_ifaces
            frag["fields"] = copy.deepcopy(fs)
        return frag

    n_ops = rng.randint(1, 6)
    # new types first decided (so other items may reference them), but placed anywhere in the document
    for _ in range(n_ops):
        r = rng.random()
        if r < 0.15:
            # new enum / scalar / input / object / union
            k = rng.choice(["enum", "scalar", "input", "object", "union", "interface"])
            n = g.fresh(["N", "New", "n_"])
            if k == "enum":
                t = {"kind": "enum", "name": n, "desc": adv(rng), "values": [{"name": v, "desc": adv(rng, 0.7), "depr": adv_depr(rng)} for v in g.member_names(["V", "NV"], rng.randint(1, 3))]}
            elif k == "scalar":
                t = {"kind": "scalar", "name": n, "desc": adv(rng), "spec": rng.choice([None, "https://x.example/s"])}
            elif k == "input":
                g.kinds[n] = "input"
                fs = [g.arg(a, [x for x in input_names()], allow_required=True) for a in g.member_names(["a", "in"], rng.randint(1, 3))]
                for a in fs:
                    a.pop("py", None)
                t = {"kind": "input", "name": n, "desc": adv(rng), "oneof": False, "fields": fs}
            elif k in ("object", "interface"):
                fs = []
                have = set()
                for _ in range(rng.randint(1, 3)):
                    f = new_field(have)
                    if f:
                        have.add(f["name"])
                        fs.append(f)
                t = {"kind": k, "name": n, "desc": adv(rng), "interfaces": [], "fields": fs}
            else:
                objs = [x["name"] for x in comb["types"] if x["kind"] == "object"]
                t = {"kind": "union", "name": n, "desc": adv(rng), "members": rng.sample(objs, rng.randint(1, min(2, len(objs))))}
            g.kinds[n] = t["kind"]
            g.types[n] = t
            comb["types"].append(t)
            tmap[n] = t
            items.append(("type", copy.deepcopy(t)))
        elif r < 0.25:
            n = g.fresh(["nd", "xd"])
            d = {
                "name": n, "desc": adv(rng), "args": [g.arg(a, input_names()) for a in g.member_names(["a", "p_"], rng.choice([0, 1, 2]))],
                "repeatable": rng.random() < 0.4, "locations": rng.sample(LOCATIONS, rng.randint(1, 4)), "depr": adv_depr(rng, 0.7),
            }
            for a in d["args"]:
                a.pop("py", None)
            comb["directives"].append(d)
            items.append(("directive", copy.deepcopy(d)))
        elif r < 0.32:
            free = [op for op in ("mutation", "subscription") if comb[op] is None]
            objs = [x["name"] for x in comb["types"] if x["kind"] == "object" and x["name"] not in (comb["query"], comb["mutation"], comb["subscription"])]
            conv = {"mutation": "Mutation", "subscription": "Subscription"}
            if free and objs:
                op = rng.choice(free)
                cands = [o for o in objs if explicit_schema_block or o not in ("Query", "Mutation", "Subscription") or o == conv[op]]
                # without a schema block in A, a type called e.g. `Mutation` is the mutation root already
                if not explicit_schema_block and conv[op] in tmap:
                    continue
                if cands:
                    comb[op] = rng.choice(cands)
                    items.append(("xschema", {op: comb[op]}))
        elif r < 0.38:
            cands = [d for d in comb["directives"] if d["depr"] is None and d["name"] in {x["name"] for x in base["directives"]}]
            if cands:
                d = rng.choice(cands)
                d["depr"] = rng.choice(ADVERSARIAL + ["No longer supported"])
                items.append(("xdirective", d["name"], d["depr"]))
        else:
            t = rng.choice(comb["types"])
            frag = content_ext(t)
            if frag:
                items.append(("xtype", frag))
    # --- several extensions of the same type in one document, each contributing another aspect
    helper = []

    def applied():
        """An application of a repeatable helper directive that B itself defines."""
        if not helper:
            h = {
                "name": g.fresh(["xtag", "xt"]), "desc": None,
                "args": [{"name": "name", "desc": None, "type": ["named", "String"], "default": None, "depr": None}],
                "repeatable": True,
                "locations": ["SCALAR", "OBJECT", "INTERFACE", "UNION", "ENUM", "INPUT_OBJECT", "SCHEMA", "DIRECTIVE_DEFINITION"],
                "depr": None,
            }
            helper.append(h)
            comb["directives"].append(h)
            items.append(("directive", copy.deepcopy(h)))
        s = " @" + helper[0]["name"]
        if rng.random() < 0.5:
            s += "(name: " + q(rng.choice(["a", "time", "", "x y"])) + ")"
        if rng.random() < 0.15:
            s += " @" + helper[0]["name"]
        return s

    for _ in range(rng.choice([1, 2, 2, 3])):
        cands = comb["types"]
        if rng.random() < 0.4:
            cands = [t for t in comb["types"] if t["kind"] == "scalar"] or cands
        t = rng.choice(cands)
        for _k in range(rng.choice([2, 3, 3])):
            if rng.random() < 0.4:
                frag = {"kind": t["kind"], "name": t["name"], "desc": None, "applied": applied()}
            else:
                frag = content_ext(t)
                if frag and rng.random() < 0.3:
                    frag["applied"] = applied()
            if frag:
                items.append(("xtype", frag))
    if rng.random() < 0.35:
        items.append(("xschema", {}, applied()))
    base_dirs = [d["name"] for d in base["directives"]]
    if base_dirs and rng.random() < 0.35:
        for _k in range(rng.choice([1, 2])):
            items.append(("xdirective", rng.choice(base_dirs), None, applied()))
    # extensions of the *specified* directives (shared global objects in every schema); they are
    # outside the printed content, so the expected content does not change
    if rng.random() < 0.45:
        deprecated_once = set()
        for _k in range(rng.choice([1, 2, 3])):
            n = rng.choice(specified_directive_names())
            if rng.random() < 0.5 and n not in deprecated_once:
                deprecated_once.add(n)
                items.append(("xdirective", n, rng.choice(ADVERSARIAL + ["No longer supported"]), ""))
            else:
                items.append(("xdirective", n, None, applied()))
    # extensions of built-in scalars: accepted against a schema, but `A + B` alone is not a valid
    # document then ("Cannot extend type 'String' because it is not defined"), see has_builtin_ext
    if rng.random() < 0.15:
        for _k in range(rng.choice([1, 2])):
            # only scalars the type map of build(A) contains can be extended
            present = ["String", "Boolean"] + sorted(
                {named_of(a["type"]) for a in all_args_of(base["types"], base["directives"])}
                | {named_of(f["type"]) for t in base["types"] if t["kind"] in ("object", "interface") for f in t["fields"]}
            )
            items.append(("xbuiltin", rng.choice([n for n in present if n in STD_SCALARS]), applied()))
    # document order: any order; the combined content follows document order, so recompute it
    rng.shuffle(items)
    comb = apply_items(base, items)
    return items, comb


def specified_directive_names():
    from graphql.type import specified_directives

    return [d.name for d in specified_directives]


def has_builtin_ext(items):
    return any(it[0] == "xbuiltin" for it in items)


def apply_items(base, items):
    comb = copy.deepcopy(base)
    tmap = type_index(comb)
    # new types / directives in document order; extensions per type in document order
    for it in items:
        if it[0] == "type":
            t = copy.deepcopy(it[1])
            comb["types"].append(t)
            tmap[t["name"]] = t
        elif it[0] == "directive":
            comb["directives"].append(copy.deepcopy(it[1]))
    for it in items:
        if it[0] == "xtype":
            frag = it[1]
            t = tmap[frag["name"]]
            k = t["kind"]
            if k == "scalar":
                if frag.get("spec") is not None:
                    t["spec"] = frag["spec"]
            elif k == "enum":
                t["values"] += copy.deepcopy(frag.get("values", []))
            elif k == "input":
                t["fields"] += copy.deepcopy(frag.get("fields", []))
            elif k == "union":
                t["members"] += frag.get("members", [])
            else:
                t["fields"] += copy.deepcopy(frag.get("fields", []))
                t["interfaces"] += frag.get("interfaces", [])
        elif it[0] == "xschema":
            comb.update(it[1])
        elif it[0] == "xdirective":
            for d in comb["directives"]:
                if d["name"] == it[1] and d["depr"] is None and it[2] is not None:
                    d["depr"] = it[2]
    return comb


def items_to_sdl(items, rng):
    out = []
    for it in items:
        if it[0] == "type":
            out.append(sdl_type(it[1], rng))
        elif it[0] == "directive":
            out.append(sdl_directive(it[1], rng))
        elif it[0] == "xschema":
            ap = it[2] if len(it) > 2 else ""
            ops = (" {\n" + "\n".join(f"  {op}: {n}" for op, n in it[1].items()) + "\n}") if it[1] else ""
            out.append("extend schema" + ap + ops)
        elif it[0] == "xbuiltin":
            out.append(f"extend scalar {it[1]}{it[2]}")
        elif it[0] == "xdirective":
            out.append(f"extend directive @{it[1]}{sdl_depr(it[2], rng)}{it[3] if len(it) > 3 else ''}")
        else:
            frag = dict(it[1])
            frag.setdefault("interfaces", [])
            frag.setdefault("fields", [])
            frag.setdefault("members", [])
            frag.setdefault("values", [])
            frag.setdefault("spec", None)
            out.append(sdl_type(frag, rng, ext=True))
    return "\n\n".join(out) + "\n"


# ----------------------------------------------------------------------------- C19: single-edit mutants


MUTATION_KINDS = None  # filled below


def gen_mutant(rng, ir, forced_kind=None):
    """(mutant IR, label) — one edit of the schema content; None if the chosen edit does not apply."""
    m = strip_py(ir)
    types = m["types"]
    g = Gen(rng)
    for t in types:
        g.kinds[t["name"]] = t["kind"]
        g.types[t["name"]] = t
    input_names = STD_SCALARS + [t["name"] for t in types if t["kind"] in ("scalar", "enum", "input")]
    kind = forced_kind or rng.choice([
        "type-desc", "field-desc", "arg-desc", "enumval-desc", "dir-desc", "dirarg-desc", "inputfield-desc",
        "field-remove", "field-add", "field-type", "arg-remove", "arg-add-opt", "arg-add-req", "arg-type", "arg-default",
        "enumval-add", "enumval-remove", "union-add", "union-remove", "iface-remove", "input-add-opt", "input-add-req",
        "input-remove", "input-type", "input-default", "dir-remove", "dir-add", "dir-repeatable", "dir-loc-add",
        "dir-loc-remove", "dirarg-add", "dirarg-remove", "dirarg-default", "dirarg-type", "type-remove", "type-add",
        "type-kind", "depr-field", "depr-arg", "depr-enum", "spec", "oneof", "field-reorder", "schema-desc", "std-scalar",
    ])

    def pick(xs):
        return rng.choice(xs) if xs else None

    def tweak_desc(x):
        old = x["desc"]
        for _ in range(20):
            new = adv(rng, 0.3)
            if new != old:
                x["desc"] = new
                return True
        return False

    def tweak_type(t):
        r = rng.random()
        if r < 0.3:
            return t[1] if t[0] == "nn" else ["nn", t]
        if r < 0.5:
            return ["list", t] if t[0] != "list" else t[1]
        if r < 0.7 and t[0] == "named":
            others = [n for n in STD_SCALARS if n != t[1]]
            return ["named", rng.choice(others)]
        return ["nn", ["list", t]] if t[0] != "nn" else ["list", t]

    objs = [t for t in types if t["kind"] in ("object", "interface")]
    fields = [(t, f) for t in objs for f in t["fields"]]
    fargs = [(t, f, a) for t, f in fields for a in f["args"]]
    enums = [t for t in types if t["kind"] == "enum"]
    unions = [t for t in types if t["kind"] == "union"]
    inputs = [t for t in types if t["kind"] == "input"]
    dirs = m["directives"]
    dargs = [(d, a) for d in dirs for a in d["args"]]
    ok = False
    if kind == "type-desc":
        ok = tweak_desc(rng.choice(types))
    elif kind == "field-desc" and fields:
        ok = tweak_desc(pick(fields)[1])
    elif kind == "arg-desc" and fargs:
        ok = tweak_desc(pick(fargs)[2])
    elif kind == "enumval-desc" and enums:
        ok = tweak_desc(pick(pick(enums)["values"]))
    elif kind == "dir-desc" and dirs:
        ok = tweak_desc(pick(dirs))
    elif kind == "dirarg-desc" and dargs:
        ok = tweak_desc(pick(dargs)[1])
    elif kind == "inputfield-desc" and inputs:
        ok = tweak_desc(pick(pick(inputs)["fields"]))
    elif kind == "field-remove" and fields:
        t, f = pick(fields)
        if len(t["fields"]) > 1:
            t["fields"].remove(f)
            ok = True
    elif kind == "field-add" and objs:
        t = pick(objs)
        t["fields"].insert(rng.randint(0, len(t["fields"])), {"name": "zz9new", "desc": None, "args": [], "type": ["named", "Int"], "depr": None})
        ok = True
    elif kind == "field-type" and fields:
        f = pick(fields)[1]
        f["type"] = tweak_type(f["type"])
        ok = True
    elif kind == "arg-remove" and fargs:
        t, f, a = pick(fargs)
        f["args"].remove(a)
        ok = True
    elif kind in ("arg-add-opt", "arg-add-req") and fields:
        f = pick(fields)[1]
        ty = ["named", "Int"] if kind == "arg-add-opt" else ["nn", ["named", "Int"]]
        f["args"].insert(rng.randint(0, len(f["args"])), {"name": "zz9arg", "desc": None, "type": ty, "default": None, "depr": None})
        ok = True
    elif kind == "arg-type" and fargs:
        a = pick(fargs)[2]
        a["type"] = tweak_type(a["type"])
        a["default"] = None if rng.random() < 0.5 else a["default"]
        ok = True
    elif kind in ("arg-default", "dirarg-default", "input-default"):
        pool = {"arg-default": [x[2] for x in fargs], "dirarg-default": [x[1] for x in dargs], "input-default": [a for t in inputs if not t["oneof"] for a in t["fields"]]}[kind]
        a = pick(pool)
        if a:
            r = rng.random()
            if a["default"] is not None and r < 0.3:
                a["default"] = None
                ok = True
            elif a["default"] is not None and a["default"][0] == "obj" and len(a["default"][1]) > 1 and r < 0.6:
                a["default"][1].reverse()  # reordering object fields: no change reported, text differs
                ok = True
            else:
                try:
                    lit, _ = g.value_for(a["type"])
                except Exception:  # noqa: BLE001
                    lit = None
                if lit is not None and lit != a["default"]:
                    a["default"] = lit
                    a["depr"] = a["depr"] if a["type"][0] != "nn" else a["depr"]
                    ok = True
    elif kind == "enumval-add" and enums:
        pick(enums)["values"].append({"name": "ZZ9", "desc": None, "depr": None})
        ok = True
    elif kind == "enumval-remove" and enums:
        e = pick(enums)
        if len(e["values"]) > 1:
            e["values"].pop(rng.randrange(len(e["values"])))
            ok = True
    elif kind == "union-add" and unions:
        u = pick(unions)
        c = [t["name"] for t in types if t["kind"] == "object" and t["name"] not in u["members"]]
        if c:
            u["members"].insert(rng.randint(0, len(u["members"])), rng.choice(c))
            ok = True
    elif kind == "union-remove" and unions:
        u = pick(unions)
        if len(u["members"]) > 1:
            u["members"].pop(rng.randrange(len(u["members"])))
            ok = True
    elif kind == "iface-remove" and objs:
        c = [t for t in objs if t["interfaces"]]
        if c:
            t = pick(c)
            t["interfaces"].pop(rng.randrange(len(t["interfaces"])))
            ok = True
    elif kind in ("input-add-opt", "input-add-req") and inputs:
        t = pick([t for t in inputs if not t["oneof"]] or [None])
        if t:
            ty = ["named", "Int"] if kind == "input-add-opt" else ["nn", ["named", "Int"]]
            t["fields"].append({"name": "zz9in", "desc": None, "type": ty, "default": None, "depr": None})
            ok = True
    elif kind == "input-remove" and inputs:
        t = pick(inputs)
        if len(t["fields"]) > 1:
            t["fields"].pop(rng.randrange(len(t["fields"])))
            ok = True
    elif kind == "input-type" and inputs:
        a = pick(pick(inputs)["fields"])
        a["type"] = tweak_type(a["type"])
        a["default"] = None
        ok = True
    elif kind == "dir-remove" and dirs:
        dirs.pop(rng.randrange(len(dirs)))
        ok = True
    elif kind == "dir-add":
        dirs.insert(rng.randint(0, len(dirs)), {"name": "zz9dir", "desc": None, "args": [], "repeatable": False, "locations": ["FIELD"], "depr": None})
        ok = True
    elif kind == "dir-repeatable" and dirs:
        d = pick(dirs)
        d["repeatable"] = not d["repeatable"]
        ok = True
    elif kind == "dir-loc-add" and dirs:
        d = pick(dirs)
        c = [x for x in LOCATIONS if x not in d["locations"]]
        if c:
            d["locations"].insert(rng.randint(0, len(d["locations"])), rng.choice(c))
            ok = True
    elif kind == "dir-loc-remove" and dirs:
        d = pick(dirs)
        if len(d["locations"]) > 1:
            d["locations"].pop(rng.randrange(len(d["locations"])))
            ok = True
    elif kind == "dirarg-add" and dirs:
        d = pick(dirs)
        ty = rng.choice([["named", "Int"], ["nn", ["named", "Int"]]])
        d["args"].append({"name": "zz9darg", "desc": None, "type": ty, "default": None, "depr": None})
        ok = True
    elif kind == "dirarg-remove" and dargs:
        d, a = pick(dargs)
        d["args"].remove(a)
        ok = True
    elif kind == "dirarg-type" and dargs:
        a = pick(dargs)[1]
        a["type"] = tweak_type(a["type"])
        a["default"] = None if rng.random() < 0.5 else a["default"]
        ok = True
    elif kind == "type-remove":
        # a type nothing refers to can go; otherwise the SDL no longer builds (mutant skipped by the caller)
        t = pick(types)
        types.remove(t)
        ok = True
    elif kind == "type-add":
        types.insert(rng.randint(0, len(types)), {"kind": "scalar", "name": "Zz9New", "desc": None, "spec": None})
        ok = True
    elif kind == "type-kind":
        c = [t for t in types if t["kind"] in ("scalar", "enum")]
        if c:
            t = pick(c)
            i = types.index(t)
            if t["kind"] == "scalar":
                types[i] = {"kind": "enum", "name": t["name"], "desc": t["desc"], "values": [{"name": "K1", "desc": None, "depr": None}]}
            else:
                types[i] = {"kind": "scalar", "name": t["name"], "desc": t["desc"], "spec": None}
            ok = True
    elif kind == "depr-field" and fields:
        f = pick(fields)[1]
        f["depr"] = None if f["depr"] is not None else "gone"
        ok = True
    elif kind == "depr-arg" and fargs:
        a = pick(fargs)[2]
        if not (a["type"][0] == "nn" and a["default"] is None):
            a["depr"] = None if a["depr"] is not None else "gone"
            ok = True
    elif kind == "depr-enum" and enums:
        v = pick(pick(enums)["values"])
        v["depr"] = None if v["depr"] is not None else "No longer supported"
        ok = True
    elif kind == "spec":
        c = [t for t in types if t["kind"] == "scalar"]
        if c:
            t = pick(c)
            t["spec"] = None if t["spec"] is not None else "https://changed.example"
            ok = True
    elif kind == "oneof" and inputs:
        t = pick(inputs)
        t["oneof"] = not t["oneof"]
        ok = True
    elif kind == "field-reorder" and objs:
        t = pick(objs)
        if len(t["fields"]) > 1:
            t["fields"].reverse()
            ok = True
    elif kind == "schema-desc":
        old = m["desc"]
        m["desc"] = "changed schema description" if old is None else None
        ok = True
    elif kind == "std-scalar" and fields:
        # make a specified scalar appear in / disappear from the type map
        f = pick(fields)[1]
        f["type"] = ["named", rng.choice(["Float", "ID", "Int"])]
        ok = True
    return (m, kind) if ok else None


MUTATION_KINDS = ['type-desc', 'field-desc', 'arg-desc', 'enumval-desc', 'dir-desc', 'dirarg-desc', 'inputfield-desc', 'field-remove', 'field-add', 'field-type', 'arg-remove', 'arg-add-opt', 'arg-add-req', 'arg-type', 'arg-default', 'enumval-add', 'enumval-remove', 'union-add', 'union-remove', 'iface-remove', 'input-add-opt', 'input-add-req', 'input-remove', 'input-type', 'input-default', 'dir-remove', 'dir-add', 'dir-repeatable', 'dir-loc-add', 'dir-loc-remove', 'dirarg-add', 'dirarg-remove', 'dirarg-default', 'dirarg-type', 'type-remove', 'type-add', 'type-kind', 'depr-field', 'depr-arg', 'depr-enum', 'spec', 'oneof', 'field-reorder', 'schema-desc', 'std-scalar']
