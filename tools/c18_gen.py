"""C18 helper: type-directed generator of valid schemas (as plain-data *specs*), two ways of turning a
spec into a GraphQLSchema (SDL text -> build_schema, programmatic assembly), and the serialisation
of a GraphQLSchema's introspection-relevant content for the Lean model (read from the Python objects'
attributes, never through the introspection resolvers).

A spec is JSON-serialisable so that a failing case replays from the replay file alone.
"""
from __future__ import annotations

BUILTIN_SCALARS = ["Int", "Float", "String", "Boolean", "ID"]

TYPE_NAMES = [
    "Q", "Query", "M", "Mutation", "Sub", "Subscription", "Node", "Named", "Entity", "Animal", "Dog", "Cat",
    "Pet", "Color", "Size", "Filter", "Point", "Choice", "Url", "Date", "JSON", "on", "type", "input", "_x",
    "A1", "B_2", "Thing", "Other", "Result", "Edge", "Conn", "Mode", "Key", "Opt", "Rec", "fragment", "T0",
]
FIELD_NAMES = [
    "id", "name", "type", "input", "query", "on", "a", "b", "c", "x", "y", "z", "_u", "f1", "value", "items",
    "next", "self", "fragment", "null_", "kind", "of", "url", "when", "where", "first", "after",
]
ENUM_VALUE_NAMES = ["A", "B", "C", "RED", "GREEN", "on", "type", "x1", "_V", "LARGE", "small", "Null", "TRUE"]
DIRECTIVE_NAMES = ["rep", "auth", "cache", "tag", "old", "on", "type", "x_1"]

DESCRIPTIONS = [
    None, None, None, "plain", "", " ", "  leading and trailing  ", "line1\nline2", "\nstarts with newline",
    "ends with newline\n", 'has "quotes"', 'has """triple""" quotes', "back\\slash", "tab\there", "unicode é中",
    "emoji \U0001f600", "sep arator", "nel\x85x", "ff\x0cx", "ctrl\x01\x1f", "cr\rlf\r\nx", "trailing backslash\\",
    '"', '\\"""', "    indented\n  less\n      more", "#not a comment", "a" * 130, "null", "{}", "﻿bom",
]
SURROGATE_DESCRIPTIONS = ["lone \ud800 high", "\udfff low", "\ud83d pair-half \ude00"]
DEPRECATIONS = ["No longer supported", "", "use other", 'reason "q"', "multi\nline", " ", "ü ", "x" * 90]
STRING_LITERALS = [
    '""', '"a"', '"q\\"\\n"', '"\\\\"', '"\\u00e9\\t"', '"中\U0001f600"', '"""block"""', '"""a\n  b"""', '" sp "',
    '"#"', '"\\u0001"', '"null"', '"\\b\\f\\r"', '"/"', '"""q\\"""x"""',
]
INT_LITERALS = ["0", "-1", "42", "2147483647", "-2147483648", "7"]
FLOAT_LITERALS = ["1.5", "-0.0", "1e10", "3", "6.02E23", "0.1", "-2.5e-3", "1E+2", "100000000000000000000000"]
DIRECTIVE_LOCATIONS = [
    "QUERY", "MUTATION", "SUBSCRIPTION", "FIELD", "FRAGMENT_DEFINITION", "FRAGMENT_SPREAD", "INLINE_FRAGMENT",
    "VARIABLE_DEFINITION", "SCHEMA", "SCALAR", "OBJECT", "FIELD_DEFINITION", "ARGUMENT_DEFINITION", "INTERFACE",
    "UNION", "ENUM", "ENUM_VALUE", "INPUT_OBJECT", "INPUT_FIELD_DEFINITION", "DIRECTIVE_DEFINITION",
]
MAX_WRAP = 9  # = default type_depth of the standard query (T1-extracted on the Lean side)


# ----------------------------------------------------------------------------- generator


class Gen:
    def __init__(self, rng, prog: bool):
        self.rng = rng
        self.prog = prog  # programmatic specs may carry strings SDL cannot
        self.kinds = {n: "SCALAR" for n in BUILTIN_SCALARS}
        self.enum_values = {}
        self.input_fields = {}
        self.one_of = set()

    def desc(self):
        r = self.rng
        if r.random() < 0.45:
            return None
        if self.prog and r.random() < 0.06:
            return r.choice(SURROGATE_DESCRIPTIONS)
        return r.choice(DESCRIPTIONS)

    def dep(self, p=0.25):
        r = self.rng
        if r.random() >= p:
            return None
        return r.choice(DEPRECATIONS)

    def wrap(self, base, allow_nonnull_outer=True):
        r = self.rng
        x = r.random()
        if x < 0.5:
            n = 0
        elif x < 0.9:
            n = r.randint(1, 2)
        elif x < 0.97:
            n = r.randint(3, 6)
        else:
            n = MAX_WRAP
        t = base
        last_nn = False
        for i in range(n):
            outer = i == n - 1
            if not last_nn and r.random() < 0.45 and (allow_nonnull_outer or not outer):
                t = t + "!"
                last_nn = True
            else:
                t = "[" + t + "]"
                last_nn = False
        return t

    def input_named(self, allow_input_objects=True):
        names = [n for n, k in self.kinds.items() if k in ("SCALAR", "ENUM") or (k == "INPUT_OBJECT" and allow_input_objects)]
        return self.rng.choice(names)

    def output_named(self):
        names = [n for n, k in self.kinds.items() if k != "INPUT_OBJECT"]
        return self.rng.choice(names)

    # ---- literals by type (type given as SDL type string)
    def literal(self, t, depth=0):
        r = self.rng
        if t.endswith("!"):
            return self.literal_nn(t[:-1], depth)
        if r.random() < 0.12 or depth > 3:
            return "null"
        return self.literal_nn(t, depth)

    def literal_nn(self, t, depth):
        r = self.rng
        if t.startswith("["):
            inner = t[1:-1]
            if r.random() < 0.15 and not inner.startswith("["):
                return self.literal_nn(inner.rstrip("!"), depth + 1)
            k = r.choice([0, 1, 1, 2, 3]) if depth < 3 else 0
            return "[" + ", ".join(self.literal(inner, depth + 1) for _ in range(k)) + "]"
        kind = self.kinds[t]
        if t == "Int":
            return r.choice(INT_LITERALS)
        if t == "Float":
            return r.choice(FLOAT_LITERALS)
        if t == "String":
            return r.choice(STRING_LITERALS)
        if t == "Boolean":
            return r.choice(["true", "false"])
        if t == "ID":
            return r.choice(['"abc"', "123", '""', '"1"'])
        if kind == "ENUM":
            return r.choice(self.enum_values[t])
        if kind == "SCALAR":
            return r.choice(["1", '"s"', "true", "ENUMISH", "[1, [2], {a: null}]", "{a: 1, b: {c: [true, 1.5]}}", "{}", "[]", "-1.25e3"])
        # input object
        fields = self.input_fields[t]
        if t in self.one_of:
            cands = fields
            if depth > 3:
                # do not recurse for ever through OneOf objects that refer to each other
                leafy = [f for f in fields if self.kinds.get(f["type"].strip("[]!")) != "INPUT_OBJECT"]
                if leafy:
                    cands = leafy
                elif depth > 12:
                    return "{}"  # uninhabitable OneOf cycle: yields an invalid default, filtered by validate_schema
            f = r.choice(cands)
            return "{" + f["name"] + ": " + self.literal_nn(f["type"].rstrip("!") if f["type"].endswith("!") else f["type"], depth + 1) + "}"
        parts = []
        for f in fields:
            required = f["type"].endswith("!") and f["default"] is None
            if required or r.random() < 0.5:
                parts.append(f["name"] + ": " + self.literal(f["type"], depth + 1))
        r.shuffle(parts)
        return "{" + ", ".join(parts) + "}"

    def input_value(self, name, allow_default=True, force_nullable=False, allow_input_objects=True, self_type=None):
        r = self.rng
        base = self.input_named(allow_input_objects)
        is_io = self.kinds[base] == "INPUT_OBJECT"
        # references to input objects are nullable or list-wrapped: no required cycles
        t = self.wrap(base, allow_nonnull_outer=not force_nullable)
        if is_io and t == base + "!":
            t = base
        default = None
        if allow_default and r.random() < 0.5 and not (is_io and base == self_type):
            default = self.literal(t)
        dep = None
        if not t.endswith("!") or default is not None:
            dep = self.dep(0.3)
        iv = {"name": name, "description": self.desc(), "type": t, "default": default, "dep": dep}
        if self.prog and default is not None:
            # the deprecated `default_value=` (internal value printed by ast_from_value) is not validated by
            # validate_schema and cannot print composite custom-scalar values: used for built-in leaf types only
            legacy_ok = base in BUILTIN_SCALARS or self.kinds[base] == "ENUM"
            iv["default_mode"] = r.choice(["literal", "literal", "value", "legacy" if legacy_ok else "value"])
        return iv

    def args(self, lo=0, hi=3):
        r = self.rng
        n = r.choice([0, 0, 1, 2, 3][lo:]) if hi >= 3 else r.randint(lo, hi)
        names = r.sample(FIELD_NAMES, n)
        return [self.input_value(nm) for nm in names]

    def field(self, name):
        return {
            "name": name,
            "description": self.desc(),
            "type": self.wrap(self.output_named()),
            "args": self.args(),
            "dep": self.dep(0.2),
        }

    def spec(self):
        r = self.rng
        names = r.sample(TYPE_NAMES, len(TYPE_NAMES))
        pop = names.pop
        n_scalar, n_enum, n_input = r.randint(0, 2), r.randint(0, 3), r.randint(0, 3)
        n_iface, n_obj, n_union = r.randint(0, 3), r.randint(1, 4), r.randint(0, 2)
        types = []
        for _ in range(n_scalar):
            nm = pop()
            self.kinds[nm] = "SCALAR"
            types.append({"kind": "SCALAR", "name": nm, "description": self.desc(),
                          "url": r.choice([None, None, "https://example.com/spec", "", 'x"y\\z\n'])})
        for _ in range(n_enum):
            nm = pop()
            self.kinds[nm] = "ENUM"
            vals = r.sample(ENUM_VALUE_NAMES, r.randint(1, 4))
            self.enum_values[nm] = vals
            types.append({"kind": "ENUM", "name": nm, "description": self.desc(),
                          "values": [{"name": v, "description": self.desc(), "dep": self.dep(0.3)} for v in vals]})
        # input objects: declare names first so they may refer to each other (and to themselves)
        io_names = [pop() for _ in range(n_input)]
        for nm in io_names:
            self.kinds[nm] = "INPUT_OBJECT"
            self.input_fields[nm] = []
        for nm in io_names:
            one_of = r.random() < 0.3
            fnames = r.sample(FIELD_NAMES, r.randint(1, 4))
            fields = []
            for fn in fnames:
                # defaults may only mention input objects that are already complete
                done = [n for n in io_names if self.input_fields[n] and n != nm]
                iv = self.input_value(fn, allow_default=not one_of, force_nullable=one_of, self_type=nm)
                base = iv["type"].replace("[", "").replace("]", "").replace("!", "")
                if iv["default"] is not None and self.kinds[base] == "INPUT_OBJECT" and base not in done:
                    iv["default"] = r.choice([None, "null"]) if not iv["type"].endswith("!") else None
                    if iv["default"] is None:
                        iv.pop("default_mode", None)
                        if iv["type"].endswith("!"):
                            iv["dep"] = None
                if one_of:
                    iv["dep"] = iv["dep"] if r.random() < 0.5 else None
                fields.append(iv)
            if one_of:
                self.one_of.add(nm)
            self.input_fields[nm] = fields
            types.append({"kind": "INPUT_OBJECT", "name": nm, "description": self.desc(), "oneOf": one_of, "fields": fields})
        # output types: names first
        if_names = [pop() for _ in range(n_iface)]
        obj_names = [pop() for _ in range(n_obj)]
        un_names = [pop() for _ in range(n_union)]
        for nm in if_names:
            self.kinds[nm] = "INTERFACE"
        for nm in obj_names:
            self.kinds[nm] = "OBJECT"
        for nm in un_names:
            self.kinds[nm] = "UNION"
        ifaces = {}

        used_iface_fields = set()

        def implementing(nm, candidates, is_iface):
            chosen = [c for c in candidates if r.random() < 0.5]
            closed = []
            for c in chosen:
                for d in ifaces[c]["interfaces"] + [c]:
                    if d not in closed:
                        closed.append(d)
            # most derived interface first: its version of an inherited field satisfies its ancestors
            by_rank = sorted(closed, key=if_names.index, reverse=True)
            r.shuffle(closed)
            merged = {}
            for c in by_rank:
                for f in ifaces[c]["fields"]:
                    if f["name"] not in merged:
                        merged[f["name"]] = {**f, "args": list(f["args"])}
                    else:
                        g = merged[f["name"]]
                        if f["type"].endswith("!") and not g["type"].endswith("!"):
                            g["type"] = f["type"]
                        have = {a["name"] for a in g["args"]}
                        g["args"] += [a for a in f["args"] if a["name"] not in have]
                        if f["dep"] is None:
                            g["dep"] = None
            fields = []
            seen = set(merged)
            for f in merged.values():
                g = {**f, "args": [dict(a, description=self.desc()) for a in f["args"]], "description": self.desc(),
                     "dep": self.dep(0.6) if f["dep"] is not None else None}
                if not g["type"].endswith("!") and r.random() < 0.25 and g["type"].count("[") + g["type"].count("!") < MAX_WRAP:
                    g["type"] += "!"
                if r.random() < 0.3:
                    have = {a["name"] for a in g["args"]}
                    extra = [n for n in FIELD_NAMES if n not in have]
                    iv = self.input_value(r.choice(extra))
                    if iv["type"].endswith("!") and iv["default"] is None:
                        iv["type"] = iv["type"][:-1]
                    g["args"] = g["args"] + [iv]
                fields.append(g)
            pool = [n for n in FIELD_NAMES if n not in seen and not (is_iface and n in used_iface_fields)]
            own = r.sample(pool, min(len(pool), r.randint(0 if fields else 1, 3)))
            if is_iface:
                used_iface_fields.update(own)
            fields += [self.field(n) for n in own]
            r.shuffle(fields)
            return closed, fields

        out_types = []
        for i, nm in enumerate(if_names):
            closed, fields = implementing(nm, if_names[:i], True)
            ifaces[nm] = {"kind": "INTERFACE", "name": nm, "description": self.desc(), "interfaces": closed, "fields": fields}
            out_types.append(ifaces[nm])
        for nm in obj_names:
            closed, fields = implementing(nm, if_names, False)
            out_types.append({"kind": "OBJECT", "name": nm, "description": self.desc(), "interfaces": closed, "fields": fields})
        for nm in un_names:
            out_types.append({"kind": "UNION", "name": nm, "description": self.desc(),
                              "members": r.sample(obj_names, r.randint(1, len(obj_names)))})
        types += out_types
        r.shuffle(types)
        roots = r.sample(obj_names, min(len(obj_names), r.choice([1, 1, 2, 3])))
        directives = []
        for dn in r.sample(DIRECTIVE_NAMES, r.choice([0, 1, 1, 2, 3])):
            directives.append({
                "name": dn, "description": self.desc(), "repeatable": r.random() < 0.4, "dep": self.dep(0.3),
                "locations": r.sample(DIRECTIVE_LOCATIONS, r.randint(1, 4)), "args": self.args(),
            })
        spec = {
            "description": self.desc(),
            "query": roots[0],
            "mutation": roots[1] if len(roots) > 1 else None,
            "subscription": roots[2] if len(roots) > 2 else None,
            "types": types,
            "directives": directives,
        }
        if self.prog:
            named = [t["name"] for t in types]
            extra = [n for n in BUILTIN_SCALARS if r.random() < 0.2]
            listed = [n for n in named if r.random() < 0.7] + extra
            r.shuffle(listed)
            spec["prog"] = {
                "types": listed,  # what is passed as `types=` (order matters for the type map)
                "all_types": r.random() < 0.6,  # append every remaining named type so none is dropped
                "directives": r.choice(["none", "custom_only", "specified_first", "specified_last"]),
            }
        return spec


def gen_spec(rng, prog: bool):
    return Gen(rng, prog).spec()


# ----------------------------------------------------------------------------- spec -> SDL


def _q(s):
    from graphql.language import StringValueNode, print_ast

    return print_ast(StringValueNode(value=s))


def _d(desc, indent=""):
    return "" if desc is None else indent + _q(desc) + "\n"


def _dep(reason):
    if reason is None:
        return ""
    if reason == "No longer supported":
        return " @deprecated"
    return " @deprecated(reason: " + _q(reason) + ")"


def _iv(iv, indent):
    s = _d(iv["description"], indent) + indent + iv["name"] + ": " + iv["type"]
    if iv["default"] is not None:
        s += " = " + iv["default"]
    return s + _dep(iv["dep"])


def _args(args, indent):
    if not args:
        return ""
    return "(\n" + "\n".join(_iv(a, indent + "  ") for a in args) + "\n" + indent + ")"


def spec_to_sdl(spec):
    out = []
    root_default = spec["query"] == "Query" and spec["mutation"] in (None, "Mutation") and spec["subscription"] in (None, "Subscription")
    if spec["description"] is not None or not root_default:
        s = _d(spec["description"]) + "schema {\n  query: " + spec["query"] + "\n"
        if spec["mutation"]:
            s += "  mutation: " + spec["mutation"] + "\n"
        if spec["subscription"]:
            s += "  subscription: " + spec["subscription"] + "\n"
        out.append(s + "}")
    for d in spec["directives"]:
        out.append(_d(d["description"]) + "directive @" + d["name"] + _args(d["args"], "") + _dep(d["dep"])
                   + (" repeatable" if d["repeatable"] else "") + " on " + " | ".join(d["locations"]))
    for t in spec["types"]:
        k = t["kind"]
        head = _d(t["description"])
        if k == "SCALAR":
            out.append(head + "scalar " + t["name"] + ("" if t["url"] is None else " @specifiedBy(url: " + _q(t["url"]) + ")"))
        elif k == "ENUM":
            out.append(head + "enum " + t["name"] + " {\n" + "\n".join(
                _d(v["description"], "  ") + "  " + v["name"] + _dep(v["dep"]) for v in t["values"]) + "\n}")
        elif k == "INPUT_OBJECT":
            out.append(head + "input " + t["name"] + (" @oneOf" if t["oneOf"] else "") + " {\n"
                       + "\n".join(_iv(f, "  ") for f in t["fields"]) + "\n}")
        elif k == "UNION":
            out.append(head + "union " + t["name"] + " = " + " | ".join(t["members"]))
        else:
            kw = "type" if k == "OBJECT" else "interface"
            impl = (" implements " + " & ".join(t["interfaces"])) if t["interfaces"] else ""
            out.append(head + kw + " " + t["name"] + impl + " {\n" + "\n".join(
                _d(f["description"], "  ") + "  " + f["name"] + _args(f["args"], "  ") + ": " + f["type"] + _dep(f["dep"])
                for f in t["fields"]) + "\n}")
    return "\n\n".join(out) + "\n"


def build_from_sdl(spec):
    from graphql import build_schema

    return build_schema(spec_to_sdl(spec), experimental_directives_on_directive_definitions=True)


# ----------------------------------------------------------------------------- spec -> programmatic schema


def build_programmatic(spec):
    from graphql.language import parse_const_value, parse_type
    from graphql.language.ast import ListTypeNode, NonNullTypeNode
    from graphql.type import (
        GraphQLArgument, GraphQLDefaultInput, GraphQLDirective, GraphQLEnumType, GraphQLEnumValue, GraphQLField,
        GraphQLInputField, GraphQLInputObjectType, GraphQLInterfaceType, GraphQLList, GraphQLNonNull,
        GraphQLObjectType, GraphQLScalarType, GraphQLSchema, GraphQLUnionType, specified_directives,
        specified_scalar_types,
    )
    from graphql.utilities import value_from_ast, value_from_ast_untyped

    tm = dict(specified_scalar_types)

    def ty(s):
        def conv(node):
            if isinstance(node, ListTypeNode):
                return GraphQLList(conv(node.type))
            if isinstance(node, NonNullTypeNode):
                return GraphQLNonNull(conv(node.type))
            return tm[node.name.value]

        return conv(parse_type(s))

    def default_kwargs(iv):
        if iv["default"] is None:
            return {}
        lit = parse_const_value(iv["default"])
        mode = iv.get("default_mode", "literal")
        if mode == "value":
            return {"default": GraphQLDefaultInput(value=value_from_ast_untyped(lit))}
        if mode == "legacy":
            return {"default_value": value_from_ast(lit, ty(iv["type"]))}
        return {"default": GraphQLDefaultInput(literal=lit)}

    def arg(iv):
        return GraphQLArgument(ty(iv["type"]), description=iv["description"], deprecation_reason=iv["dep"], **default_kwargs(iv))

    def infield(iv):
        return GraphQLInputField(ty(iv["type"]), description=iv["description"], deprecation_reason=iv["dep"], **default_kwargs(iv))

    def fields(t):
        return lambda: {
            f["name"]: GraphQLField(ty(f["type"]), args={a["name"]: arg(a) for a in f["args"]},
                                    description=f["description"], deprecation_reason=f["dep"])
            for f in t["fields"]
        }

    for t in spec["types"]:
        k, nm, d = t["kind"], t["name"], t["description"]
        if k == "SCALAR":
            tm[nm] = GraphQLScalarType(nm, description=d, specified_by_url=t["url"])
        elif k == "ENUM":
            tm[nm] = GraphQLEnumType(nm, {v["name"]: GraphQLEnumValue(v["name"], description=v["description"], deprecation_reason=v["dep"]) for v in t["values"]}, description=d)
        elif k == "INPUT_OBJECT":
            tm[nm] = GraphQLInputObjectType(nm, (lambda t=t: {f["name"]: infield(f) for f in t["fields"]}), description=d, is_one_of=t["oneOf"])
        elif k == "UNION":
            tm[nm] = GraphQLUnionType(nm, (lambda t=t: [tm[m] for m in t["members"]]), description=d)
        elif k == "OBJECT":
            tm[nm] = GraphQLObjectType(nm, fields(t), interfaces=(lambda t=t: [tm[i] for i in t["interfaces"]]), description=d)
        else:
            tm[nm] = GraphQLInterfaceType(nm, fields(t), interfaces=(lambda t=t: [tm[i] for i in t["interfaces"]]), description=d)
    custom = [
        GraphQLDirective(d["name"], d["locations"], {a["name"]: arg(a) for a in d["args"]}, d["repeatable"], d["dep"], d["description"])
        for d in spec["directives"]
    ]
    p = spec.get("prog") or {"types": [], "all_types": True, "directives": "specified_first"}
    listed = list(p["types"])
    if p["all_types"]:
        listed += [t["name"] for t in spec["types"] if t["name"] not in listed]
    dirs = {
        "none": None if not custom else list(specified_directives) + custom,
        "custom_only": custom,
        "specified_first": list(specified_directives) + custom,
        "specified_last": custom + list(specified_directives),
    }[p["directives"]]
    return GraphQLSchema(
        query=tm[spec["query"]],
        mutation=tm[spec["mutation"]] if spec["mutation"] else None,
        subscription=tm[spec["subscription"]] if spec["subscription"] else None,
        types=[tm[n] for n in listed] or None,
        directives=dirs,
        description=spec["description"],
    )


def build(spec, mode):
    return build_programmatic(spec) if mode == "prog" else build_from_sdl(spec)


# ----------------------------------------------------------------------------- wire format


def w_str(s):
    return "S %d" % len(s) + "".join(" %d" % ord(c) for c in s)


def w_opt(s):
    return "N" if s is None else w_str(s)


def w_bool(b):
    return "T" if b else "F"


def w_list(items):
    items = list(items)
    return " ".join(["L %d" % len(items)] + items)


KIND_OF_CLASS = None


def _kind(t):
    from graphql.type import (
        GraphQLEnumType, GraphQLInputObjectType, GraphQLInterfaceType, GraphQLObjectType, GraphQLScalarType,
        GraphQLUnionType,
    )

    for cls, k in ((GraphQLScalarType, "SCALAR"), (GraphQLObjectType, "OBJECT"), (GraphQLInterfaceType, "INTERFACE"),
                   (GraphQLUnionType, "UNION"), (GraphQLEnumType, "ENUM"), (GraphQLInputObjectType, "INPUT_OBJECT")):
        if isinstance(t, cls):
            return k
    raise TypeError(t)


def w_ref(t):
    from graphql.type import GraphQLList, GraphQLNonNull

    if isinstance(t, GraphQLList):
        return "l " + w_ref(t.of_type)
    if isinstance(t, GraphQLNonNull):
        return "b " + w_ref(t.of_type)
    return "n " + w_str(t.name) + " " + _kind(t)


def printed_default(iv):
    """The printed literal of the default value, computed from the object's attributes."""
    from graphql.language import print_ast
    from graphql.utilities.get_default_value_ast import get_default_value_ast

    ast = get_default_value_ast(iv)
    return None if not ast else print_ast(ast)


def w_iv(name, iv):
    return " ".join([w_str(name), w_opt(iv.description), w_ref(iv.type), w_opt(printed_default(iv)), w_opt(iv.deprecation_reason)])


def w_field(name, f):
    return " ".join([w_str(name), w_opt(f.description), w_list(w_iv(n, a) for n, a in f.args.items()), w_ref(f.type), w_opt(f.deprecation_reason)])


def w_type(t):
    k = _kind(t)
    parts = [k, w_str(t.name), w_opt(t.description), w_opt(getattr(t, "specified_by_url", None))]
    if k in ("OBJECT", "INTERFACE"):
        parts.append(w_list(w_field(n, f) for n, f in t.fields.items()))
        parts.append(w_list(w_ref(i) for i in t.interfaces))
    else:
        parts += ["L 0", "L 0"]
    parts.append(w_list(w_ref(m) for m in t.types) if k == "UNION" else "L 0")
    if k == "ENUM":
        parts.append(w_list(" ".join([w_str(n), w_opt(v.description), w_opt(v.deprecation_reason)]) for n, v in t.values.items()))
    else:
        parts.append("L 0")
    if k == "INPUT_OBJECT":
        parts.append(w_list(w_iv(n, f) for n, f in t.fields.items()))
        parts.append(w_bool(t.is_one_of))
    else:
        parts += ["L 0", "F"]
    return " ".join(parts)


def w_directive(d):
    return " ".join([
        w_str(d.name), w_opt(d.description), w_bool(d.is_repeatable), w_opt(d.deprecation_reason),
        w_list(w_str(l.name) for l in d.locations), w_list(w_iv(n, a) for n, a in d.args.items()),
    ])


def w_root(t):
    return "N" if t is None else "R " + w_str(t.name) + " " + _kind(t)


def w_schema(schema):
    return " ".join([
        w_opt(schema.description), w_root(schema.query_type), w_root(schema.mutation_type), w_root(schema.subscription_type),
        w_list(w_type(t) for t in schema.type_map.values()), w_list(w_directive(d) for d in schema.directives),
    ])


def w_reserved():
    from graphql.type import introspection_types, specified_scalar_types

    return w_list(w_type(t) for t in list(specified_scalar_types.values()) + list(introspection_types.values()))


def w_client_env():
    """`<recursion limit> <DirectiveLocation names> <reserved types>` for the `client` operation."""
    from graphql.language import DirectiveLocation

    return "900 " + w_list(w_str(l.name) for l in DirectiveLocation) + " " + w_reserved()


KEYS = [
    "__schema", "description", "queryType", "mutationType", "subscriptionType", "types", "directives", "name", "kind",
    "isRepeatable", "isDeprecated", "deprecationReason", "locations", "args", "specifiedByURL", "isOneOf", "fields",
    "inputFields", "interfaces", "enumValues", "possibleTypes", "type", "defaultValue", "ofType",
]
KEY_IX = {k: i for i, k in enumerate(KEYS)}


def w_json(j):
    if j is None:
        return "n"
    if j is True:
        return "t"
    if j is False:
        return "f"
    if isinstance(j, str):
        return "s %d" % len(j) + "".join(" %d" % ord(c) for c in j)
    if isinstance(j, (list, tuple)):
        return " ".join(["a %d" % len(j)] + [w_json(x) for x in j])
    if isinstance(j, dict):
        parts = ["o %d" % len(j)]
        for k, v in j.items():
            parts.append("k%d" % KEY_IX[k] if k in KEY_IX else "x " + w_str(k)[2:])
            parts.append(w_json(v))
        return " ".join(parts)
    if isinstance(j, int):
        return "i %d" % j
    raise TypeError(f"not wire-encodable: {j!r}")


class _R:
    def __init__(self, words):
        self.w = words
        self.i = 0

    def next(self):
        x = self.w[self.i]
        self.i += 1
        return x

    def string(self):
        n = int(self.next())
        s = "".join(chr(int(c)) for c in self.w[self.i:self.i + n])
        self.i += n
        return s


def _r_json(r):
    t = r.next()
    if t == "n":
        return None
    if t == "t":
        return True
    if t == "f":
        return False
    if t == "s":
        return r.string()
    if t == "i":
        return int(r.next())
    if t == "a":
        return [_r_json(r) for _ in range(int(r.next()))]
    if t == "o":
        d = {}
        for _ in range(int(r.next())):
            k = r.next()
            key = KEYS[int(k[1:])] if k != "x" else r.string()
            d[key] = _r_json(r)
        return d
    raise ValueError(f"bad json wire token {t!r}")


def r_json(line):
    r = _R(line.split())
    j = _r_json(r)
    if r.i != len(r.w):
        raise ValueError("trailing words in json wire line")
    return j
