#!/bin/bash
# usage: seed_eval.sh <seed-name e.g. C04_m1> [tier] [property override]
# Runs ./check <Cxx> against a scratch worktree of /repo HEAD with the seeded patch applied
# (VERIF_REPO), so that /repo itself is never touched while other work is reading it.
S=$1; TIER=${2:-quick}; P=${3:-${S%%_*}}
D=/verif/seeded/$S
W=/tmp/se_$S
git -C /repo worktree remove --force $W 2>/dev/null
git -C /repo worktree add --detach $W HEAD >/dev/null 2>&1 || { echo "worktree failed"; exit 2; }
if ! git -C $W apply $D/patch.diff; then echo "APPLY-FAIL $S"; git -C /repo worktree remove --force $W; exit 2; fi
cd /verif
mkdir -p /tmp/se_evidence /tmp/se_replay; VERIF_EVIDENCE_DIR=/tmp/se_evidence VERIF_REPLAY_DIR=/tmp/se_replay VERIF_REPO=$W timeout 1800 ./check $P --tier $TIER > /tmp/se_$S.log 2>&1; RC=$?
git -C /repo worktree remove --force $W
echo "$S property=$P tier=$TIER exit=$RC $(grep -m1 '^VIOLATION' /tmp/se_$S.log) | $(tail -1 /tmp/se_$S.log)"
