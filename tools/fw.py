"""Shared machinery of the /verif checks (see DESIGN.md §5).

A check is `./check Cxx --tier quick|thorough`.  It
  1. regenerates the T1 tables from /repo's working tree (property module's `extract`),
  2. `lake build`s the property theorems + the compiled model driver, audits axioms,
  3. runs the correspondence (model driver vs implementation) and the property oracles
     (spec through the driver, evaluated on the implementation),
  4. decides: exit 0 / KNOWN-FINDING / VIOLATION (exit 1) / infrastructure failure (exit 2),
  5. rewrites evidence/<id>.json.
"""
from __future__ import annotations

import fcntl
import json
import os
import random
import re
import subprocess
import sys
import time
import traceback
from dataclasses import dataclass, field
from pathlib import Path

VERIF = Path(__file__).resolve().parent.parent
LEAN = VERIF / "lean"
REPO = Path(os.environ.get("VERIF_REPO", "/repo"))
# seed evaluation runs (VERIF_REPO = a mutated worktree) redirect their evidence so that the committed
# evidence always comes from runs against /repo itself
EVIDENCE = Path(os.environ.get("VERIF_EVIDENCE_DIR") or VERIF / "evidence")
REPLAY = Path(os.environ.get("VERIF_REPLAY_DIR") or VERIF / "replay")
ALLOWED_AXIOMS = {"propext", "Classical.choice", "Quot.sound"}
FORBIDDEN = re.compile(
    r"\bsorry\b|\badmit\b|^\s*axiom\s|native_decide|bv_decide|implemented_by|\bunsafe\s|maxHeartbeats\s+0\b",
    re.M,
)
WORKERS = int(os.environ.get("VERIF_WORKERS", "0")) or min(16, os.cpu_count() or 4)


def use_repo():
    """Make `import graphql` resolve to REPO's working tree."""
    src = str(REPO / "src")
    if src not in sys.path:
        sys.path.insert(0, src)
    for name in list(sys.modules):
        if name == "graphql" or name.startswith("graphql."):
            mod = sys.modules[name]
            f = getattr(mod, "__file__", "") or ""
            if not f.startswith(src):
                del sys.modules[name]


# ----------------------------------------------------------------------------- lean side


class InfraError(Exception):
    pass


def strip_lean_comments(text: str) -> str:
    out = []
    i, n, depth = 0, len(text), 0
    while i < n:
        if text.startswith("/-", i):
            depth += 1
            i += 2
        elif depth and text.startswith("-/", i):
            depth -= 1
            i += 2
        elif depth:
            if text[i] == "\n":
                out.append("\n")
            i += 1
        elif text.startswith("--", i):
            while i < n and text[i] != "\n":
                i += 1
        else:
            out.append(text[i])
            i += 1
    return "".join(out)


def lean_sources():
    return sorted((LEAN / "Gql").rglob("*.lean")) + sorted((LEAN / "Driver").rglob("*.lean"))


def grep_forbidden(files=None):
    hits = []
    for f in files or lean_sources():
        body = strip_lean_comments(f.read_text())
        for m in FORBIDDEN.finditer(body):
            line = body.count("\n", 0, m.start()) + 1
            hits.append(f"{f.relative_to(LEAN)}:{line}: {m.group(0).strip()}")
    return hits


class LeanLock:
    def __enter__(self):
        self.f = open(LEAN / ".lock", "w")
        fcntl.flock(self.f, fcntl.LOCK_EX)
        return self

    def __exit__(self, *a):
        fcntl.flock(self.f, fcntl.LOCK_UN)
        self.f.close()


def run_cmd(cmd, cwd=None, timeout=3600, input=None):
    p = subprocess.run(
        cmd, cwd=cwd, timeout=timeout, input=input, capture_output=True, text=True
    )
    return p.returncode, p.stdout + p.stderr


def lake_build(targets, timeout=3000):
    with LeanLock():
        rc, out = run_cmd(["lake", "build", *targets], cwd=LEAN, timeout=timeout)
    return rc == 0, out


def theorems_of(props_module: str):
    """Fully qualified names of the `theorem`s declared in a Props file."""
    path = LEAN / (props_module.replace(".", "/") + ".lean")
    body = strip_lean_comments(path.read_text())
    ns = []
    names = []
    for line in body.splitlines():
        m = re.match(r"\s*namespace\s+(\S+)", line)
        if m:
            ns.append(m.group(1))
            continue
        m = re.match(r"\s*end\s+(\S+)", line)
        if m and ns and ns[-1] == m.group(1):
            ns.pop()
            continue
        m = re.match(r"\s*(?:@\[[^\]]*\]\s*)?(?:private\s+|protected\s+)?theorem\s+(\S+)", line)
        if m:
            names.append(".".join(ns + [m.group(1)]))
    return names


def audit(props_module: str, theorems):
    """`#print axioms` for every property theorem; returns {name: [axioms]}."""
    d = LEAN / ".audit"
    d.mkdir(exist_ok=True)
    f = d / f"Audit_{props_module.replace('.', '_')}_{os.getpid()}.lean"
    f.write_text(
        f"import {props_module}\n" + "".join(f"#print axioms {t}\n" for t in theorems)
    )
    try:
        with LeanLock():
            rc, out = run_cmd(["lake", "env", "lean", str(f)], cwd=LEAN, timeout=1800)
    finally:
        f.unlink(missing_ok=True)
    res = {}
    flat = re.sub(r"\s+", " ", out)
    for t in theorems:
        m = re.search(
            r"'" + re.escape(t) + r"' (does not depend on any axioms|depends on axioms: \[([^\]]*)\])",
            flat,
        )
        if not m:
            res[t] = None
        elif m.group(2) is None:
            res[t] = []
        else:
            res[t] = [a.strip() for a in m.group(2).split(",") if a.strip()]
    return rc, out, res


def leanchecker(modules, timeout=3000):
    with LeanLock():
        rc, out = run_cmd(["lake", "env", "leanchecker", *modules], cwd=LEAN, timeout=timeout)
    return rc == 0, out


class Driver:
    """The compiled Lean model behind the line protocol."""

    def __init__(self, name):
        self.path = LEAN / ".lake" / "build" / "bin" / name
        self.name = name

    def run(self, lines, timeout=3600):
        if not lines:
            return []
        data = "\n".join(lines) + "\n"
        p = subprocess.run(
            [str(self.path)], input=data, capture_output=True, text=True, timeout=timeout
        )
        if p.returncode != 0:
            raise InfraError(f"driver {self.name} exited {p.returncode}: {p.stderr[:2000]}")
        out = p.stdout.split("\n")
        if out and out[-1] == "":
            out.pop()
        if len(out) != len(lines):
            raise InfraError(
                f"driver {self.name}: {len(lines)} lines in, {len(out)} lines out"
            )
        return out


def cps(s) -> str:
    """Python str -> space separated code points."""
    return " ".join(str(ord(c)) for c in s)


def uncps(t: str) -> str:
    return "".join(chr(int(w)) for w in t.split())


# ----------------------------------------------------------------------------- results


@dataclass
class Failure:
    """A concrete input on which the *property itself* fails on the implementation."""

    fingerprint: str
    what: str
    input: object
    observed: object = None
    expected: object = None
    source: str = ""  # which oracle/theorem


@dataclass
class Disagreement:
    """Model and implementation differ on an input (correspondence break)."""

    component: str
    input: object
    impl: object
    model: object


@dataclass
class Report:
    evaluations: int = 0
    nontrivial: int = 0
    rule: str = ""
    samples: list = field(default_factory=list)
    stats: dict = field(default_factory=dict)
    disagreements: list = field(default_factory=list)
    failures: list = field(default_factory=list)
    exhaustive: bool = False
    notes: list = field(default_factory=list)

    def merge(self, other: "Report"):
        self.evaluations += other.evaluations
        self.nontrivial += other.nontrivial
        for k, v in other.stats.items():
            if isinstance(v, (int, float)) and isinstance(self.stats.get(k, 0), (int, float)):
                self.stats[k] = self.stats.get(k, 0) + v
            else:
                self.stats[k] = v
        self.disagreements += other.disagreements
        self.failures += other.failures
        if len(self.samples) < 12:
            self.samples += other.samples[: 12 - len(self.samples)]
        self.notes += other.notes


@dataclass
class Ctx:
    prop: str
    tier: str
    seed: int
    rng: random.Random
    driver: Driver | None
    model_ok: bool
    escalate: bool = False
    t0: float = 0.0

    def sub_rng(self, tag: str) -> random.Random:
        return random.Random(f"{self.seed}:{tag}")


def load_known():
    p = VERIF / "known_findings.json"
    if not p.exists():
        return []
    return json.loads(p.read_text()).get("findings", [])


def jsonable(x):
    try:
        json.dumps(x)
        return x
    except Exception:
        return repr(x)


def write_replay(prop, payload):
    REPLAY.mkdir(exist_ok=True)
    p = REPLAY / f"{prop}_{int(time.time())}_{os.getpid()}.json"
    p.write_text(json.dumps(payload, indent=1, default=repr))
    return p


def write_evidence(prop, tier, seed, level, coverage, assumptions, wall, violations):
    EVIDENCE.mkdir(exist_ok=True)
    ev = {
        "property_id": prop,
        "tier": tier,
        "seed": seed,
        "level": level,
        "coverage": coverage,
        "assumptions": assumptions,
        "wall_s": round(wall, 2),
        "violations": violations,
    }
    tmp = EVIDENCE / f".{prop}.json.{os.getpid()}"
    tmp.write_text(json.dumps(ev, indent=1, default=repr))
    tmp.replace(EVIDENCE / f"{prop}.json")


# ----------------------------------------------------------------------------- the check


def run_property(mod, argv):
    import argparse

    ap = argparse.ArgumentParser()
    ap.add_argument("--tier", default=os.environ.get("VERIF_TIER", "quick"))
    ap.add_argument("--replay", default=None)
    args = ap.parse_args(argv)
    tier = args.tier if args.tier in ("quick", "thorough") else "quick"
    seed = int(os.environ.get("VERIF_SEED", "0") or 0)
    prop = mod.ID
    t0 = time.time()
    try:
        return _run(mod, prop, tier, seed, args.replay, t0)
    except subprocess.TimeoutExpired as e:
        print(f"INFRA: timeout: {e}", flush=True)
        return 2
    except InfraError as e:
        print(f"INFRA: {e}", flush=True)
        return 2
    except Exception:
        traceback.print_exc()
        print("INFRA: unexpected harness exception", flush=True)
        return 2


def _run(mod, prop, tier, seed, replay, t0):
    use_repo()
    broken = []  # names of proof obligations / correspondences that no longer check
    notes = []

    # 1. T1 tables regenerated from the working tree
    if hasattr(mod, "extract"):
        try:
            with LeanLock():
                changed = mod.extract(REPO, LEAN)
            if changed:
                notes.append(f"T1 tables changed vs committed copy: {changed}")
        except Exception as e:  # a source the extractor cannot read is a proof obligation we cannot state
            broken.append(f"T1 extraction failed: {e!r}")

    # 2. build theorems + driver, audit
    targets = [mod.PROPS] + ([mod.DRIVER] if getattr(mod, "DRIVER", None) else []) + list(getattr(mod, "EXTRA_TARGETS", []))
    ok, log = lake_build(targets)
    model_ok = True
    theorems = theorems_of(mod.PROPS)
    axioms = {}
    if not ok:
        # which part broke?  try the driver alone (model still executable?)
        bad = re.findall(r"error: (\S+\.lean):(\d+):\d+: (.*)", log)
        broken.append(
            "lake build failed: " + "; ".join(f"{a}:{b} {c[:120]}" for a, b, c in bad[:6])
        )
        if getattr(mod, "DRIVER", None):
            okd, _ = lake_build([mod.DRIVER])
            model_ok = okd
    else:
        rc, out, axioms = audit(mod.PROPS, theorems)
        for t, ax in axioms.items():
            if ax is None:
                broken.append(f"audit: no axiom report for {t}")
            elif not set(ax) <= ALLOWED_AXIOMS:
                broken.append(f"audit: {t} depends on {sorted(set(ax) - ALLOWED_AXIOMS)}")
        hits = grep_forbidden()
        if hits:
            broken.append("forbidden constructs: " + "; ".join(hits[:8]))
        if tier == "thorough" and not broken:
            okc, outc = leanchecker([mod.PROPS])
            if not okc:
                broken.append("leanchecker rejected " + mod.PROPS + ": " + outc[-300:])
            else:
                notes.append("leanchecker accepted " + mod.PROPS)

    driver = Driver(mod.DRIVER) if getattr(mod, "DRIVER", None) and model_ok else None
    ctx = Ctx(prop, tier, seed, random.Random(seed), driver, model_ok, escalate=bool(broken), t0=t0)

    if replay:
        payload = json.loads(Path(replay).read_text())
        rep = mod.replay(ctx, payload)
    else:
        rep = mod.explore(ctx)

    for d in rep.disagreements[:1]:
        broken.append(f"correspondence {d.component} differs on {jsonable(d.input)!r:.200}")

    known = [k for k in load_known() if k.get("property") == prop and k.get("status") == "known"]
    known_fp = {k["fingerprint"]: k for k in known}

    # 3. failing-input search when something broke and no *unlisted* failing input has been found yet
    #    (a listed known finding does not explain a broken proof obligation or correspondence)
    if broken and not [f for f in rep.failures if f.fingerprint not in known_fp] and hasattr(mod, "search") and not replay:
        ctx.escalate = True
        extra = mod.search(ctx, rep)
        rep.merge(extra)
    new_failures = [f for f in rep.failures if f.fingerprint not in known_fp]
    listed = {}
    for f in rep.failures:
        if f.fingerprint in known_fp:
            listed[f.fingerprint] = f

    exit_code = 0
    lines = []
    violations = 0
    if new_failures:
        f = new_failures[0]
        path = write_replay(
            prop,
            {
                "property": prop,
                "kind": "failing-input",
                "fingerprint": f.fingerprint,
                "what": f.what,
                "input": jsonable(f.input),
                "observed": jsonable(f.observed),
                "expected": jsonable(f.expected),
                "oracle": f.source,
                "broken": broken,
                "more": [
                    {"fingerprint": g.fingerprint, "what": g.what, "input": jsonable(g.input)}
                    for g in new_failures[1:10]
                ],
            },
        )
        lines.append(f"VIOLATION property={prop} replay={path}")
        violations = len(new_failures)
        exit_code = 1
    elif broken:
        path = write_replay(
            prop,
            {
                "property": prop,
                "kind": "no-failing-input-found",
                "broken": broken,
                "disagreements": [
                    {"component": d.component, "input": jsonable(d.input), "impl": jsonable(d.impl), "model": jsonable(d.model)}
                    for d in rep.disagreements[:10]
                ],
                "build_log_tail": log[-3000:] if not ok else "",
            },
        )
        lines.append(f"VIOLATION property={prop} replay={path} no-failing-input-found")
        violations = 1
        exit_code = 1
    for fp, f in listed.items():
        lines.insert(0, f"KNOWN-FINDING: property={prop} {known_fp[fp].get('what', f.what)}")

    wall = time.time() - t0
    n_ob = len(theorems)
    n_ok = sum(1 for t in theorems if axioms.get(t) is not None and set(axioms[t]) <= ALLOWED_AXIOMS) if ok else 0
    level = getattr(mod, "LEVEL", "proof")
    coverage = {
        "obligations": max(n_ob, 1),
        "discharged": n_ok,
        "checker_cmd": f"cd lean && lake build {' '.join(targets)} && lake env lean <#print axioms of every theorem in {mod.PROPS}>"
        + (" && lake env leanchecker " + mod.PROPS if tier == "thorough" else ""),
        "trusted_base": getattr(mod, "TRUSTED", [])
        + [
            "Lean 4.33 kernel; axioms allowed: propext, Classical.choice, Quot.sound (audited this run)",
            "tools/fw.py + checks/%s.py harness (generation, canonicalisation, diff)" % prop.lower(),
        ],
        "theorems": {t: axioms.get(t) for t in theorems},
        "proof_obligations_broken": broken,
        "evaluations": rep.evaluations,
        "distinct_nontrivial": rep.nontrivial,
        "rule": rep.rule,
        "samples": [jsonable(s) for s in rep.samples[:12]] or ["<none>"],
        "exhaustive": rep.exhaustive,
        "correspondence_disagreements": len(rep.disagreements),
        "property_failures_on_implementation": len(rep.failures),
        "known_findings_seen": sorted(listed),
        "input_distribution": rep.stats,
        "notes": notes + rep.notes,
        "explanation": getattr(mod, "EXPLANATION", ""),
    }
    if not ok or n_ok == 0:
        # do not present a proof-level record when no theorem checked on this run
        coverage["discharged"] = n_ok
    write_evidence(prop, tier, seed, level, coverage, getattr(mod, "ASSUMPTIONS", []), wall, violations)
    for ln in lines:
        print(ln, flush=True)
    print(
        f"[{prop}] tier={tier} seed={seed} theorems={n_ok}/{n_ob} cases={rep.evaluations} "
        f"disagreements={len(rep.disagreements)} failures={len(rep.failures)} "
        f"broken={len(broken)} wall={wall:.1f}s exit={exit_code}",
        flush=True,
    )
    return exit_code


# ----------------------------------------------------------------------------- helpers for explore()


def pmap(fn, chunks, workers=None):
    """Run `fn(chunk)` over chunks in worker processes (fork; REPO already on sys.path)."""
    import multiprocessing as mp

    workers = workers or WORKERS
    if len(chunks) <= 1 or workers <= 1:
        return [fn(c) for c in chunks]
    # import the library in the parent before forking: with PYTHONDONTWRITEBYTECODE every
    # worker would otherwise recompile ~190 graphql modules
    try:
        use_repo()
        import graphql  # noqa: F401
        import graphql.execution  # noqa: F401
        import graphql.utilities  # noqa: F401
        import graphql.validation  # noqa: F401
    except Exception:  # noqa: BLE001 - a tree that does not import is reported by the check itself
        pass
    ctxm = mp.get_context("fork")
    with ctxm.Pool(min(workers, len(chunks))) as pool:
        return pool.map(fn, chunks, chunksize=1)


def chunked(seq, n):
    seq = list(seq)
    k = max(1, (len(seq) + n - 1) // n)
    return [seq[i : i + k] for i in range(0, len(seq), k)]
