"""C03 generators: requests (selection + data graph + awaitable sites) and schedules."""
from __future__ import annotations

import itertools
import math

from tools.c03_loop import ABSTRACT, FIELDS, OBJECT_TYPES, field_of

LEAF_FIELDS = [f for f, d in FIELDS.items() if d[3] == "String"]
COMP_FIELDS = [f for f, d in FIELDS.items() if d[3] != "String"]


# ------------------------------------------------------------------------------------ selections


class _G:
    def __init__(self, rng, p):
        self.rng = rng
        self.p = p
        self.alias = 0
        self.frags = {}
        self.val = 0


def gen_sel(g: _G, depth: int, ctx: str, top=False):
    """Selection for an object of (static) type `ctx` in {Q, M, T, V, I, U}."""
    rng = g.rng
    items = []
    n = rng.randint(1, g.p["width"])
    used = set()
    for _ in range(n):
        comp = depth > 0 and rng.random() < g.p["p_comp"]
        f = rng.choice(COMP_FIELDS if comp else LEAF_FIELDS)
        a = None
        if f in used or rng.random() < g.p["p_alias"]:
            g.alias += 1
            a = f"{f}_{g.alias}"
        used.add(f)
        it = {"f": f, "a": a}
        if FIELDS[f][3] != "String":
            it["sel"] = gen_sel(g, depth - 1, FIELDS[f][3])
        items.append(it)
    # wrap some items into fragments
    if not top or ctx in ("Q", "M"):
        out = []
        for it in items:
            r = rng.random()
            if r < g.p["p_inline"]:
                if ctx in ("Q", "M"):
                    on = rng.choice([None, ctx])
                else:
                    on = rng.choice([None, "T", "V", "W", "I", "I"])
                out.append({"on": on, "sel": [it]})
            elif r < g.p["p_inline"] + g.p["p_spread"] and ctx not in ("Q", "M"):
                name = f"F{len(g.frags)}"
                on = rng.choice(["T", "V", "W", "I"])
                g.frags[name] = {"on": on, "sel": [it]}
                out.append({"spread": name})
            else:
                out.append(it)
        items = out
    if ctx == "U":
        # a union has no fields of its own: everything must sit in a fragment
        items = [it if "f" not in it else {"on": g.rng.choice(["T", "V", "W", "I", "I"]), "sel": [it]} for it in items]
    return items


def flat_fields(sel, frags, acc=None):
    """All fields reachable through any fragment (type conditions ignored), merged by response key."""
    acc = {} if acc is None else acc
    for it in sel:
        if "f" in it:
            rk = it.get("a") or it["f"]
            acc.setdefault(rk, [])
            acc[rk] += it.get("sel") or []
        elif "spread" in it:
            flat_fields(frags[it["spread"]]["sel"], frags, acc)
        else:
            flat_fields(it["sel"], frags, acc)
    return acc


def applies(on, tn):
    return on is None or on == tn or (on in ABSTRACT and tn in OBJECT_TYPES)


def collect(sel, frags, tn, acc=None, seen=None):
    """Harness-side field collection for a concrete type (test scaffolding for the tree
    builder; the property oracle never uses it)."""
    acc = {} if acc is None else acc
    seen = set() if seen is None else seen
    for it in sel:
        if "f" in it:
            rk = it.get("a") or it["f"]
            acc.setdefault(rk, [])
            acc[rk] += it.get("sel") or []
        elif "spread" in it:
            name = it["spread"]
            if name in seen:
                continue
            seen.add(name)
            fr = frags[name]
            if applies(fr["on"], tn):
                collect(fr["sel"], frags, tn, acc, seen)
        elif applies(it.get("on"), tn):
            collect(it["sel"], frags, tn, acc, seen)
    return acc


# ------------------------------------------------------------------------------------ data


def gen_value(g: _G, fname: str, sub, depth_item=False, item_nn=None):
    """Value spec for a position of field `fname` (or for a list item of it)."""
    rng, p = g.rng, g.p
    onn, is_list, inn, base = FIELDS[fname]
    if is_list and not depth_item:
        r = rng.random()
        if r < p["p_null"]:
            return {"t": "leaf", "v": None}
        if r < p["p_null"] + p["p_raise"]:
            return {"t": "raise", "asval": rng.random() < 0.3}
        n = rng.choice([0, 1, 1, 2, 2, 3])
        vs = {"t": "list", "items": [gen_value(g, fname, sub, True) for _ in range(n)]}
        if rng.random() < p["p_iter_raise"]:
            vs["iter_raise"] = True
        return vs
    r = rng.random()
    if r < p["p_null"]:
        return {"t": "leaf", "v": None}
    if r < p["p_null"] + p["p_raise"]:
        return {"t": "raise", "asval": rng.random() < 0.3}
    if base == "String":
        g.val += 1
        return {"t": "leaf", "v": f"x{g.val}"}
    if base in ABSTRACT:
        tn = rng.choice(OBJECT_TYPES) if rng.random() > p["p_badtype"] else "X"
    else:
        tn = base if rng.random() > p["p_badtype"] else ("V" if base == "T" else "T")
    vs = {"t": "obj", "tn": tn, "ito": rng.random() > p["p_badtype"], "f": {}}
    for rk, subsel in flat_fields(sub, g.frags).items():
        vs["f"][rk] = gen_value(g, field_of(rk), subsel)
    return vs


def site_slots(vs, variant, fname=None):
    """Every place where an awaitable can be put and will be asked for: (spec, key)."""
    out = []
    t = vs["t"]
    if fname is not None:
        out.append((vs, "aw"))
    if t == "obj":
        if fname is not None:
            if variant == "A" and FIELDS[fname][3] in ABSTRACT:
                out.append((vs, "rt_aw"))
            out.append((vs, "ito_aw"))
        for rk, c in vs["f"].items():
            out += site_slots(c, variant, field_of(rk))
    elif t == "list":
        out.append((vs, "aiter"))
        for c in vs["items"]:
            out += site_slots(c, variant, fname)
    return out


DEFAULT_P = {
    "width": 4,
    "p_comp": 0.45,
    "p_alias": 0.15,
    "p_inline": 0.15,
    "p_spread": 0.1,
    "p_null": 0.07,
    "p_raise": 0.07,
    "p_iter_raise": 0.04,
    "p_badtype": 0.03,
}


def gen_case(rng, kmax=6, depth=3, op=None, variant=None, p=None):
    g = _G(rng, dict(DEFAULT_P, **(p or {})))
    op = op or ("mutation" if rng.random() < 0.25 else "query")
    variant = variant or rng.choice(["A", "A", "B"])
    root = "M" if op == "mutation" else "Q"
    sel = gen_sel(g, depth, root, top=True)
    data = {"t": "obj", "tn": root, "ito": True, "f": {}}
    for rk, subsel in flat_fields(sel, g.frags).items():
        data["f"][rk] = gen_value(g, field_of(rk), subsel)
    slots = site_slots(data, variant)
    rng.shuffle(slots)
    k = 0
    want = rng.randint(1, kmax)
    for vs, key in slots:
        if k >= want:
            break
        if key == "aiter" and any("aw" in it for it in vs["items"]):
            continue
        vs[key] = k
        if key == "aw":
            vs["co"] = rng.random() < 0.5
        if key == "aiter" or vs.get("co"):
            vs["cl"] = rng.choice([0, 0, 1, 2, 3, 30])
        k += 1
    # an async-iterator list delivers plain items
    _strip_aiter_items(data)
    case = {"variant": variant, "op": op, "sel": sel, "frags": g.frags, "data": data, "k": k, "stream": "gen"}
    case["ito_modes"] = gen_modes(rng)
    return case


def gen_modes(rng):
    """is_type_of of every object type independently: no predicate / always sync / awaitable."""
    return {t: rng.choice(["aw", "aw", "sync", "sync", "none"]) for t in OBJECT_TYPES}


ABSTRACT_FIELDS = [f for f, d in FIELDS.items() if d[3] in ABSTRACT]


def gen_abstract_case(rng, kmax=5):
    """Values of interface / union type (single and in lists) that need type resolution: with
    the default type resolver (no resolve_type, no __typename) or resolve_type, the matching
    possible type at any index, each predicate independently absent / sync / awaitable; the
    awaitable sites are preferably the is_type_of predicates of these values."""
    variant = "B" if rng.random() < 0.8 else "A"
    g = _G(rng, dict(DEFAULT_P, p_comp=0.3, p_null=0.04, p_raise=0.04, p_badtype=0.04))
    op = "mutation" if rng.random() < 0.15 else "query"
    root = "M" if op == "mutation" else "Q"
    sel = []
    for _ in range(rng.randint(1, 3)):
        f = rng.choice(ABSTRACT_FIELDS)
        g.alias += 1
        sub = gen_sel(g, rng.randint(0, 1), FIELDS[f][3])
        sel.append({"f": f, "a": f"{f}_{g.alias}", "sel": sub})
    if rng.random() < 0.5:
        sel.insert(rng.randint(0, len(sel)), {"f": rng.choice(LEAF_FIELDS), "a": None})
    data = {"t": "obj", "tn": root, "ito": True, "f": {}}
    for rk, subsel in flat_fields(sel, g.frags).items():
        data["f"][rk] = gen_value(g, field_of(rk), subsel)
    slots = site_slots(data, variant)
    rng.shuffle(slots)
    slots.sort(key=lambda sk: 0 if sk[1] in ("ito_aw", "rt_aw") else 1)
    k = 0
    want = rng.randint(1, kmax)
    n_type_sites = rng.randint(1, want)
    for vs, key in slots:
        if k >= want:
            break
        if key in ("ito_aw", "rt_aw") and k >= n_type_sites:
            continue
        if key == "aiter" and any("aw" in it for it in vs["items"]):
            continue
        vs[key] = k
        if key == "aw":
            vs["co"] = rng.random() < 0.5
        if key == "aiter" or vs.get("co"):
            vs["cl"] = rng.choice([0, 0, 1, 2, 30])
        k += 1
    _strip_aiter_items(data)
    modes = gen_modes(rng)
    if all(m == "none" for m in modes.values()):
        modes[rng.choice(OBJECT_TYPES)] = "aw"
    return {"variant": variant, "op": op, "sel": sel, "frags": g.frags, "data": data, "k": k, "stream": "abstract", "ito_modes": modes}


def _strip_aiter_items(vs):
    if vs["t"] == "obj":
        for c in vs["f"].values():
            _strip_aiter_items(c)
    elif vs["t"] == "list":
        for c in vs["items"]:
            if vs.get("aiter") is not None:
                c.pop("aw", None)
                if c["t"] == "raise":
                    c["asval"] = True
            _strip_aiter_items(c)


def all_sites(vs, acc=None):
    acc = set() if acc is None else acc
    for key in ("aw", "rt_aw", "ito_aw", "aiter"):
        if vs.get(key) is not None:
            acc.add(vs[key])
    if vs["t"] == "obj":
        for c in vs["f"].values():
            all_sites(c, acc)
    elif vs["t"] == "list":
        for c in vs["items"]:
            all_sites(c, acc)
    return acc


def renumber_sites(case, keep):
    """Drop the sites not in `keep` (they become synchronous) and renumber 0..k-1."""
    m = {s: n for n, s in enumerate(sorted(keep))}

    def go(vs):
        for key in ("aw", "rt_aw", "ito_aw", "aiter"):
            if key in vs:
                if vs[key] in m:
                    vs[key] = m[vs[key]]
                else:
                    del vs[key]
        if vs["t"] == "obj":
            for c in vs["f"].values():
                go(c)
        elif vs["t"] == "list":
            for c in vs["items"]:
                go(c)

    go(case["data"])
    case["k"] = len(m)
    return case


# ------------------------------------------------------------------------------------ lifetime shapes (F2)


def gen_lifetime_case(rng, variant=None):
    """Several synchronous sibling objects of one type with small sub-selections, plus one late
    awaitable sibling with a *different* nested sub-selection on the same type (the F2 shape:
    the memo of the early siblings is keyed on objects that are gone when the late one runs)."""
    g = _G(rng, dict(DEFAULT_P, p_null=0.0, p_raise=0.0, p_badtype=0.0, p_iter_raise=0.0))
    n_sync = rng.randint(2, 6)
    obj_fields = ["o", "on", "i", "u", "v"] if rng.random() < 0.5 else ["o", "on"]
    sel = []
    first_leaf = rng.choice(LEAF_FIELDS)
    for n in range(n_sync):
        f = rng.choice(obj_fields)
        g.alias += 1
        sub = [{"f": first_leaf, "a": None}]
        if rng.random() < 0.3:
            sub.append({"f": rng.choice(LEAF_FIELDS), "a": None})
        if FIELDS[f][3] == "U":
            sub = [{"on": "I", "sel": sub}]
        sel.append({"f": f, "a": f"{f}_{g.alias}", "sel": sub})
    # the late one: nested object selection with other leaves
    other = rng.choice([x for x in LEAF_FIELDS if x != first_leaf])
    depth = rng.randint(1, 3)
    inner = [{"f": other, "a": None}]
    for _ in range(depth):
        f = rng.choice(["o", "on"])
        inner = [{"f": f, "a": None, "sel": inner}]
        if rng.random() < 0.4:
            inner.append({"f": rng.choice(LEAF_FIELDS), "a": None})
    g.alias += 1
    late_f = rng.choice(["o", "on", "l"])
    late = {"f": late_f, "a": f"{late_f}_{g.alias}", "sel": inner}
    pos = rng.randint(0, len(sel))
    sel.insert(pos, late)
    op = "mutation" if rng.random() < 0.15 else "query"
    root = "M" if op == "mutation" else "Q"
    data = {"t": "obj", "tn": root, "ito": True, "f": {}}
    for rk, subsel in flat_fields(sel, g.frags).items():
        data["f"][rk] = gen_value(g, field_of(rk), subsel)
    late_vs = data["f"][late["a"]]
    late_vs["aw"] = 0
    late_vs["co"] = rng.random() < 0.5
    k = 1
    # optionally a second awaitable deeper inside the late subtree
    if rng.random() < 0.4:
        slots = [(vs, key) for vs, key in site_slots(late_vs, "A", late_f) if key == "aw" and vs is not late_vs]
        if slots:
            vs, key = rng.choice(slots)
            vs[key] = 1
            k = 2
    return {"variant": variant or rng.choice(["A", "B"]), "op": op, "sel": sel, "frags": {}, "data": data, "k": k, "stream": "lifetime", "ito_modes": gen_modes(rng)}


# ------------------------------------------------------------------------------------ cancellation shapes

NN_FIELDS = [f for f, d in FIELDS.items() if d[0]]


def gen_nested_gather_case(rng):
    """Compact cancellation shape: the failing non-null awaitable has a sibling OBJECT (or list
    item objects) with two or three awaitable children of its own - a nested gather below the
    task that gets cancelled - whose cleanups take very different numbers of loop iterations;
    nothing else of that root field is awaitable, so the root field completes right after the
    failure; further root fields follow."""
    g = _G(rng, dict(DEFAULT_P, p_null=0.0, p_raise=0.0, p_badtype=0.0, p_iter_raise=0.0))
    op = "mutation" if rng.random() < 0.85 else "query"
    root = "M" if op == "mutation" else "Q"
    hot_f = rng.choice(["o", "on", "v"])
    bad = rng.choice(["sn", "sn", "on", "lsn"])
    nest_f = rng.choice(["o", "on", "v", "l", "i"])
    leaves = rng.sample(LEAF_FIELDS, rng.randint(2, 3))
    inner = [{"f": x, "a": None} for x in leaves]
    if FIELDS[nest_f][3] in ABSTRACT and rng.random() < 0.5:
        inner = [{"on": "I", "sel": inner}]
    sub = [{"f": bad, "a": None, **({"sel": [{"f": "s", "a": None}]} if FIELDS[bad][3] != "String" else {})},
           {"f": nest_f, "a": f"{nest_f}_1", "sel": inner}]
    if rng.random() < 0.4:
        sub.append({"f": "s", "a": "s_9"})
    rng.shuffle(sub)
    sel = [{"f": hot_f, "a": f"{hot_f}_1", "sel": sub}]
    for n in range(rng.randint(1, 2)):
        f = rng.choice(LEAF_FIELDS + ["o"])
        it = {"f": f, "a": f"{f}_{n + 2}"}
        if FIELDS[f][3] != "String":
            it["sel"] = [{"f": "s", "a": None}]
        sel.append(it)
    if rng.random() < 0.25:
        sel.insert(0, {"f": "s", "a": "s_0"})
    data = {"t": "obj", "tn": root, "ito": True, "f": {}}
    for rk, subsel in flat_fields(sel, g.frags).items():
        data["f"][rk] = gen_value(g, field_of(rk), subsel)
    hot = data["f"][f"{hot_f}_1"]
    k = 0
    hot["f"][bad] = rng.choice([{"t": "raise"}, {"t": "leaf", "v": None}])
    hot["f"][bad].update({"aw": k, "co": rng.random() < 0.5, "cl": 0})
    k += 1
    nest = hot["f"][f"{nest_f}_1"]
    objs = [nest] if nest["t"] == "obj" else [it for it in nest.get("items", []) if it["t"] == "obj"]
    cls = [rng.choice([0, 1]), rng.choice([30, 40]), rng.choice([0, 2, 30])]
    rng.shuffle(cls)
    for ob in objs[:2]:
        for n, x in enumerate(leaves):
            c = ob["f"].get(x)
            if c is None or c["t"] == "list" or k >= 7:
                continue
            c.update({"aw": k, "co": rng.random() < 0.85, "cl": cls[n]})
            k += 1
    if "s_9" in hot["f"] and rng.random() < 0.5:
        hot["f"]["s_9"].update({"aw": k, "co": True, "cl": rng.choice([0, 3])})
        k += 1
    if nest["t"] == "obj" and rng.random() < 0.25:
        nest.update({"aw": k, "co": rng.random() < 0.5, "cl": 0})
        k += 1
    return {"variant": rng.choice(["A", "B"]), "op": op, "sel": sel, "frags": {}, "data": data, "k": k, "stream": "cancel",
            "ito_modes": {t: rng.choice(["sync", "none"]) for t in OBJECT_TYPES}}


def gen_cancel_case(rng):
    """A selection set in which a non-null awaitable child fails while sibling resolver
    coroutines (with awaited cleanup), async iterators and nested awaitables are pending: the
    siblings are cancelled (gather_with_cancel) and must have finished unwinding before anything
    that follows - in particular the next root field of a mutation."""
    if rng.random() < 0.4:
        return gen_nested_gather_case(rng)
    g = _G(rng, dict(DEFAULT_P, p_null=0.03, p_raise=0.03, p_badtype=0.0, p_iter_raise=0.0))
    op = "mutation" if rng.random() < 0.75 else "query"
    root = "M" if op == "mutation" else "Q"
    sel, hot = [], []
    n_root = rng.randint(2, 4)
    n_hot = rng.randint(1, 2)
    for r in range(n_root):
        g.alias += 1
        if r < n_hot:
            f = rng.choice(["o", "on", "v", "l", "ln"])
            bad = rng.choice(NN_FIELDS)
            sub = [{"f": bad, "a": None, **({"sel": gen_sel(g, 0, FIELDS[bad][3])} if FIELDS[bad][3] != "String" else {})}]
            for _ in range(rng.randint(1, 3)):
                sf = rng.choice(LEAF_FIELDS + ["o", "on", "v", "o"])
                g.alias += 1
                it = {"f": sf, "a": f"{sf}_{g.alias}"}
                if FIELDS[sf][3] != "String":
                    it["sel"] = gen_sel(g, 1, FIELDS[sf][3])
                    if len(it["sel"]) < 2:
                        it["sel"] = it["sel"] + [{"f": x, "a": None} for x in rng.sample(LEAF_FIELDS, 2)]
                sub.insert(rng.randint(0, len(sub)), it)
            rk = f"{f}_{g.alias}"
            sel.append({"f": f, "a": rk, "sel": sub})
            hot.append((rk, bad))
        else:
            f = rng.choice(LEAF_FIELDS + ["o", "on"])
            it = {"f": f, "a": f"{f}_{g.alias}"}
            if FIELDS[f][3] != "String":
                it["sel"] = gen_sel(g, 1, FIELDS[f][3])
            sel.append(it)
    if rng.random() < 0.3:
        rng.shuffle(sel)
    data = {"t": "obj", "tn": root, "ito": True, "f": {}}
    for rk, subsel in flat_fields(sel, g.frags).items():
        data["f"][rk] = gen_value(g, field_of(rk), subsel)
    k = 0
    for rk, bad in hot:
        vs = data["f"][rk]
        objs = [vs] if vs["t"] == "obj" else [it for it in vs.get("items", []) if it["t"] == "obj"]
        for ob in objs[:2]:
            if k >= 8:
                break
            ob["f"][bad] = rng.choice([{"t": "raise"}, {"t": "leaf", "v": None}])
            ob["f"][bad].update({"aw": k, "co": rng.random() < 0.5, "cl": rng.choice([0, 1, 30])})
            k += 1
            for key, c in ob["f"].items():
                if key == bad or k >= 8:
                    continue
                leaves = [x for x in c.get("f", {}).values() if x["t"] != "list"] if c["t"] == "obj" else []
                if len(leaves) >= 2 and k + 2 <= 8 and rng.random() < 0.6:
                    # a nested gather below a sibling that gets cancelled: two awaitable
                    # children whose cleanups take different numbers of loop iterations
                    a, b = rng.sample(leaves, 2)
                    for x, cl in ((a, rng.choice([0, 1])), (b, rng.choice([30, 40]))):
                        x["aw"] = k
                        x["co"] = True
                        x["cl"] = cl
                        k += 1
                    if rng.random() < 0.3 and k < 8:
                        c["aw"] = k
                        c["co"] = rng.random() < 0.5
                        c["cl"] = 0
                        k += 1
                elif c["t"] == "list" and rng.random() < 0.5 and not any("aw" in it for it in c["items"]):
                    c["aiter"] = k
                    c["cl"] = rng.choice([0, 1, 2, 3, 40])
                    k += 1
                elif rng.random() < 0.8:
                    c["aw"] = k
                    c["co"] = rng.random() < 0.75
                    c["cl"] = rng.choice([0, 1, 2, 3, 40])
                    k += 1
                    # a nested awaitable below an awaited sibling
                    if c["t"] == "obj" and c["f"] and rng.random() < 0.5 and k < 8:
                        inner = rng.choice(list(c["f"].values()))
                        inner["aw"] = k
                        inner["co"] = True
                        inner["cl"] = rng.choice([0, 2, 30])
                        # a second one next to it: a nested gather below the cancelled sibling
                        others = [x for x in c["f"].values() if x is not inner and "aw" not in x]
                        if others and k + 1 < 8 and rng.random() < 0.7:
                            other = rng.choice(others)
                            other["aw"] = k + 1
                            other["co"] = rng.random() < 0.7
                            other["cl"] = rng.choice([0, 1, 30])
                            k += 1
                        k += 1
    # some later root fields awaitable as well
    for it in sel:
        rk = it.get("a") or it["f"]
        vs = data["f"][rk]
        if "aw" not in vs and rng.random() < 0.3 and k < 9:
            vs["aw"] = k
            vs["co"] = rng.random() < 0.5
            vs["cl"] = rng.choice([0, 1])
            k += 1
    _strip_aiter_items(data)
    return {"variant": rng.choice(["A", "B"]), "op": op, "sel": sel, "frags": g.frags, "data": data, "k": k, "stream": "cancel", "ito_modes": gen_modes(rng)}


# ------------------------------------------------------------------------------------ schedules


def partitions_sample(rng, sites, n):
    out = []
    for _ in range(n):
        s = list(sites)
        rng.shuffle(s)
        groups = []
        while s:
            m = rng.randint(1, len(s))
            groups.append(s[:m])
            s = s[m:]
        out.append(groups)
    return out


def schedules_for(rng, sites, max_orders, full_upto):
    """Completion orders for the awaitable sites `sites`: all permutations when few, a seeded
    sample otherwise, plus groupings (several completing in the same tick)."""
    sites = sorted(sites)
    m = len(sites)
    out = []
    exhaustive = False
    if m <= full_upto and math.factorial(m) <= max_orders:
        out = [[[s] for s in perm] for perm in itertools.permutations(sites)]
        exhaustive = True
    else:
        seen = set()
        out.append([[s] for s in sites])
        out.append([[s] for s in reversed(sites)])
        tries = 0
        while len(out) < max_orders and tries < max_orders * 4:
            tries += 1
            perm = tuple(rng.sample(sites, m))
            if perm in seen:
                continue
            seen.add(perm)
            out.append([[s] for s in perm])
    if m >= 2:
        out.append([list(sites)])
        out.append([list(reversed(sites))])
        out += partitions_sample(rng, sites, min(4, m))
    return out, exhaustive


def masks_for(rng, k, all_upto, extra):
    sites = list(range(k))
    full = frozenset(sites)
    if k <= all_upto:
        ms = [frozenset(c) for r in range(k + 1) for c in itertools.combinations(sites, r)]
        return ms, True
    ms = [full, frozenset()]
    for _ in range(extra):
        ms.append(frozenset(s for s in sites if rng.random() < 0.5))
    return list(dict.fromkeys(ms)), False
