"""T1 table for C11: node classes and QUERY_DOCUMENT_KEYS, read from language/ast.py with
Python's `ast` module (no import of graphql, so a broken tree still extracts)."""
from __future__ import annotations

import ast
import re
from pathlib import Path

_re_camel_to_snake = re.compile(r"([a-z]|[A-Z0-9]+)(?=[A-Z])")


def camel_to_snake(s: str) -> str:
    return _re_camel_to_snake.sub(r"\1_", s).lower()


def kind_of(class_name: str) -> str:
    return camel_to_snake(class_name.removeprefix("Const").removesuffix("Node"))


def read_tables(repo: Path):
    src = (repo / "src" / "graphql" / "language" / "ast.py").read_text()
    mod = ast.parse(src)
    classes = {}  # name -> (base names, [(field, annotation expr)])
    aliases = {}  # TypeAlias name -> annotation expr
    qdk = None
    order = []
    for stmt in mod.body:
        if isinstance(stmt, ast.ClassDef):
            if not any(
                (isinstance(d, ast.Name) and d.id == "node_class") for d in stmt.decorator_list
            ):
                continue
            bases = [b.id for b in stmt.bases if isinstance(b, ast.Name)]
            flds = []
            for s in stmt.body:
                if isinstance(s, ast.AnnAssign) and isinstance(s.target, ast.Name):
                    flds.append((s.target.id, s.annotation))
            classes[stmt.name] = (bases, flds)
            order.append(stmt.name)
        elif isinstance(stmt, ast.AnnAssign) and isinstance(stmt.target, ast.Name):
            name = stmt.target.id
            if name == "QUERY_DOCUMENT_KEYS":
                qdk = ast.literal_eval(stmt.value)
            elif isinstance(stmt.annotation, ast.Name) and stmt.annotation.id == "TypeAlias":
                aliases[name] = stmt.value
        elif isinstance(stmt, ast.Assign) and len(stmt.targets) == 1 and isinstance(stmt.targets[0], ast.Name):
            if stmt.targets[0].id == "QUERY_DOCUMENT_KEYS":
                qdk = ast.literal_eval(stmt.value)
    if qdk is None:
        raise ValueError("QUERY_DOCUMENT_KEYS not found in ast.py")
    if "Node" not in classes:
        raise ValueError("class Node not found in ast.py")

    def is_node_class(name, seen=()):
        if name == "Node":
            return True
        if name not in classes or name in seen:
            return False
        return any(is_node_class(b, (*seen, name)) for b in classes[name][0])

    def classify(expr, depth=0):
        """-> (base, optional) with base in node|nodes|scalar|mixed|classvar"""
        if depth > 60:
            return ("scalar", False)
        if isinstance(expr, ast.Constant):
            if expr.value is None:
                return ("none", True)
            if isinstance(expr.value, str):  # quoted forward reference
                return classify(ast.parse(expr.value, mode="eval").body, depth + 1)
            return ("scalar", False)
        if isinstance(expr, ast.Name):
            if expr.id in aliases:
                return classify(aliases[expr.id], depth + 1)
            if is_node_class(expr.id):
                return ("node", False)
            return ("scalar", False)
        if isinstance(expr, ast.BinOp) and isinstance(expr.op, ast.BitOr):
            parts = [classify(expr.left, depth + 1), classify(expr.right, depth + 1)]
            opt = any(p[1] for p in parts)
            bases = {p[0] for p in parts if p[0] != "none"}
            if not bases:
                return ("none", True)
            if len(bases) == 1:
                return (bases.pop(), opt)
            return ("mixed", opt)
        if isinstance(expr, ast.Subscript):
            head = expr.value
            hname = head.id if isinstance(head, ast.Name) else getattr(head, "attr", "")
            if hname == "ClassVar":
                return ("classvar", False)
            if hname in ("tuple", "Tuple", "list", "List", "Sequence", "Collection"):
                sl = expr.slice
                elts = sl.elts if isinstance(sl, ast.Tuple) else [sl]
                inner = [classify(e, depth + 1) for e in elts if not (isinstance(e, ast.Constant) and e.value is Ellipsis)]
                bases = {p[0] for p in inner}
                if bases == {"node"}:
                    return ("nodes", False)
                if "node" in bases or "nodes" in bases or "mixed" in bases:
                    return ("mixed", False)
                return ("scalar", False)
            if hname == "Optional":
                b, _ = classify(expr.slice, depth + 1)
                return (b, True)
            return ("scalar", False)
        return ("scalar", False)

    def upsert(out, f, a):
        for i, (g, _) in enumerate(out):
            if g == f:
                out[i] = (f, a)  # a redefinition keeps the position of the original field
                return
        out.append((f, a))

    def all_fields(name, seen=()):
        if name not in classes or name in seen:
            return []
        bases, own = classes[name]
        out = []
        for b in reversed(bases):  # dataclass field order follows the reversed MRO
            for f, a in all_fields(b, (*seen, name)):
                upsert(out, f, a)
        for f, a in own:
            upsert(out, f, a)
        return out

    node_classes = [n for n in order if is_node_class(n)]
    kinds = {n: ("ast" if n == "Node" else kind_of(n)) for n in node_classes}
    table = []
    for n in node_classes:
        subs = [m for m in node_classes if m != n and n in classes[m][0]]
        abstract = n == "Node" or any(kinds[m] != kinds[n] for m in subs)
        flds = []
        for f, a in all_fields(n):
            base, opt = classify(a)
            if base == "classvar":
                continue
            if base == "none":
                base = "scalar"
            flds.append((f, base, opt))
        table.append((n, kinds[n], abstract, flds))
    return table, [(k, list(v)) for k, v in qdk.items()]


def lean_str(s: str) -> str:
    return '"' + s.replace("\\", "\\\\").replace('"', '\\"') + '"'


FK = {
    ("node", False): ".node",
    ("node", True): ".optNode",
    ("nodes", False): ".nodes",
    ("nodes", True): ".optNodes",
    ("scalar", False): ".scalar",
    ("scalar", True): ".scalar",
    ("mixed", False): ".mixed",
    ("mixed", True): ".mixed",
}


def render(table, qdk) -> str:
    out = [
        "/- GENERATED by tools/c11_extract.py from src/graphql/language/ast.py — do not edit.",
        "   Rewritten on every run of `./check C11` (T1, DESIGN §4.1). -/",
        "namespace Gql.Generated",
        "",
        "/-- what the annotation of a dataclass field of an AST node class says it holds -/",
        "inductive FieldKind where",
        "  | node | optNode | nodes | optNodes | scalar | mixed",
        "  deriving DecidableEq, Repr",
        "",
        "structure NodeClass where",
        "  name : String",
        "  kind : String",
        "  abstract : Bool",
        "  fields : List (String × FieldKind)",
        "",
        "def nodeClasses : List NodeClass := [",
    ]
    rows = []
    for n, k, ab, flds in table:
        fl = ", ".join(f"({lean_str(f)}, {FK[(b, o)]})" for f, b, o in flds)
        rows.append(f"  ⟨{lean_str(n)}, {lean_str(k)}, {'true' if ab else 'false'}, [{fl}]⟩")
    out.append(",\n".join(rows))
    out.append("]")
    out.append("")
    out.append("/-- `QUERY_DOCUMENT_KEYS`, in source order -/")
    out.append("def queryDocumentKeys : List (String × List String) := [")
    out.append(
        ",\n".join(
            f"  ({lean_str(k)}, [{', '.join(lean_str(x) for x in v)}])" for k, v in qdk
        )
    )
    out.append("]")
    out.append("")
    out.append("end Gql.Generated")
    return "\n".join(out) + "\n"


def extract(repo: Path, lean: Path):
    table, qdk = read_tables(repo)
    text = render(table, qdk)
    target = lean / "Gql" / "Generated" / "AstKeys.lean"
    target.parent.mkdir(parents=True, exist_ok=True)
    old = target.read_text() if target.exists() else None
    if old != text:
        target.write_text(text)
        return [str(target.relative_to(lean))]
    return []
