"""C12 — the modelled concrete rules (lean/Gql/Validation/Rules.lean): document generator aimed at them,
the annotated-tree encoding for the driver, and the canonical form of what the implementation reports."""
from __future__ import annotations

import re

MODELLED = [
    "UniqueOperationNamesRule",
    "LoneAnonymousOperationRule",
    "UniqueFragmentNamesRule",
    "KnownFragmentNamesRule",
    "NoUnusedFragmentsRule",
    "NoFragmentCyclesRule",
    "UniqueVariableNamesRule",
    "NoUndefinedVariablesRule",
    "NoUnusedVariablesRule",
    "UniqueArgumentNamesRule",
    "UniqueInputFieldNamesRule",
]


def atree_words(doc, keys):
    """`( kind field value child* )` along the traversal keys `keys`; ids = preorder numbers."""
    from graphql.language.ast import NameNode, Node

    words = []
    order = {}

    def go(n, field):
        order[id(n)] = len(order)
        words.append("(")
        words.append(n.kind)
        words.append(field or "-")
        words.append(n.value if isinstance(n, NameNode) and n.value else "-")
        for k in keys.get(n.kind, ()):
            v = getattr(n, k, None)
            if v is None:
                continue
            if isinstance(v, tuple):
                for x in v:
                    if isinstance(x, Node):
                        go(x, k)
            elif isinstance(v, Node):
                go(v, k)
        words.append(")")

    go(doc, "")
    return words, order


_Q = re.compile(r"""['"`]\$?([^'"`]*)['"`]""")


def canon_errors(errs, order):
    """`name:id.id…` per error: the name quoted in the message and the identities of error.nodes in order.  The
    reporting rule is not an observable of a GraphQLError: single-rule runs pin it; `kind_of` (message prefix) is
    used for statistics only, never for the comparison."""
    from graphql.validation.validate import ValidationAbortedError

    out = []
    for e in errs:
        if isinstance(e, ValidationAbortedError):
            out.append("A")
            continue
        m = _Q.search(e.message)
        name = m.group(1) if m else ""
        ids = ".".join(str(order.get(id(n), "?")) for n in (e.nodes or ()))
        out.append(f"{name}:{ids}")
    return out


_KINDS = [
    ("There can be only one operation", "UniqueOperationNamesRule"),
    ("This anonymous operation", "LoneAnonymousOperationRule"),
    ("There can be only one fragment", "UniqueFragmentNamesRule"),
    ("Unknown fragment", "KnownFragmentNamesRule"),
    ("Fragment '", "NoUnusedFragmentsRule"),
    ("Cannot spread fragment", "NoFragmentCyclesRule"),
    ("There can be only one variable", "UniqueVariableNamesRule"),
    ("There can be only one argument", "UniqueArgumentNamesRule"),
    ("There can be only one input field", "UniqueInputFieldNamesRule"),
]


def kind_of(msg):
    for prefix, rule in _KINDS:
        if msg.startswith(prefix):
            return rule
    if msg.startswith("Variable '"):
        return "NoUndefinedVariablesRule" if "is not defined" in msg else "NoUnusedVariablesRule"
    return "?"


def impl_run(schema, doc, rule_classes, max_errors, order, kinds=None):
    from graphql import validate

    try:
        errs = validate(schema, doc, rule_classes, max_errors)
    except Exception as e:  # noqa: BLE001
        return f"<CRASH>:{type(e).__name__}"
    if kinds is not None and errs:
        kinds.update(c.__name__ for c in rule_classes)
    return " ".join(canon_errors(errs, order))


def strip_rule(model_group):
    """model output `Rule:name:ids …` -> `name:ids …`"""
    return " ".join(e if e == "A" else e.split(":", 1)[1] for e in model_group.split())


# --------------------------------------------------------------------------------------------------
# generator


class RulesGen:
    """Documents aimed at the document-only rules: operations (anonymous / named / duplicate names), fragments
    (duplicate names, never spread, spreads of undefined names, cycles: self, mutual, long, reached from several
    roots), variables (defined / undefined / unused / duplicate, used only through fragments, fragment variables),
    arguments and input-object fields (duplicates, nested objects), directives."""

    def __init__(self, rng, p=0.15, frag_args=False):
        self.rng = rng
        self.p = p
        self.frag_args = frag_args
        self.frag_pool = ["A", "B", "C", "D", "E", "F"][: rng.randint(1, 6)]
        self.var_pool = ["a", "b", "c", "d"][: rng.randint(1, 4)]
        self.local_vars = []
        self.const = False

    def flip(self, p=None):
        return self.rng.random() < (self.p if p is None else p)

    def var(self):
        r = self.rng
        if self.local_vars and not self.flip():
            return r.choice(self.local_vars)
        return r.choice(self.var_pool + ["z"])

    def value(self, depth=0):
        r = self.rng
        x = r.random()
        if x < 0.35 and not self.const:
            return "$" + self.var()
        if x < 0.55 or depth > 2:
            return r.choice(["1", "2.5", '"s"', "true", "null", "EN"])
        if x < 0.8:
            n = r.randint(0, 3)
            keys = [r.choice(["k", "l", "m"]) if self.flip(0.35) else f"f{i}" for i in range(n)]
            return "{" + ", ".join(f"{k}: {self.value(depth + 1)}" for k in keys) + "}"
        return "[" + ", ".join(self.value(depth + 1) for _ in range(r.randint(0, 3))) + "]"

    def args(self):
        r = self.rng
        n = r.choice([0, 0, 1, 1, 2, 3])
        if n == 0:
            return ""
        names = [r.choice(["x", "y"]) if self.flip(0.35) else f"p{i}" for i in range(n)]
        return "(" + ", ".join(f"{k}: {self.value()}" for k in names) + ")"

    def directives(self):
        r = self.rng
        out = []
        for _ in range(r.choice([0, 0, 0, 1, 1, 2])):
            out.append("@" + r.choice(["skip", "include", "dd"]) + self.args())
        return (" " + " ".join(out)) if out else ""

    def selset(self, depth=0):
        r = self.rng
        sels = []
        for _ in range(r.randint(1, 4 if depth < 2 else 2)):
            x = r.random()
            if x < 0.3 and (depth > 0 or r.random() < 0.8):
                name = r.choice(self.frag_pool) if not self.flip(0.12) else r.choice(["U", "V"])
                fa = self.args() if self.frag_args else ""
                sels.append(f"...{name}{fa}{self.directives()}")
            elif x < 0.45 and depth < 3:
                tc = r.choice(["", " on T", " on Q"])
                sels.append(f"...{tc}{self.directives()} {self.selset(depth + 1)}")
            else:
                alias = r.choice(["", "", "al: "])
                sub = (" " + self.selset(depth + 1)) if depth < 3 and r.random() < 0.4 else ""
                sels.append(f"{alias}{r.choice(['f', 'g', 'h'])}{self.args()}{self.directives()}{sub}")
        return "{ " + " ".join(sels) + " }"

    def var_defs(self, force=False):
        r = self.rng
        n = r.choice([0, 1, 1, 2, 3]) if not force else r.randint(1, 3)
        names = []
        for _ in range(n):
            if names and self.flip(0.25):
                names.append(r.choice(names))
            else:
                names.append(r.choice(self.var_pool))
        self.local_vars = list(names)
        if not names:
            return ""
        parts = []
        for v in names:
            default = r.choice(["", "", " = 1", " = {k: 1, k: 2}", " = [1]"])
            self.const = True  # directives on variable definitions are constant
            dirs = self.directives() if self.flip(0.2) else ""
            self.const = False
            parts.append(f"${v}: {r.choice(['Int', '[Int!]', 'In'])}{default}{dirs}")
        return "(" + ", ".join(parts) + ")"

    def document(self):
        r = self.rng
        defs = []
        nops = r.choice([0, 1, 1, 1, 2, 2, 3])
        op_names = []
        for i in range(nops):
            anon = r.random() < 0.3
            kind = r.choice(["query", "query", "mutation", "subscription"])
            if anon and r.random() < 0.5:
                self.local_vars = []
                defs.append(self.selset())
                continue
            name = "" if anon else (r.choice(op_names) if op_names and self.flip(0.3) else f"Op{i}")
            if name:
                op_names.append(name)
            vd = self.var_defs()
            defs.append(f"{kind} {name}{vd}{self.directives()} {self.selset()}")
        frs = []
        for nm in self.frag_pool:
            if self.flip(0.15):
                continue
            frs.append(nm)
            if self.flip(0.2):
                frs.append(nm)
        r.shuffle(frs)
        for nm in frs:
            vd = self.var_defs() if self.frag_args and r.random() < 0.6 else ""
            if not vd:
                self.local_vars = []
            defs.append(f"fragment {nm}{vd} on {r.choice(['T', 'Q'])}{self.directives()} {self.selset(1)}")
        if not defs:
            defs.append("{ f }")
        r.shuffle(defs)
        return "\n".join(defs)


CORPUS = [
    # self-cycle, mutual cycle reached from two roots, long cycle with a tail, duplicate fragment names (last wins)
    "fragment A on T { ...A } { ...A }",
    "query Q { ...A ...B } fragment A on T { ...B } fragment B on T { ...A ...C } fragment C on T { ...A ...C }",
    "fragment A on T { x { ...B } ...C } fragment B on T { ...C } fragment C on T { y { ...A } } fragment D on T { ...A ...D ...U }",
    "fragment A on T { ...B } fragment A on T { ...A } fragment B on T { ...A } { ...A }",
    "{ a } { b } query Q { c } query Q { d } query R { e }",
    "query Q($a: Int, $a: Int, $b: Int, $a: Int) { f(x: $a, x: $b, y: {k: 1, k: {k: 2, l: 3, k: $c}, k: 4}) @skip(if: $a, if: $b) ...F } fragment F on T { g(x: $b, y: $d) } query R($d: Int) { ...F ...G }",
    "fragment F on T { f(x: $v) } query A($v: Int) { ...F } query B { ...F } query C($u: Int) { g }",
    "fragment U on T { f } fragment V on T { ...U } { f }",
    "{ x { y { ...A } ... on T { ...B } } ...C } fragment A on T { f } fragment B on T { f } fragment C on T { f }",
]
FRAG_ARG_CORPUS = [
    "fragment F($x: Int, $y: Int, $x: Int) on T { f(a: $x, b: $w) } query Q($w: Int, $u: Int) { ...F(x: $u, x: 1) }",
    "fragment F($x: Int) on T { f(a: $x) } fragment F($y: Int) on T { f(a: $x, b: $y) } query Q { ...F(x: 1) }",
]
