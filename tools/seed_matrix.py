"""Runs every confirmed seeded change under /verif/seeded against the check of its property
(scratch worktree of /repo HEAD + patch, VERIF_REPO) and writes seeded/RESULTS.json / RESULTS.md."""
import json, os, re, subprocess, sys, time
from pathlib import Path

V = Path(__file__).resolve().parent.parent
seeds = sorted(p.name for p in (V / "seeded").iterdir() if (p / "patch.diff").exists())
only = sys.argv[1:]
res = json.loads((V / "seeded/RESULTS.json").read_text()) if (V / "seeded/RESULTS.json").exists() else {}
for s in seeds:
    if only and s not in only and s.split("_")[0] not in only:
        continue
    t = time.time()
    p = subprocess.run([str(V / "tools/seed_eval.sh"), s, "quick"], capture_output=True, text=True)
    line = [l for l in p.stdout.splitlines() if l.startswith(s)]
    line = line[-1] if line else p.stdout[-300:]
    m = re.search(r"exit=(\d+)", line)
    code = int(m.group(1)) if m else -1
    nf = "no-failing-input-found" in line
    meta = json.loads((V / "seeded" / s / "meta.json").read_text())
    res[s] = {"property": s.split("_")[0], "exit": code, "caught": code == 1,
              "how": ("correspondence/proof break, no failing input found" if nf else "failing input (replay)") if code == 1 else "MISSED" if code == 0 else "infrastructure",
              "breaks": meta.get("breaks"), "needs": meta.get("needs"), "files": meta.get("files"), "wall_s": round(time.time() - t, 1)}
    print(s, res[s]["how"], flush=True)
    (V / "seeded/RESULTS.json").write_text(json.dumps(res, indent=1))
lines = ["| seed | property | caught by `./check <property> --tier quick` | what it breaks (seeder's words) |", "|---|---|---|---|"]
for s in sorted(res):
    r = res[s]
    lines.append(f"| {s} | {r['property']} | {r['how']} | {str(r['breaks'])[:160]} |")
(V / "seeded/RESULTS.md").write_text("\n".join(lines) + "\n")
print(sum(1 for r in res.values() if r["caught"]), "of", len(res), "caught")
