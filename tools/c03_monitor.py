"""C03: field tree for the Lean model, event translation, and the trace monitor client."""
from __future__ import annotations

import json

from tools.c03_gen import collect
from tools.c03_loop import ABSTRACT, FIELDS, field_of
from tools.fw import Disagreement


class UnsupportedShape(Exception):
    pass


def type_gates(vs, base, variant, mask, modes):
    """Type resolution of an object value at a position of declared type `base`:
    (number of awaitables the position waits for, ok?, runtime type, number of awaitable
    predicates that are only tracked in the background)."""
    from tools.c03_loop import OBJECT_TYPES, possible_order

    ito_on = vs.get("ito_aw") is not None and vs["ito_aw"] in mask
    rt_on = vs.get("rt_aw") is not None and vs["rt_aw"] in mask
    tn, ito = vs.get("tn", "T"), vs.get("ito", True)

    def check(name):
        """is_type_of of the resolved type in complete_object_value: (gates, ok)"""
        mode = modes.get(name, "aw")
        if mode == "none":
            return 0, True
        return (1 if (mode == "aw" and ito_on) else 0), bool(tn == name and ito)

    if base in ABSTRACT:
        if variant == "A":
            g = 1 if rt_on else 0
            if tn not in OBJECT_TYPES:
                return g, False, None, 0
            g2, ok = check(tn)
            return g + g2, ok, tn, 0
        n_aw = 0
        found = None
        for name in possible_order(variant, modes, base):
            mode = modes.get(name, "aw")
            if mode == "none":
                continue
            pred = bool(tn == name and ito)
            if mode == "aw" and ito_on:
                n_aw += 1
            elif pred:
                # a synchronous predicate matches: earlier awaitable ones are only tracked
                g2, ok = check(name)
                return g2, ok, name, n_aw
        if n_aw and tn in OBJECT_TYPES and modes.get(tn, "aw") == "aw" and ito:
            found = tn
        if found is None:
            return n_aw, False, None, 0
        g2, ok = check(found)
        return n_aw + g2, ok, found, 0
    g2, ok = check(base)
    return g2, ok, base, 0


def node_for(case, mask, fname, vs, subsel, is_item, forced_gate=None):
    onn, is_list, inn, base = FIELDS[fname]
    nn = inn if is_item else onn
    own = forced_gate if forced_gate is not None else (1 if (vs.get("aw") is not None and vs["aw"] in mask) else 0)
    node = {"nn": nn, "g": own, "res": ("U",), "kids": [], "keys": []}
    t = vs["t"]
    if t == "raise":
        node["res"] = ("R",)
    elif t == "leaf":
        v = vs.get("v")
        if v is None:
            node["res"] = ("U",)
        elif base == "String" and (is_item or not is_list):
            node["res"] = ("L", int(v[1:]))
        else:
            raise UnsupportedShape("leaf at composite position")
    elif t == "list":
        if not is_list or is_item:
            raise UnsupportedShape("list at non-list position")
        aiter = vs.get("aiter") is not None and vs["aiter"] in mask
        node["res"] = ("C", 2 if aiter else 1)
        for n, it in enumerate(vs["items"]):
            node["kids"].append(node_for(case, mask, fname, it, subsel, True, 1 if aiter else None))
            node["keys"].append(n)
        if vs.get("iter_raise"):
            node["kids"].append({"nn": True, "g": 1 if aiter else 0, "res": ("R",), "kids": [], "keys": [], "pseudo": True})
            node["keys"].append(len(vs["items"]))
    elif t == "obj":
        if base == "String" or (is_list and not is_item):
            raise UnsupportedShape("object at leaf/list position")
        from tools.c03_loop import modes_of

        tg, ok, tn, nbg = type_gates(vs, base, case["variant"], mask, modes_of(case))
        node["g"] = own + tg
        node["bg"] = nbg
        if not ok:
            node["res"] = ("R",)
        else:
            node["res"] = ("C", 0)
            node["kids"], node["keys"] = forest_for(case, mask, subsel, vs, tn)
    return node


def forest_for(case, mask, sel, obj_vs, tn):
    kids, keys = [], []
    for rk, subsel in collect(sel, case["frags"], tn).items():
        fname = field_of(rk)
        vs = obj_vs["f"].get(rk) or {"t": "leaf", "v": None}
        kids.append(node_for(case, mask, fname, vs, subsel, False))
        keys.append(rk)
    return kids, keys


def build_tree(case, mask):
    root = "M" if case["op"] == "mutation" else "Q"
    kids, keys = forest_for(case, mask, case["sel"], case["data"], root)
    return {"nn": False, "g": 0, "res": ("C", 0), "kids": kids, "keys": keys}


def ser_node(n, out):
    out += ["N", "1" if n["nn"] else "0", str(n["g"])]
    out += [str(x) for x in n["res"]]
    out.append(str(len(n["kids"])))
    for k in n["kids"]:
        ser_node(k, out)


def ser_forest(root):
    out = ["F", str(len(root["kids"]))]
    for k in root["kids"]:
        ser_node(k, out)
    return " ".join(out)


def index_path(root, path):
    """response path -> index path below the root wrapper (prefix 0); None if unknown."""
    cur = root
    out = [0]
    for key in path:
        try:
            i = cur["keys"].index(key)
        except ValueError:
            return None
        out.append(i)
        cur = cur["kids"][i]
    return out


def node_at(root, path):
    cur = root
    for key in path:
        try:
            cur = cur["kids"][cur["keys"].index(key)]
        except ValueError:
            return None
    return cur


def response_path(root, ipath):
    cur = root
    out = []
    for i in ipath[1:]:
        out.append(cur["keys"][i])
        cur = cur["kids"][i]
    return out


def parse_val(s):
    toks = s.replace("(", " ( ").replace(")", " ) ").split()
    pos = 0

    def go():
        nonlocal pos
        t = toks[pos]
        pos += 1
        if t == "(":
            items = []
            while toks[pos] != ")":
                items.append(go())
            pos += 1
            return items
        if t == "_":
            return None
        return "x" + t[1:]

    return go()


def rebuild(node, val):
    """model value + tree -> JSON data of the response"""
    if val is None or isinstance(val, str):
        return val
    if node["res"] in (("C", 1), ("C", 2)):
        return [rebuild(k, v) for k, v in zip(node["kids"], val)]
    return {key: rebuild(k, v) for key, k, v in zip(node["keys"], node["kids"], val)}


class Monitor:
    """Buffers (tree, trace) lines for the compiled model and compares its verdict."""

    def __init__(self, driver):
        self.driver = driver
        self.lines = []
        self.meta = []
        self.skipped = 0

    def add(self, case, mask, schedule, events, res):
        from tools import c03_oracle as O

        try:
            root = build_tree(case, mask)
        except UnsupportedShape:
            self.skipped += 1
            return
        evs = []
        unknown = None
        # awaitable is_type_of results that the default type resolver only tracks in the
        # background (a synchronous predicate of a later type matched): not awaited by the node
        drop = set()
        seen_ito = {}
        for e in events:
            if e[0] == "H" and e[4] == "ito":
                node = node_at(root, e[3])
                if node is not None and node.get("bg", 0) > seen_ito.get(tuple(e[3]), 0):
                    drop.add(e[1])
                seen_ito[tuple(e[3])] = seen_ito.get(tuple(e[3]), 0) + 1
        for e in events:
            if e[0] in ("R", "C") and e[1] in drop:
                continue
            if e[0] == "S":
                p = index_path(root, e[1])
                kind = "S"
            elif e[0] in ("R", "C"):
                p = index_path(root, e[3])
                kind = e[0]
            elif e[0] == "D":
                evs.append("D")
                continue
            else:
                continue
            if p is None:
                unknown = list(e)
                break
            evs += [kind, ".".join(map(str, p))]
        inp = {"case": case, "mask": sorted(mask), "schedule": schedule}
        if unknown is not None:
            self.meta.append(("unknown", inp, unknown, root, res))
            self.lines.append("q F 0 |")
            return
        mode = "m" if case["op"] == "mutation" else "q"
        self.lines.append(f"{mode} {ser_forest(root)} | " + " ".join(evs))
        self.meta.append(("run", inp, events, root, res))

    def flush(self, rep, stats):
        from tools import c03_oracle as O

        if not self.lines:
            return
        outs = self.driver.run(self.lines)
        stats["monitored_traces"] = stats.get("monitored_traces", 0) + len(outs)
        stats["monitor_skipped"] = stats.get("monitor_skipped", 0) + self.skipped
        for (kind, inp, events, root, res), out in zip(self.meta, outs):
            if kind == "unknown":
                rep.disagreements.append(Disagreement("Proc-monitor", inp, {"event at a position the field tree does not have": events}, "no such node"))
                continue
            parts = [p.strip() for p in out.split("|")]
            if not out.startswith("ok"):
                rep.disagreements.append(Disagreement("Proc-monitor", inp, {"events": [list(e) for e in events if e[0] in "SRCD"][:80], "result": res}, out))
                continue
            stats["model_steps"] = stats.get("model_steps", 0) + int(parts[2])
            data = rebuild(root, parse_val(parts[0][3:]))
            spec = rebuild(root, parse_val(parts[4]))
            nul = sorted(json.dumps(response_path(root, [int(x) for x in p.split(".")])) for p in parts[1].split(";") if p)
            impl_nul = O.nulled_positions(res["data"], res["errors"])
            if json.dumps(data) != json.dumps(res["data"]) or json.dumps(spec) != json.dumps(res["data"]):
                rep.disagreements.append(Disagreement("Proc-final-data", inp, res, {"model": data, "den": spec}))
            elif nul != impl_nul or parts[1] != parts[5]:
                rep.disagreements.append(Disagreement("Proc-nulled-positions", inp, {"nulled": impl_nul, "result": res}, {"model": nul, "spec": parts[5]}))
        self.lines, self.meta = [], []
