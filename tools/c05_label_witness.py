import sys
sys.path.insert(0, "/tmp/build_b_c05/verif/tools")
import c05_direct as d
orig = d._Stream.__init__
def patched(self, sid, path, loop):
    orig(self, sid, path, loop)
    self.label = "1"          # the stream's label collides with the number of nested group 1
d._Stream.__init__ = patched
case = {"groups": [[0, -1, []], [1, 0, []]], "tasks": [[0, [0], 2, None]], "streams": [[5, []]],
        "work": {"g": [0], "t": [0], "s": [5]}, "history": []}
line, payloads, done = d.run_case(case)
print(line)
