"""T1 tables for C01: read parser.py / ast.py / directive_locations.py of the working tree with the
`ast` module (no import, so a broken tree still extracts) and rewrite
lean/Gql/Generated/ParserTables.lean.

Tables
  *MethodNames            the keyword -> method-name maps behind the parser's `getattr` dispatch
  valueLiteralMethods     TokenKind member name -> method name
  directiveLocations      `DirectiveLocation.__members__`
  operationTypes          values of `OperationType`
  parserMethods           every `def` of class `Parser`
  nodeClasses             every dataclass node class of ast.py: fields in `dataclasses.fields` order
                          (without `loc`) and, for each, whether it has a default
  nodeCtorCalls           every `XxxNode(kw=...)` call in parser.py: class + keyword names
"""
from __future__ import annotations

import ast
from pathlib import Path


class ExtractError(Exception):
    pass


def _lit_dict(node, what):
    """{str|TokenKind.X: str} with the one `**dict.fromkeys((..), v)` idiom supported."""
    if not isinstance(node, ast.Dict):
        raise ExtractError(f"{what}: not a dict literal")
    out = []
    for k, v in zip(node.keys, node.values):
        if k is None:  # ** expansion
            if (
                isinstance(v, ast.Call)
                and isinstance(v.func, ast.Attribute)
                and v.func.attr == "fromkeys"
                and isinstance(v.func.value, ast.Name)
                and v.func.value.id == "dict"
                and len(v.args) == 2
                and isinstance(v.args[0], (ast.Tuple, ast.List))
                and isinstance(v.args[1], ast.Constant)
            ):
                for e in v.args[0].elts:
                    if not (isinstance(e, ast.Constant) and isinstance(e.value, str)):
                        raise ExtractError(f"{what}: unsupported fromkeys key")
                    out.append((e.value, v.args[1].value))
                continue
            if isinstance(v, ast.Dict):
                out += _lit_dict(v, what)
                continue
            raise ExtractError(f"{what}: unsupported ** expansion")
        if isinstance(k, ast.Constant) and isinstance(k.value, str):
            key = k.value
        elif isinstance(k, ast.Attribute) and isinstance(k.value, ast.Name) and k.value.id == "TokenKind":
            key = k.attr
        else:
            raise ExtractError(f"{what}: unsupported key {ast.dump(k)}")
        if not (isinstance(v, ast.Constant) and isinstance(v.value, str)):
            raise ExtractError(f"{what}: unsupported value")
        out.append((key, v.value))
    # later keys override earlier ones (dict semantics), keep first position
    seen = {}
    for k, v in out:
        seen[k] = v
    return list(seen.items())


def _enum_members(tree, cls_name, what):
    for node in tree.body:
        if isinstance(node, ast.ClassDef) and node.name == cls_name:
            names, values = [], []
            for st in node.body:
                if isinstance(st, ast.Assign) and len(st.targets) == 1 and isinstance(st.targets[0], ast.Name):
                    names.append(st.targets[0].id)
                    values.append(st.value.value if isinstance(st.value, ast.Constant) else None)
            return names, values
    raise ExtractError(f"{what}: class {cls_name} not found")


def _node_classes(tree):
    """{class: [(field, has_default)]} in dataclasses.fields() order, for classes decorated @node_class."""
    classes = {}
    for node in tree.body:
        if isinstance(node, ast.ClassDef):
            classes[node.name] = node
    cache = {}

    def fields_of(name):
        if name in cache:
            return cache[name]
        node = classes.get(name)
        if node is None:
            return {}
        fs = {}
        # dataclass: bases in reverse MRO order; single inheritance chains here, multiple bases handled left-to-right reversed
        for b in reversed(node.bases):
            if isinstance(b, ast.Name) and b.id in classes:
                for k, v in fields_of(b.id).items():
                    fs[k] = v
        is_node = any(
            (isinstance(d, ast.Name) and d.id == "node_class") for d in node.decorator_list
        )
        if is_node:
            for st in node.body:
                if isinstance(st, ast.AnnAssign) and isinstance(st.target, ast.Name):
                    ann = ast.unparse(st.annotation)
                    if ann.startswith("ClassVar"):
                        continue
                    # dataclass reads the default with getattr(cls, name): an inherited default survives
                    fs[st.target.id] = (st.value is not None) or fs.get(st.target.id, False)
        cache[name] = fs
        return fs

    out = []
    for name, node in classes.items():
        if any(isinstance(d, ast.Name) and d.id == "node_class" for d in node.decorator_list):
            fs = fields_of(name)
            if "loc" in fs or name == "Node":
                out.append((name, [(k, d) for k, d in fs.items() if k != "loc"]))
    return out


def tables(repo: Path):
    lang = repo / "src" / "graphql" / "language"
    ptree = ast.parse((lang / "parser.py").read_text())
    atree = ast.parse((lang / "ast.py").read_text())
    dtree = ast.parse((lang / "directive_locations.py").read_text())
    parser_cls = None
    for node in ptree.body:
        if isinstance(node, ast.ClassDef) and node.name == "Parser":
            parser_cls = node
    if parser_cls is None:
        raise ExtractError("class Parser not found")
    maps = {}
    methods = []
    for st in parser_cls.body:
        if isinstance(st, (ast.FunctionDef, ast.AsyncFunctionDef)):
            methods.append(st.name)
        tgt = val = None
        if isinstance(st, ast.AnnAssign) and isinstance(st.target, ast.Name) and st.value is not None:
            tgt, val = st.target.id, st.value
        elif isinstance(st, ast.Assign) and len(st.targets) == 1 and isinstance(st.targets[0], ast.Name):
            tgt, val = st.targets[0].id, st.value
        if tgt and tgt.startswith("_parse_") and tgt.endswith("_method_names"):
            maps[tgt] = _lit_dict(val, tgt)
    want = [
        "_parse_type_system_definition_method_names",
        "_parse_executable_definition_method_names",
        "_parse_other_definition_method_names",
        "_parse_type_extension_method_names",
        "_parse_value_literal_method_names",
    ]
    for w in want:
        if w not in maps:
            raise ExtractError(f"dispatch table {w} not found in class Parser")
    # the getattr format strings: every `getattr(self, f"parse_{...}")` must have the prefix "parse_"
    prefixes = set()
    for node in ast.walk(parser_cls):
        if isinstance(node, ast.Call) and isinstance(node.func, ast.Name) and node.func.id == "getattr":
            if len(node.args) >= 2 and isinstance(node.args[1], ast.JoinedStr):
                js = node.args[1]
                lead = js.values[0].value if js.values and isinstance(js.values[0], ast.Constant) else ""
                tail_ok = len(js.values) == 2 and isinstance(js.values[1], ast.FormattedValue)
                prefixes.add(lead if tail_ok else "<unsupported>")
            else:
                prefixes.add("<unsupported>")
    ctor_calls = []
    for node in ast.walk(ptree):
        if isinstance(node, ast.Call) and isinstance(node.func, ast.Name) and node.func.id.endswith("Node"):
            if node.args or any(k.arg is None for k in node.keywords):
                kws = ["<positional-or-star>"]
            else:
                kws = [k.arg for k in node.keywords]
            ctor_calls.append((node.func.id, kws))
    ctor_calls = sorted(set((c, tuple(k)) for c, k in ctor_calls))
    loc_names, _ = _enum_members(dtree, "DirectiveLocation", "directive_locations.py")
    _, op_values = _enum_members(atree, "OperationType", "ast.py")
    return {
        "maps": {w: maps[w] for w in want},
        "methods": methods,
        "getattr_prefixes": sorted(prefixes),
        "ctor_calls": ctor_calls,
        "node_classes": _node_classes(atree),
        "directive_locations": loc_names,
        "operation_types": [v for v in op_values if isinstance(v, str)],
    }


def _s(x: str) -> str:
    return '"' + x.replace("\\", "\\\\").replace('"', '\\"') + '"'


def _pairs(ps):
    return "[" + ", ".join(f"({_s(a)}, {_s(b)})" for a, b in ps) + "]"


def _strs(xs):
    return "[" + ", ".join(_s(x) for x in xs) + "]"


def render(t) -> str:
    m = t["maps"]
    lines = [
        "/- GENERATED by tools/c01_extract.py from src/graphql/language/{parser,ast,directive_locations}.py",
        "   of the working tree on every run of ./check C01.  Do not edit. -/",
        "namespace Gql.Generated.ParserTables",
        "",
        "def typeSystemDefinitionMethods : List (String × String) :=",
        "  " + _pairs(m["_parse_type_system_definition_method_names"]),
        "def executableDefinitionMethods : List (String × String) :=",
        "  " + _pairs(m["_parse_executable_definition_method_names"]),
        "def otherDefinitionMethods : List (String × String) :=",
        "  " + _pairs(m["_parse_other_definition_method_names"]),
        "def typeExtensionMethods : List (String × String) :=",
        "  " + _pairs(m["_parse_type_extension_method_names"]),
        "/-- `TokenKind` member name → method name -/",
        "def valueLiteralMethods : List (String × String) :=",
        "  " + _pairs(m["_parse_value_literal_method_names"]),
        "/-- constant prefixes of the f-strings passed to `getattr(self, ...)` -/",
        "def getattrPrefixes : List String := " + _strs(t["getattr_prefixes"]),
        "def directiveLocations : List String :=",
        "  " + _strs(t["directive_locations"]),
        "def operationTypes : List String := " + _strs(t["operation_types"]),
        "/-- every `def` of class `Parser` -/",
        "def parserMethods : List String :=",
        "  " + _strs(t["methods"]),
        "/-- node dataclasses of ast.py: fields in `dataclasses.fields` order without `loc`; `true` = has a default -/",
        "def nodeClasses : List (String × List (String × Bool)) := [",
    ]
    rows = []
    for name, fs in t["node_classes"]:
        rows.append(
            f"  ({_s(name)}, ["
            + ", ".join(f"({_s(k)}, {'true' if d else 'false'})" for k, d in fs)
            + "])"
        )
    lines.append(",\n".join(rows) + "]")
    lines.append("/-- every `XxxNode(kw=…)` call in parser.py: class and keyword names -/")
    lines.append("def nodeCtorCalls : List (String × List String) := [")
    lines.append(",\n".join(f"  ({_s(c)}, {_strs(k)})" for c, k in t["ctor_calls"]) + "]")
    lines.append("")
    lines.append("end Gql.Generated.ParserTables")
    return "\n".join(lines) + "\n"


def extract(repo: Path, lean: Path):
    out = lean / "Gql" / "Generated" / "ParserTables.lean"
    text = render(tables(Path(repo)))
    old = out.read_text() if out.exists() else None
    if old != text:
        out.parent.mkdir(parents=True, exist_ok=True)
        out.write_text(text)
        return [str(out.relative_to(lean))]
    return []
