"""C03 — async iterators whose items are an arbitrary mix of plain values, awaitables and failing awaitables.

The monitored streams of the check give async-iterator lists plain items only (the Proc model has one handle per
iterator step).  This stream covers the remaining part of the clause "every mix of synchronous and awaitable results,
including list items and async iterators, yields the same data as synchronous execution" as a metamorphic relation on
the implementation: for every sync/awaitable pattern of the items of an async-iterator list (n <= 4, scalar and object
items, nullable and non-null item types, an optional failing item) and every release order of the awaitables, the
response data and the set of error paths equal those of `execute_sync` over the same data given as a plain list."""
from __future__ import annotations

import asyncio
import itertools

from tools.fw import Failure


def _schema():
    from graphql import GraphQLField, GraphQLInt, GraphQLList, GraphQLNonNull, GraphQLObjectType, GraphQLSchema, GraphQLString

    item = GraphQLObjectType("Item", {"id": GraphQLField(GraphQLInt), "must": GraphQLField(GraphQLNonNull(GraphQLInt))})
    q = GraphQLObjectType(
        "Query",
        {
            "nums": GraphQLField(GraphQLList(GraphQLInt)),
            "numsNN": GraphQLField(GraphQLList(GraphQLNonNull(GraphQLInt))),
            "items": GraphQLField(GraphQLList(item)),
            "itemsNN": GraphQLField(GraphQLList(GraphQLNonNull(item))),
            "tail": GraphQLField(GraphQLString),
        },
    )
    return GraphQLSchema(q)


class _Boom(Exception):
    pass


def _value(field, i, fail):
    if field.startswith("nums"):
        return _Boom(f"item {i}") if fail else 10 + i
    return {"id": i, "must": None if fail else 7}


def _canon(res):
    errs = sorted(tuple(e.path or ()) for e in (res.errors or []))
    return res.data, errs


def run(rep, thorough=False):
    from graphql import execute, execute_sync, parse

    schema = _schema()
    nmax = 4
    loop = asyncio.new_event_loop()
    try:
        for field, sel in (("nums", "nums"), ("numsNN", "numsNN"), ("items", "items { id must }"), ("itemsNN", "itemsNN { id must }")):
            doc = parse("{ %s tail }" % sel)
            for n in range(1, nmax + 1):
                for fail_at in [None, *range(n)]:
                    values = [_value(field, i, fail_at == i) for i in range(n)]
                    want = _canon(execute_sync(schema, doc, {field: values, "tail": "t"}))
                    for pattern in itertools.product((False, True), repeat=n):
                        aw = [i for i in range(n) if pattern[i]]
                        orders = list(itertools.permutations(aw))
                        if len(orders) > 6 and not thorough:
                            orders = orders[:: len(orders) // 6][:6]
                        for order in orders:
                            got = _one(loop, execute, schema, doc, field, values, pattern, order)
                            rep.evaluations += 1
                            rep.stats["aiter_mix_runs"] = rep.stats.get("aiter_mix_runs", 0) + 1
                            if got != want:
                                rep.failures.append(Failure(
                                    "aiter-item-mix", "an async iterator yielding a mix of plain and awaitable items gives a different response than the synchronous list",
                                    {"field": field, "items": n, "failing_item": fail_at, "awaitable": list(pattern), "release_order": list(order)},
                                    repr(got)[:300], repr(want)[:300], "C03 schedule_independent / agrees_with_synchronous (list items of async iterators)"))
                                rep.nontrivial += 0
        rep.nontrivial += 1
    finally:
        loop.close()


def _one(loop, execute, schema, doc, field, values, pattern, order):
    futs = {}

    async def main():
        for i, is_aw in enumerate(pattern):
            if is_aw:
                futs[i] = loop.create_future()

        async def agen():
            for i, v in enumerate(values):
                if pattern[i]:
                    yield futs[i]
                else:
                    yield v

        res = execute(schema, doc, {field: agen(), "tail": "t"})
        task = asyncio.ensure_future(res) if asyncio.iscoroutine(res) or asyncio.isfuture(res) else None
        if task is None:
            return res
        for _ in range(50):
            await asyncio.sleep(0)
        for i in order:
            v = values[i]
            if not futs[i].done():
                if isinstance(v, Exception):
                    futs[i].set_exception(v)
                else:
                    futs[i].set_result(v)
            for _ in range(20):
                await asyncio.sleep(0)
        for f in futs.values():  # anything the executor no longer waits for
            if not f.done():
                f.cancel()
        return await asyncio.wait_for(task, 5)

    try:
        res = loop.run_until_complete(main())
    except Exception as e:  # noqa: BLE001
        return ("raised", type(e).__name__)
    for f in futs.values():
        if f.done() and not f.cancelled():
            f.exception()  # mark retrieved
    return _canon(res)
