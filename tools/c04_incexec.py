"""C04 — correspondence of the denotational executor model `Gql.Async.IncExec` (Lean) with
`experimental_execute_incrementally` on error-free `@defer` requests over synchronous data.

Cases come from C02's type-directed generators (schema with arguments, aliases, @skip/@include,
variables, named / inline fragments, interfaces and unions; conforming data graphs) with `@defer`
(labelled or not, `if:` true / false) put on inline fragments and fragment spreads.

For every case
  * the implementation is run (sync resolvers; the payload stream is drained on an event loop) and
    read as  (initial data, [(pending[id].path + subPath, data) of every incremental entry]);
  * the Lean model is run through the driver (`incexec`): initial data, the list of pieces, and the
    Lean-side checks  wf / asm (the pieces fold to the cut's reference) / ref (that reference is the
    specification's response to the document without `@defer`);
  * compared: initial data exactly (key order included), pieces as a multiset of (path, data) with
    key order included, and the model's "out of class" answer (`none`) against the presence of
    errors / floats in the implementation's non-incremental response.
The property oracle on the implementation: folding the delivered pieces into the initial data
(done here in the order delivered, with a merge that refuses to overwrite) must give the
non-incremental response of the document without `@defer`.
"""
from __future__ import annotations

import asyncio
import json
import random

from tools import c02_gen as G2
from tools import c04_gen as G4
from tools import fw
from tools.fw import Disagreement, Failure, Report

KNOWN_PRUNE_FP = "workqueue-prunes-promoted-group-with-undelivered-shared-task"
DEFER_SDL = "directive @defer(if: Boolean! = true, label: String) on FRAGMENT_SPREAD | INLINE_FRAGMENT\n"


# ----------------------------------------------------------------------------- generation


def _add_defers(rng, sels, p, counter, bool_vars):
    out = []
    for s in sels:
        if s[0] == "field":
            _, alias, name, args, dirs, sub = s
            out.append(("field", alias, name, args, dirs, _add_defers(rng, sub, p, counter, bool_vars)))
        elif s[0] == "inline":
            _, cond, dirs, sub = s
            out.append(("inline", cond, list(dirs) + _defer_dir(rng, p, counter, bool_vars), _add_defers(rng, sub, p, counter, bool_vars)))
        else:
            out.append(("spread", s[1], list(s[2]) + _defer_dir(rng, p, counter, bool_vars)))
    return out


def _defer_dir(rng, p, counter, bool_vars):
    if rng.random() >= p:
        return []
    args = []
    r = rng.random()
    if r < 0.12:
        args.append(("if", ("b", False)))
    elif r < 0.2:
        args.append(("if", ("b", True)))
    if rng.random() < 0.6:
        counter[0] += 1
        args.append(("label", ("s", f"L{counter[0]}")))
    if rng.random() < 0.3:
        args.reverse()
    return [("defer", args)]


def _wrap_some(rng, sels, p):
    """wrap runs of selections into plain inline fragments (so that there is something to defer)"""
    out = []
    for s in sels:
        if s[0] == "field":
            _, alias, name, args, dirs, sub = s
            s = ("field", alias, name, args, dirs, _wrap_some(rng, sub, p) if sub else sub)
        elif s[0] == "inline":
            s = ("inline", s[1], s[2], _wrap_some(rng, s[3], p))
        if rng.random() < p:
            out.append(("inline", None, [], [s]))
        else:
            out.append(s)
    return out


def make_case(seed_text):
    """-> JSON-able case {sdl, text, op, vars, data, seed} or None"""
    from graphql import assert_valid_schema, build_schema

    rng = random.Random(seed_text)
    for _ in range(20):
        info = G2.gen_schema(rng, "c02")
        sdl = G2.schema_sdl(info)
        try:
            assert_valid_schema(build_schema(sdl))
            break
        except Exception:  # noqa: BLE001
            continue
    else:
        raise fw.InfraError("schema generator failed 20 times")
    d = G2.gen_document(rng, info, invalid=False, profile="c02")
    p = rng.choice([0.25, 0.45, 0.7])
    pw = rng.choice([0.0, 0.15, 0.3])
    counter = [0]
    for op in d["ops"]:
        op["sels"] = _add_defers(rng, _wrap_some(rng, op["sels"], pw), p, counter, [])
    for f in d["frags"]:
        f["sels"] = _add_defers(rng, _wrap_some(rng, f["sels"], pw), p, counter, [])
    op = rng.choice(d["ops"])
    if len(d["ops"]) == 1:
        op_name = op["name"] if (op["name"] and rng.random() < 0.5) else None
    else:
        op_name = op["name"]
    root_t = info["mutation"] if op["kind"] == "mutation" else info["query"]
    data = G2.gen_data(rng, info, G2.T(root_t, True), "conforming", 0, 0.0, max_depth=rng.choice([3, 4, 5]))
    raw = G2.gen_variables(rng, info, op, "valid")
    return {"sdl": sdl, "text": G2.doc_text(d).replace("@defer()", "@defer"), "op": op_name, "vars": raw, "data": data, "seed": seed_text, "n_defer": counter[0]}


# ----------------------------------------------------------------------------- implementation


def _strip_defer(document):
    """the same document without @defer directives (AST copy)"""
    from graphql.language import ast as A
    from graphql.language import visit, Visitor

    class V(Visitor):
        def enter_directive(self, node, *_a):  # noqa: ANN001
            if node.name.value == "defer":
                return self.REMOVE
            return None

    return visit(document, V())


def _contains_float(v):
    if isinstance(v, float):
        return True
    if isinstance(v, dict):
        return any(_contains_float(x) for x in v.values())
    if isinstance(v, list):
        return any(_contains_float(x) for x in v)
    return False


async def _drain(res):
    out = []
    async for p in res.subsequent_results:
        out.append(p.formatted)
    return out


def run_impl(case, early=False):
    """-> dict(kind=plain|incremental|raised, initial, errors, pieces[(path,data)], payloads)"""
    from checks import c02 as C2
    from graphql import build_schema, parse
    from graphql.execution import experimental_execute_incrementally
    from graphql.execution import ExperimentalIncrementalExecutionResults as Inc

    C2._POOL = C2.exception_pool()  # noqa: SLF001
    schema = build_schema(DEFER_SDL + case["sdl"])
    document = parse(case["text"])
    log = []
    fr, tr = C2.make_resolvers(log)
    root = C2.materialise(case["data"])

    async def go():
        res = experimental_execute_incrementally(
            schema, document, root, variable_values=case["vars"], operation_name=case["op"], field_resolver=fr, type_resolver=tr,
            enable_early_execution=early,
        )
        if asyncio.iscoroutine(res) or asyncio.isfuture(res) or hasattr(res, "__await__"):
            res = await res
        if isinstance(res, Inc):
            initial = res.initial_result.formatted
            rest = await _drain(res)
            return "incremental", initial, rest
        return "plain", res.formatted, []

    from tools import c04_loop as L

    L._install_recorder()  # noqa: SLF001  (records WorkQueue._prune_empty_groups from the outside, no behaviour change)
    pruned = []
    L._PRUNE_SINK = pruned  # noqa: SLF001
    loop = asyncio.new_event_loop()
    try:
        kind, initial, rest = loop.run_until_complete(go())
    finally:
        L._PRUNE_SINK = None  # noqa: SLF001
        loop.run_until_complete(loop.shutdown_asyncgens())
        loop.close()
    pending = {}
    pieces = []
    announced = []  # per piece: (path, label) of the pending entry whose id the piece carries
    errors = list(initial.get("errors") or [])
    problems = []
    for p in [initial] + rest:
        for pe in p.get("pending") or []:
            pending[pe["id"]] = pe
        for e in p.get("incremental") or []:
            errors += list(e.get("errors") or [])
            if "data" not in e:
                problems.append("stream entry")
                continue
            pe = pending.get(e["id"])
            if pe is None:
                problems.append("unknown id")
                continue
            pieces.append((list(pe["path"]) + list(e.get("subPath") or []), e["data"]))
            announced.append((list(pe["path"]), pe.get("label")))
        for c in p.get("completed") or []:
            errors += list(c.get("errors") or [])
    return {"kind": kind, "initial": initial.get("data"), "errors": errors, "pieces": pieces, "payloads": [initial] + rest, "problems": problems, "announced": announced, "pruned": pruned}


def run_reference(case):
    from checks import c02 as C2
    from graphql import build_schema, execute_sync, parse

    C2._POOL = C2.exception_pool()  # noqa: SLF001
    schema = build_schema(case["sdl"])
    document = _strip_defer(parse(case["text"]))
    log = []
    fr, tr = C2.make_resolvers(log)
    root = C2.materialise(case["data"])
    res = execute_sync(schema, document, root, variable_values=case["vars"], operation_name=case["op"], field_resolver=fr, type_resolver=tr)
    return res.data, list(res.errors or [])


def fold(initial, pieces):
    """the format's merge, refusing to overwrite -> (data, problem|None, target of the rejected piece|None)"""
    data = json.loads(json.dumps(initial))
    for path, add in pieces:
        cur = data
        for s in path:
            try:
                cur = cur[s]
            except (KeyError, IndexError, TypeError):
                return data, f"target-missing {path}", path
        if not isinstance(cur, dict):
            return data, f"not-an-object {path}", path
        for k, v in add.items():
            if k in cur:
                return data, f"key-overwritten {path} {k}", path
            cur[k] = json.loads(json.dumps(v))
    return data, None, None


# ----------------------------------------------------------------------------- driver line


def driver_line(case):
    from checks import c02 as C2
    from graphql import parse

    document = parse(case["text"])
    schema_sx = G2.schema_sx_from_sdl(case["sdl"])
    doc_sx = G2.ast_doc_sx(document)
    vars_sx = "(rawvars" + "".join(f" ({k} {G2.pyval_sx(v)})" for k, v in case["vars"].items()) + ")"
    data_sx = G2.data_sx(C2._guards_plain(case["data"]))  # noqa: SLF001
    return f"incexec (case {schema_sx} (req {doc_sx} {case['op'] or '-'} {vars_sx} {data_sx}))"


def toks(v):
    return " ".join(G4.tok(v, []))


def parse_out(out):
    """-> dict(kind=ok|none|varerror|bad, flags, initial, spec, pieces[(path toks, data toks)])"""
    if out.startswith("none"):
        head, spec = out.split(" | ", 1)
        return {"kind": "none", "specerrs": int(head.split()[1]), "spec": spec.strip()}
    if out.startswith("ok "):
        parts = out.split(" | ")
        flags = dict(w.split("=") for w in parts[0].split()[1:])
        pieces = []
        tail = parts[3].strip() if len(parts) > 3 else ""
        if tail:
            for pc in tail.split(" ; "):
                ws = pc.split()
                val = G4.untok(ws[1:])  # path only; the rest follows
                # re-tokenise: path is the first value, data the second
                n = len(G4.tok(val, []))
                pieces.append((" ".join(ws[1 : 1 + n]), " ".join(ws[1 + n :])))
        anns = None
        if len(parts) > 4 and parts[4].strip() != "noann":
            anns = [G4.untok(a.split()) for a in parts[4].strip().split(" ; ")] if parts[4].strip() else []
        return {"kind": "ok", "flags": flags, "initial": parts[1].strip(), "spec": parts[2].strip(), "pieces": pieces, "anns": anns}
    if out.startswith("varerror"):
        return {"kind": "varerror"}
    return {"kind": "bad", "raw": out}


# ----------------------------------------------------------------------------- one chunk


def _D(inp, model, impl, component):
    return Disagreement(component, inp, impl, model)


def check_case(case, out, rep):
    st = rep.stats

    def bump(k, n=1):
        st[k] = st.get(k, 0) + n

    m = parse_out(out)
    if m["kind"] == "bad":
        raise fw.InfraError(f"incexec driver rejected input: {m['raw'][:200]}")
    if m["kind"] == "varerror":
        bump("incexec_varerror")
        return
    ref_data, ref_errors = run_reference(case)
    rep.evaluations += 1
    for early in (False, True):
        impl = run_impl(case, early)
        inp = {"incexec_case": case, "early": early}
        clean = not ref_errors and not impl["errors"] and not _contains_float(ref_data)
        # ---- property oracle on the implementation (error-free reference): pieces fold to the reference
        if not ref_errors and not impl["errors"]:
            asm, problem, target = fold(impl["initial"], impl["pieces"])
            if problem is not None or asm != ref_data:
                fp = "incexec-" + (problem.split()[0] if problem else "assembled-differs")
                if problem and problem.startswith("target-missing"):
                    # the known work-queue finding (see checks/c04.py `_fingerprint`): observed in this very run,
                    # and the rejected piece targets data that the pruned group's undelivered task produces
                    for ev in impl["pruned"]:
                        for prod in ev.get("produced", ()):
                            if list(target[: len(prod)]) == list(prod):
                                fp = KNOWN_PRUNE_FP
                rep.failures.append(
                    Failure(
                        fp,
                        "the delivered pieces do not reassemble to the non-incremental response",
                        inp,
                        {"assembled": asm, "problem": problem, "work_queue_pruned_with_undelivered_task": impl["pruned"], "payloads": impl["payloads"]},
                        {"reference_data": ref_data},
                        "relation stated by the property (merge of the delivery format, refusing to overwrite)",
                    )
                )
                continue
        if m["kind"] == "none":
            bump("incexec_out_of_class")
            if clean:
                rep.disagreements.append(_D(inp, "model: out of class (an error would be raised)", {"initial": impl["initial"], "pieces": impl["pieces"]}, "incexec"))
            continue
        # model ok
        fl = m["flags"]
        if fl.get("wf") != "1" or fl.get("asm") != "1":
            rep.disagreements.append(_D(inp, f"model cut not well formed / does not fold: {fl}", None, "incexec-lean-selfcheck"))
            continue
        if fl.get("ref") != "1" or fl.get("specerrs") != "0":
            rep.disagreements.append(_D(inp, f"model reference differs from Spec.executeRequest on the stripped document: {fl}", {"spec": m["spec"]}, "incexec-ref-vs-spec"))
            continue
        if not clean:
            rep.disagreements.append(_D(inp, "model: error-free", {"reference_errors": [str(e) for e in ref_errors], "incremental_errors": impl["errors"]}, "incexec-errors"))
            continue
        if impl["problems"]:
            rep.disagreements.append(_D(inp, "model: defer entries with announced ids only", impl["problems"], "incexec-payloads"))
            continue
        if G4.untok(m["spec"].split()) != ref_data:
            rep.disagreements.append(_D(inp, {"spec_data": G4.untok(m["spec"].split())}, {"reference_data": ref_data}, "incexec-spec-vs-reference"))
            continue
        if toks(impl["initial"]) != m["initial"]:
            rep.disagreements.append(_D(inp, {"initial": G4.untok(m["initial"].split())}, {"initial": impl["initial"]}, "incexec-initial"))
            continue
        got = sorted((toks(p), toks(d)) for p, d in impl["pieces"])
        want = sorted(m["pieces"])
        if got != want:
            rep.disagreements.append(
                _D(inp, {"pieces": [(G4.untok(p.split()), G4.untok(d.split())) for p, d in want]}, {"pieces": impl["pieces"]}, "incexec-pieces")
            )
            continue
        # delivery groups: the id an entry carries must be announced with path and label of one of the
        # delivery groups the model assigns to that execution group
        anns = m.get("anns")
        if anns is None or len(anns) != len(m["pieces"]):
            rep.disagreements.append(_D(inp, {"delivery_groups": anns}, {"pieces": impl["pieces"]}, "incexec-groups-missing"))
            continue
        table = {}
        for (ptoks, dtoks), ann in zip(m["pieces"], anns):
            table[(ptoks, dtoks)] = ann
        bad = None
        for (pth, d), (gpath, glabel) in zip(impl["pieces"], impl["announced"]):
            ann = table.get((toks(pth), toks(d)))
            if ann is None or ann[0] != pth or [gpath, glabel] not in ann[1]:
                bad = {"piece": [pth, d], "announced": [gpath, glabel], "model": ann}
                break
        if bad is not None:
            rep.disagreements.append(_D(inp, {"delivery_groups_of_piece": bad["model"]}, bad, "incexec-groups"))
            continue
        if not early:
            bump("incexec_agree")
            bump("incexec_multi_group_pieces", sum(1 for a in anns if len(a[1]) > 1))
            bump("incexec_labelled_groups", sum(1 for a in anns for g in a[1] if g[1] is not None))
            npieces = len(impl["pieces"])
            bump("incexec_pieces_total", npieces)
            b = "incexec_pieces_%s" % (npieces if npieces < 4 else "4+")
            bump(b)
            depth = max([len(p) for p, _ in impl["pieces"]] + [0])
            if depth > 0:
                bump("incexec_nested_target")
            if npieces >= 1:
                rep.nontrivial += 1
                if len(rep.samples) < 2:
                    rep.samples.append({"incexec_query": case["text"], "pieces": impl["pieces"], "initial": impl["initial"]})


def work(args):
    seeds, drv = args
    fw.use_repo()
    rep = Report()
    cases, lines = [], []
    for s in seeds:
        case = s if isinstance(s, dict) else make_case(s)
        try:
            from graphql import build_schema, parse, validate

            if validate(build_schema(DEFER_SDL + case["sdl"]), parse(case["text"])):
                rep.stats["incexec_invalid_docs"] = rep.stats.get("incexec_invalid_docs", 0) + 1
                continue
            lines.append(driver_line(case))
        except ValueError:
            rep.stats["incexec_outside_harness_domain"] = rep.stats.get("incexec_outside_harness_domain", 0) + 1
            continue
        cases.append(case)
    if not drv:
        return rep
    outs = fw.Driver(drv).run(lines)
    for case, out in zip(cases, outs):
        check_case(case, out, rep)
    return rep


# ----------------------------------------------------------------------------- hand-written cases (always run first)

_SDL = """
interface Node { id: ID }
type Z implements Node { id: ID s: String }
type A implements Node { id: ID n: Int s: String peer: A list: [A] any: Node }
type Query { a: A b: A s: String n: Int nodes: [Node] }
"""


def _leaf(t, v):
    return {"k": "leaf", "t": t, "v": v}


def _a(depth):
    es = [["id", None, _leaf("str", f"i{depth}")], ["n", None, _leaf("int", depth)], ["s", None, _leaf("str", "x")]]
    if depth < 3:
        es.append(["peer", None, _a(depth + 1)])
        es.append(["any", None, _a(depth + 1)])
        es.append(["list", None, {"k": "list", "items": [_a(depth + 1), _a(depth + 2)]}])
    return {"k": "obj", "tn": "A", "entries": es}


_ROOT = {
    "k": "obj",
    "tn": "Query",
    "entries": [["a", None, _a(0)], ["b", None, _a(1)], ["s", None, _leaf("str", "r")], ["n", None, _leaf("int", 9)],
                ["nodes", None, {"k": "list", "items": [_a(1), _a(2)]}]],
}

_QUERIES = [
    # nested defers, labelled and anonymous
    '{ s ... @defer(label: "L") { n a { id ... @defer { s peer { id } } n } } }',
    # the same field in the initial result and in a fragment: nothing is delivered for it
    '{ a { id } ... @defer(label: "L") { a { id } } }',
    # overlapping fragments sharing a field whose subfields differ
    '{ ... @defer(label: "X") { a { id n } } ... @defer(label: "Y") { a { id s } } }',
    # a fragment spread deferred, then not deferred, then deferred again
    '{ a { ...F @defer(label: "one") id ...F ...F @defer(label: "two") } } fragment F on A { n peer { ...G @defer(label: "g") } } fragment G on A { s }',
    # list items each get their own execution group
    '{ a { list { id ... @defer { n peer { ... @defer(label: "deep") { s } id } } } } }',
    # if: false / true, variables
    'query Q($t: Boolean = true, $f: Boolean = false) { ... @defer(if: $f, label: "off") { s } ... @defer(if: $t, label: "on") { n } }',
    # abstract positions, non-matching condition
    '{ nodes { ... on A @defer(label: "A") { n any { ... on Node @defer { id } ... on Z @defer(label: "never") { s } } } id } }',
    # a fragment nested inside a sibling fragment shares a field with another fragment (C04_m1 shape)
    '{ ... @defer(label: "A") { s a { n } } ... @defer(label: "P") { n ... @defer(label: "B") { a { n s } } } }',
    # @skip/@include on deferred fragments and inside them
    '{ ... @defer(label: "k") @skip(if: true) { s } ... @include(if: true) @defer(label: "i") { n @skip(if: false) a @include(if: false) { id } } }',
    # defers only below the root
    '{ a { peer { ... @defer(label: "p") { id peer { ... @defer(label: "q") { n } s } } } } s }',
]

CORPUS = [{"sdl": _SDL, "text": q, "op": None, "vars": {}, "data": _ROOT, "seed": f"corpus-{i}"} for i, q in enumerate(_QUERIES)]
