#!/bin/bash
# usage: seed_confirm.sh <Cxx> <mK>   (reads /tmp/seed_<Cxx>/out/<mK>.diff, <mK>_demo.py, <mK>.json)
# Confirms in a scratch worktree: patch applies to /repo HEAD, full suite passes, demo exits 1 with / 0 without.
# On success copies into /verif/seeded/<Cxx>_<mK>/ (patch.diff, demo.py, meta.json).
P=$1; M=$2
# optional: $3 = source directory (default /tmp/seed_<P>/out), $4 = name to store it under (default <mK>)
OUT=${3:-/tmp/seed_$P/out}
T=${4:-$M}
W=/tmp/sc_${P}_$T
git -C /repo worktree remove --force $W 2>/dev/null
git -C /repo worktree add --detach $W HEAD >/dev/null 2>&1 || { echo "worktree failed"; exit 2; }
cd $W
if ! git apply $OUT/$M.diff; then echo "APPLY-FAIL $P $M"; git -C /repo worktree remove --force $W; exit 1; fi
PYTHONPATH=$W/src /venv/bin/python $OUT/${M}_demo.py $W/src >/tmp/sc_${P}_$M.with.log 2>&1; WITH=$?
/venv/bin/python $OUT/${M}_demo.py /repo/src >/tmp/sc_${P}_$M.without.log 2>&1; WITHOUT=$?
SUITE=$(PYTHONPATH=$W/src /venv/bin/python -m pytest -q -p no:cacheprovider -n 4 2>&1 | grep -E "^FAILED|passed|failed" | tr '\n' ' ')
if ! echo "$SUITE" | grep -q "3340 passed"; then
  # timing-sensitive async tests can fail under heavy machine load: retry once
  echo "first suite run: $SUITE"
  SUITE=$(PYTHONPATH=$W/src /venv/bin/python -m pytest -q -p no:cacheprovider -n 4 2>&1 | grep -E "^FAILED|passed|failed" | tr '\n' ' ')
fi
FLAKY="tests/benchmarks/test_introspection_from_schema.py::test_execute_introspection_query"
if echo "$SUITE" | grep -q "1 failed, 3339 passed" && echo "$SUITE" | grep -q "FAILED $FLAKY"; then
  # load-sensitive timing benchmark (pytest-timeout under heavy machine load): re-run it alone
  ALONE=$(PYTHONPATH=$W/src /venv/bin/python -m pytest -q -p no:cacheprovider "$FLAKY" 2>&1 | tail -1)
  if echo "$ALONE" | grep -q "1 passed"; then SUITE="3340 passed (3339 in the full run + the load-sensitive benchmark $FLAKY re-run alone: $ALONE)"; fi
fi
git -C /repo worktree remove --force $W
echo "$P $M demo_with=$WITH demo_without=$WITHOUT suite: $SUITE"
if [ "$WITH" = "1" ] && [ "$WITHOUT" = "0" ] && echo "$SUITE" | grep -q "3340 passed"; then
  D=/verif/seeded/${P}_$T; mkdir -p $D
  cp $OUT/$M.diff $D/patch.diff; cp $OUT/${M}_demo.py $D/demo.py
  /venv/bin/python - "$OUT/$M.json" "$D/meta.json" "$SUITE" <<'PY'
import json,sys
m=json.load(open(sys.argv[1]))
m["confirmed_by_coordinator"]={"applies_to_repo_head":True,"suite":sys.argv[3],"demo_exit_with_change":1,"demo_exit_without_change":0}
json.dump(m,open(sys.argv[2],"w"),indent=1)
PY
  echo "CONFIRMED $P $T"
else
  echo "REJECTED $P $T"
fi
