"""C01 oracle (c): `graphql_sync` on (source x variables x operation name x raising resolvers).

In scope (the property's quantifier): `source` any `str` (lone surrogates included), `variable_values` a
`dict` with `str` keys or `None`, `operation_name` a `str` or `None`, resolvers raising any `Exception`
subclass.  Out of scope: a non-dict `variable_values`, a non-`str` source, `BaseException`s that are not
`Exception`s (deliberately not caught by the library), a `GraphQLError` instance whose own attributes
were overwritten with ill-typed values after construction.

Everything here runs on the *implementation*; the response-format predicate itself is the Lean spec
(`Gql.Spec.wfResponse`) evaluated through the driver on `encode_json(result.formatted)`.
"""
from __future__ import annotations

import random
import re

# ----------------------------------------------------------------------------- exception zoo


def _zoo():
    from graphql import GraphQLError, Source
    from graphql.error import GraphQLSyntaxError
    from graphql.language import parse

    field_node = parse("{ zz }").definitions[0].selection_set.selections[0]

    class NoArgs(Exception):
        def __init__(self):
            super().__init__()

    class MsgInt(Exception):
        message = 5

    class ExtDict(Exception):
        extensions = {"code": "X"}

    class ExtInt(Exception):
        extensions = 5

    class Elastic(Exception):
        path = "/elastic/_search"

    class SrcInt(Exception):
        source = 5

    class PosBig(Exception):
        positions = [100]
        source = "abc"

    class SubGql(GraphQLError):
        pass

    class LazyMsg(Exception):
        class _L:
            def __str__(self):
                return "lazy"

        message = _L()

    def chained():
        try:
            try:
                raise KeyError("inner")
            except KeyError as e:
                raise ValueError("outer") from e
        except ValueError as e2:
            return e2

    # hostile: duck-typed attributes that raise / are ill-typed when located_error uses them
    class StrRaises(Exception):
        def __str__(self):
            raise RuntimeError("str raises")

    class MsgRaises(Exception):
        @property
        def message(self):
            raise RuntimeError("message raises")

    class MsgStrRaises(Exception):
        class _M:
            def __str__(self):
                raise RuntimeError("m")

        message = _M()

    class NodesInt(Exception):
        nodes = 5

    class NodesStrs(Exception):
        nodes = ["x"]

    class NodesRaises(Exception):
        @property
        def nodes(self):
            raise RuntimeError("nodes")

    class NodesBoolRaises(Exception):
        class _N:
            def __bool__(self):
                raise RuntimeError("b")

        nodes = _N()

    class PosInt(Exception):
        positions = 7
        source = "abc"

    class PosStrs(Exception):
        positions = ["x"]
        source = "abc"

    class SrcRaises(Exception):
        @property
        def source(self):
            raise RuntimeError("src")

    class ExtRaises(Exception):
        @property
        def extensions(self):
            raise RuntimeError("ext")

    plain = {
        "ValueError": lambda: ValueError("x"),
        "KeyError": lambda: KeyError("k"),
        "ZeroDivisionError": lambda: ZeroDivisionError(),
        "RuntimeError": lambda: RuntimeError(),
        "TypeError": lambda: TypeError("t"),
        "AttributeError": lambda: AttributeError("nope"),
        "IndexError": lambda: IndexError(3),
        "StopIteration": lambda: StopIteration(),
        "AssertionError": lambda: AssertionError(),
        "OSError": lambda: OSError(2, "x"),
        "UnicodeDecodeError": lambda: UnicodeDecodeError("utf-8", b"\xff", 0, 1, "bad"),
        "RecursionError": lambda: RecursionError("r"),
        "LookupError": lambda: LookupError(),
        "NotImplementedError": lambda: NotImplementedError(),
        "Exception0": lambda: Exception(),
        "ExceptionInt": lambda: Exception(5),
        "ExceptionNone": lambda: Exception(None),
        "ExceptionBytes": lambda: Exception(b"bytes"),
        "ExceptionTuple": lambda: Exception(("tuple",), 2),
        "ExceptionSurrogate": lambda: Exception("\ud800"),
        "NoArgs": NoArgs,
        "MsgInt": lambda: MsgInt("m"),
        "LazyMsg": lambda: LazyMsg(),
        "ExtDict": lambda: ExtDict("e"),
        "ExtInt": lambda: ExtInt("e"),
        "Elastic": lambda: Elastic("el"),
        "SrcInt": lambda: SrcInt("s"),
        "PosBig": lambda: PosBig("p"),
        "Chained": chained,
        "Gql": lambda: GraphQLError("m"),
        "GqlEmpty": lambda: GraphQLError(""),
        "GqlPath": lambda: GraphQLError("m", path=["x", 1]),
        "GqlExt": lambda: GraphQLError("m", extensions={"code": "E"}),
        "GqlNodes": lambda: GraphQLError("m", nodes=[field_node]),
        "GqlPos": lambda: GraphQLError("m", source=Source("query"), positions=[1]),
        "SubGql": lambda: SubGql("sub"),
        "GqlSyntax": lambda: GraphQLSyntaxError(Source("x"), 0, "d"),
    }
    hostile = {
        "StrRaises": lambda: StrRaises("boom"),
        "MsgRaises": lambda: MsgRaises("boom"),
        "MsgStrRaises": lambda: MsgStrRaises("boom"),
        "NodesInt": lambda: NodesInt("boom"),
        "NodesStrs": lambda: NodesStrs("boom"),
        "NodesRaises": lambda: NodesRaises("boom"),
        "NodesBoolRaises": lambda: NodesBoolRaises("boom"),
        "PosInt": lambda: PosInt("boom"),
        "PosStrs": lambda: PosStrs("boom"),
        "SrcRaises": lambda: SrcRaises("boom"),
        "ExtRaises": lambda: ExtRaises("boom"),
    }
    return plain, hostile


PLAIN_NAMES = [
    "ValueError", "KeyError", "ZeroDivisionError", "RuntimeError", "TypeError", "AttributeError", "IndexError",
    "StopIteration", "AssertionError", "OSError", "UnicodeDecodeError", "RecursionError", "LookupError",
    "NotImplementedError", "Exception0", "ExceptionInt", "ExceptionNone", "ExceptionBytes", "ExceptionTuple",
    "ExceptionSurrogate", "NoArgs", "MsgInt", "LazyMsg", "ExtDict", "ExtInt", "Elastic", "SrcInt", "PosBig", "Chained",
    "Gql", "GqlEmpty", "GqlPath", "GqlExt", "GqlNodes", "GqlPos", "SubGql", "GqlSyntax",
]
HOSTILE_NAMES = [
    "StrRaises", "MsgRaises", "MsgStrRaises", "NodesInt", "NodesStrs", "NodesRaises", "NodesBoolRaises", "PosInt",
    "PosStrs", "SrcRaises", "ExtRaises",
]
OWN_PATH = {"GqlPath": ["x", 1]}  # a GraphQLError that already has a path surfaces with its own path

# attribute behaviour of each zoo entry for the located_error model (lean/Gql/Request/Pipeline.lean):
# (is GraphQLError: "-"/"none"/<own path length>, str ok, message, source, positions, nodes, extensions)
ZOO_ATTRS = {
    **{n: ("-", 1, "missing", "missing", "missing", "missing", "missing") for n in PLAIN_NAMES},
    "MsgInt": ("-", 1, "good", "missing", "missing", "missing", "missing"),
    "LazyMsg": ("-", 1, "good", "missing", "missing", "missing", "missing"),
    "ExtDict": ("-", 1, "missing", "missing", "missing", "missing", "good"),
    "ExtInt": ("-", 1, "missing", "missing", "missing", "missing", "missing"),
    "SrcInt": ("-", 1, "missing", "good", "missing", "missing", "missing"),
    "PosBig": ("-", 1, "missing", "good", "good", "missing", "missing"),
    "Gql": ("none", 1, "good", "good", "good", "good", "good"),
    "GqlEmpty": ("none", 1, "good", "good", "good", "good", "good"),
    "GqlPath": ("2", 1, "good", "good", "good", "good", "good"),
    "GqlExt": ("none", 1, "good", "good", "good", "good", "good"),
    "GqlNodes": ("none", 1, "good", "good", "good", "good", "good"),
    "GqlPos": ("none", 1, "good", "good", "good", "good", "good"),
    "SubGql": ("none", 1, "good", "good", "good", "good", "good"),
    "GqlSyntax": ("none", 1, "good", "good", "good", "good", "good"),
    "StrRaises": ("-", 0, "missing", "missing", "missing", "missing", "missing"),
    "MsgRaises": ("-", 1, "raises", "missing", "missing", "missing", "missing"),
    "MsgStrRaises": ("-", 1, "ill", "missing", "missing", "missing", "missing"),
    "NodesInt": ("-", 1, "missing", "missing", "missing", "ill", "missing"),
    "NodesStrs": ("-", 1, "missing", "missing", "missing", "ill", "missing"),
    "NodesRaises": ("-", 1, "missing", "missing", "missing", "raises", "missing"),
    "NodesBoolRaises": ("-", 1, "missing", "missing", "missing", "ill", "missing"),
    "PosInt": ("-", 1, "missing", "good", "ill", "missing", "missing"),
    "PosStrs": ("-", 1, "missing", "good", "ill", "missing", "missing"),
    "SrcRaises": ("-", 1, "missing", "raises", "missing", "missing", "missing"),
    "ExtRaises": ("-", 1, "missing", "missing", "missing", "missing", "raises"),
}

# ----------------------------------------------------------------------------- schema

SDL = '''
directive @custom(n: Int!, s: String = "x", inp: Inp, l: [Int!]) repeatable on QUERY | MUTATION | SUBSCRIPTION | FIELD | FRAGMENT_DEFINITION | FRAGMENT_SPREAD | INLINE_FRAGMENT | VARIABLE_DEFINITION
enum Color { RED GREEN }
union Thing = Node | Other
type Other { y: Int name: String }
input Inp { req: Int!, opt: String = "d", nested: Inp, list: [Int!] }
scalar Odd
interface Named { name: String }
type Node implements Named {
  id: ID!
  name: String
  nn: String!
  child: Node
  kids: [Node]
  strict: [Node!]!
  odd: Odd
  named: Named
  thing: Thing
  color(c: Color = RED): Color
  args(i: Int, s: String, b: Boolean, c: Color, inp: Inp, l: [Int], f: Float, id: ID): String
}
type Query {
  a: String
  nn: String!
  o: Node
  l: [Node]
  strict: [Node!]!
  named: Named
  odd: Odd
  args(i: Int, s: String, b: Boolean, c: Color, inp: Inp, l: [Int], f: Float, id: ID, req: Int! = 1): String
  oddArg(o: Odd, l: [Odd!]): String
  u: Thing
  things: [Thing]
}
type Mutation { m(i: Int): String  n: Node  big(v: Inp): String }
type Subscription { a: String  tick: Int  o: Node  things: [Thing] }
'''

RAISABLE = [
    "Query.a", "Query.nn", "Query.o", "Query.l", "Query.strict", "Query.named", "Query.odd", "Query.args",
    "Node.id", "Node.name", "Node.nn", "Node.child", "Node.kids", "Node.strict", "Node.odd", "Node.named",
    "Node.color", "Node.args", "Mutation.m", "Mutation.n", "__resolve_type", "__serialize",
    "Query.u", "Query.things", "Node.thing", "Subscription.a", "Subscription.o",
]
# custom scalar input coercion (variables / literals): plain exception classes only
SCALAR_RAISABLE = ["__parse_value", "__parse_literal"]
# (a GraphQLError that already carries a path, raised by a scalar during *validation*, is reported as is and would put a
# path on a request error: a scalar inventing execution paths is outside the statement)
SCALAR_ZOO = [n for n in PLAIN_NAMES if n != "GqlPath"]


class _Cur:
    raisers = {}
    log = []
    zoo = {}


_SCHEMAS = {}


def _node(depth=0):
    return {"__node": depth}


def _resolver(key, kind):
    def resolve(source, info, **args):
        name = _Cur.raisers.get(key)
        if name is not None:
            _Cur.log.append((info.path.as_list(), name, key))
            raise _Cur.zoo[name]()
        if kind == "str":
            return "v"
        if kind == "int":
            return 1
        if kind == "node":
            return _node()
        if kind == "nodes":
            return [_node(), _node()]
        if kind == "odd":
            return 3
        if kind == "color":
            return "RED"
        return None

    return resolve


def make_schema(variant="plain"):
    """Built once per process and variant; resolvers read the per-case state from `_Cur`.
    variant "incremental" additionally declares the @defer / @stream directives."""
    if variant in _SCHEMAS:
        return _SCHEMAS[variant]
    from graphql import GraphQLDeferDirective, GraphQLSchema, GraphQLStreamDirective, build_schema

    schema = build_schema(SDL)
    if variant == "incremental":
        kwargs = schema.to_kwargs()
        kwargs["directives"] = tuple(kwargs["directives"]) + (GraphQLDeferDirective, GraphQLStreamDirective)
        schema = GraphQLSchema(**kwargs)
    kinds = {
        "a": "str", "nn": "str", "o": "node", "l": "nodes", "strict": "nodes", "named": "node", "odd": "odd",
        "args": "str", "id": "str", "name": "str", "child": "node", "kids": "nodes", "color": "color", "m": "str",
        "n": "node", "u": "node", "things": "nodes", "thing": "node", "tick": "int", "y": "int", "big": "str",
    }
    for tname in ("Query", "Node", "Mutation", "Subscription", "Other"):
        t = schema.type_map[tname]
        for fname, f in t.fields.items():
            f.resolve = _resolver(f"{tname}.{fname}", kinds.get(fname, "str"))

    def resolve_type(value, info, type_):
        name = _Cur.raisers.get("__resolve_type")
        if name is not None:
            _Cur.log.append((info.path.as_list(), name, "__resolve_type"))
            raise _Cur.zoo[name]()
        return "Node"

    schema.type_map["Named"].resolve_type = resolve_type
    schema.type_map["Thing"].resolve_type = resolve_type

    def serialize(value):
        name = _Cur.raisers.get("__serialize")
        if name is not None:
            _Cur.log.append((None, name, "__serialize"))
            raise _Cur.zoo[name]()
        return value

    schema.type_map["Odd"].serialize = serialize

    def parse_value(value):
        name = _Cur.raisers.get("__parse_value")
        if name is not None:
            _Cur.log.append((None, name, "__parse_value"))
            raise _Cur.zoo[name]()
        return value

    def parse_literal(node, variables=None):
        from graphql.utilities import value_from_ast_untyped

        name = _Cur.raisers.get("__parse_literal")
        if name is not None:
            _Cur.log.append((None, name, "__parse_literal"))
            raise _Cur.zoo[name]()
        return value_from_ast_untyped(node, variables)

    schema.type_map["Odd"].parse_value = parse_value
    schema.type_map["Odd"].parse_literal = parse_literal
    _SCHEMAS[variant] = schema
    return schema


# ----------------------------------------------------------------------------- sources

VALID = [
    "{ a }",
    "{ a nn o { id name } }",
    "query Q { o { child { child { name nn } } } }",
    "{ l { id kids { id } } strict { nn } }",
    "query A { a } query B { nn }",
    "query A($i: Int = 3, $s: String) { args(i: $i, s: $s) }",
    "query A($i: Int!) { args(i: $i) }",
    "query A($inp: Inp) { args(inp: $inp) }",
    "query A($c: Color, $l: [Int]) { args(c: $c, l: $l) o { color(c: $c) } }",
    "query A($b: Boolean = true) { a @skip(if: $b) nn @include(if: $b) }",
    "{ ...F } fragment F on Query { a o { ...G } } fragment G on Node { id name }",
    "{ x: a y: a o { n1: name n2: name } }",
    "{ named { name ... on Node { id nn } } }",
    "{ o { named { __typename name } } }",
    "{ odd o { odd } }",
    "{ __typename __schema { queryType { name } } __type(name: \"Node\") { fields { name } } }",
    "mutation M { m(i: 1) n { id } }",
    "mutation M($i: Int) { a: m(i: $i) b: m(i: 2) }",
    "{ args(i: 1, s: \"x\", b: true, c: RED, inp: {req: 1, list: [1, 2]}, l: [1, null], f: 1.5, id: 7) }",
    "{ o { args(inp: {req: 1, nested: {req: 2, nested: {req: 3}}}) } }",
    "{ strict { strict { nn } } }",
    "{ o { kids { child { strict { id } } } } }",
    "query Q { a } mutation M { m } ",
    "{ a ... @include(if: true) { nn } ... on Query { o { id } } }",
    "{ o { child { child { child { child { nn } } } } } }",
    "query O($o: Odd, $l: [Odd!]) { oddArg(o: $o, l: $l) }",
    "{ oddArg(o: 5, l: [1, {a: 2}]) a }",
    "query O($o: Odd = 3) { x: oddArg(o: $o) y: oddArg(l: [$o]) }",
]
FRAG_ARGS = [
    "{ ...F(x: 1) } fragment F($x: Int) on Query { args(i: $x) a }",
    "query Q($v: Int = 2) { o { ...G(n: $v, s: \"k\") } } fragment G($n: Int!, $s: String = \"d\") on Node { args(i: $n, s: $s) child { ...H } } fragment H on Node { id }",
    "{ ...F(x: \"wrong\") } fragment F($x: Int) on Query { args(i: $x) }",
]
INVALID = [
    "{ unknown }",
    "{ a { sub } }",
    "{ o }",
    "{ args(i: \"str\") }",
    "{ args(nope: 1) }",
    "query A($i: Int) { a }",
    "{ a } fragment Unused on Query { a }",
    "{ ...Missing }",
    "type X { a: Int }",
    "{ a } extend type Query { z: Int }",
    "query A($i: Unknown) { a }",
    "subscription S { a }",
    "{ a @nope }",
    "{ ...F } fragment F on Query { ...F }",
    "query ($x: Int = \"s\") { args(i: $x) }",
    "{ args(inp: {opt: \"x\"}) }",
]
BROKEN = [
    "", " ", "\n", "\ufeff", "#", "\ud83d", "\ude00", "{", "}", "{ a", "{ a(", "{ f(a:\"\\", "\"\\", "\"\\u12", "\"\\uD83D\\u",
    "{ a(x: \"\"\"", "query", "query {", "{ a: }", "{ ...", "{ ... on }", "fragment on on on { on }", "{ a(x: $) }",
    "{ a(x: [1, ) }", "{ a(x: {a: ) }", "query ($a: ) { a }", "{ a @ }", "{ 1 }", "{ a } }", "0x", "{ a(x: 1.) }", "{ a(x: 01) }",
    "..", "{ a . }", "'", "\x00", "{ \x7f }", "{ a(s: \"\n\") }", "{ a(s: \"\\q\") }", "{ a(s: \"\\u{110000}\") }",
]
ALPHABET = ['"', "\\", "u", "{", "}", "(", ")", "[", "]", ":", "$", "@", "!", "=", "|", "&", "0", "1", "e", ".", "-", "a",
            "#", ",", "\n", "\r", "\ufeff", "\xe9", "\ud83d", "\ude00", " "]


def _deep(n):
    return "{ o " + "{ child " * n + "{ id }" + " }" * n + " }"


def _deep_list(n):
    return "{ args(l: " + "[" * n + "1" + "]" * n + ") }"


VAR_ZOO = [
    None, True, False, 0, -1, 1, 2**31, -(2**31) - 1, 2**70, 1.5, "__nan__", "__inf__", "", "x", "RED", "BLUE",
    {"__cps__": [0xD800]}, [], [1, 2], [1, None, "x"], [[1]], {}, {"req": 1}, {"req": None}, {"req": 1, "extra": 2},
    {"req": 1, "nested": {"req": 2}}, {"opt": "x"}, {"req": "1"}, {"req": 1.0}, {"req": 1, "list": [1, None]},
    "\u0130", {"\u0130": 1}, {"req": 1, "\u00df": 2}, {"req": 1, "nested": {"\u01c5": 1}}, {"__bigint__": 5000}, {"req": {"__bigint__": 4400}},
    {"": 1}, {"REQ": 1}, ["\u0130", "RED"],
]
VAR_NAMES = ["i", "s", "b", "c", "inp", "l", "o", "x", "", "a b", "\u00e9", "$i", "__proto__", "\u0130", "I", "INP"]
OP_NAMES = [None] * 14 + ["A", "A", "B", "Q", "M", "Nope", "", "a b", "\ud800"]


def _enc_source(s):
    return [ord(c) for c in s]


def gen_cases(seed: int, n: int):
    rng = random.Random(f"{seed}:c01pipe")
    cases = []

    def raisers_for(p=0.7, hostile_share=0.25):
        if rng.random() > p:
            return {}
        out = {}
        for _ in range(rng.choice([1, 1, 2, 3])):
            key = rng.choice(RAISABLE)
            names = HOSTILE_NAMES if rng.random() < hostile_share else PLAIN_NAMES
            out[key] = rng.choice(names)
        if rng.random() < 0.08:
            out[rng.choice(SCALAR_RAISABLE)] = rng.choice(SCALAR_ZOO)
        return out

    def variables():
        r = rng.random()
        if r < 0.4:
            return None
        if r < 0.5:
            return {}
        return {rng.choice(VAR_NAMES): rng.choice(VAR_ZOO) for _ in range(rng.choice([1, 1, 2, 3]))}

    def opts():
        r = rng.random()
        if r < 0.7:
            return {}
        o = {}
        if rng.random() < 0.5:
            o["max_tokens"] = rng.choice([0, 1, 3, 10, 40, 1000])
        if rng.random() < 0.4:
            o["no_location"] = True
        if rng.random() < 0.4:
            o["experimental_fragment_arguments"] = True
        return o

    def add(tag, source, **kw):
        cases.append({
            "tag": tag, "source_cps": _enc_source(source), "variables": kw.get("variables", variables()),
            "operation_name": kw.get("operation_name", rng.choice(OP_NAMES)), "raisers": kw.get("raisers", raisers_for()),
            "options": kw.get("options", opts()),
        })

    # fixed part: every zoo entry on a root nullable, a root non-null, and nested fields; every source once
    for name in PLAIN_NAMES + HOSTILE_NAMES:
        for key, q in (("Query.a", "{ a }"), ("Query.nn", "{ nn }"), ("Node.nn", "{ o { child { nn } } a }"),
                       ("Node.name", "{ l { name } }"), ("Node.id", "{ strict { id } a }"),
                       ("__resolve_type", "{ named { name } a }"), ("__serialize", "{ o { odd } }")):
            cases.append({"tag": "zoo", "source_cps": _enc_source(q), "variables": None, "operation_name": None,
                          "raisers": {key: name}})
    for name in SCALAR_ZOO:
        cases.append({"tag": "zoo-scalar", "source_cps": _enc_source("query O($o: Odd) { oddArg(o: $o) a }"), "variables": {"o": 1},
                      "operation_name": None, "raisers": {"__parse_value": name}, "options": {}})
        cases.append({"tag": "zoo-scalar", "source_cps": _enc_source("{ oddArg(o: 5) a }"), "variables": None,
                      "operation_name": None, "raisers": {"__parse_literal": name}, "options": {}})
    for s in VALID:
        add("valid", s, raisers={}, operation_name=None, options={})
    for s in FRAG_ARGS:
        add("fragargs", s, raisers={}, operation_name=None, options={"experimental_fragment_arguments": True})
        add("fragargs", s, raisers={}, operation_name=None, options={})
        add("fragargs", s, operation_name=None, options={"experimental_fragment_arguments": True})
    for s in INVALID:
        add("invalid", s, raisers={})
    for s in BROKEN:
        add("broken", s, raisers={})
    add("deep", _deep(50), raisers={}, variables=None, operation_name=None)
    add("deep", _deep(50), raisers={"Node.id": "ValueError"}, variables=None, operation_name=None)
    add("deep", _deep_list(50), raisers={}, variables=None, operation_name=None)
    from tools import c01_docgen

    gen = c01_docgen.Gen(rng)
    good_vars = {"i": 1, "s": "x", "b": True, "c": "RED", "inp": {"req": 1}, "l": [1, 2], "f": 1.5, "id": "a"}
    while len(cases) < n:
        r = rng.random()
        if r < 0.35:
            doc = gen.document()
            if rng.random() < 0.6:
                vs = {k: v for k, v in good_vars.items() if f"${k}" in doc and rng.random() < 0.9}
                if rng.random() < 0.15:
                    vs[rng.choice(VAR_NAMES)] = rng.choice(VAR_ZOO)
            else:
                vs = variables()
            opn = None
            if "Op1" in doc or rng.random() < 0.1:
                opn = rng.choice(["Op0", "Op0", "Op1", "Op2", None, "Nope"])
            add("generated", doc, variables=vs, operation_name=opn)
        elif r < 0.6:
            add("valid", rng.choice(VALID))
        elif r < 0.65:
            add("invalid", rng.choice(INVALID))
        elif r < 0.72:
            add("broken", rng.choice(BROKEN), raisers={})
        else:
            s = rng.choice(VALID + INVALID)
            if rng.random() < 0.5:
                s = s[: rng.randrange(len(s) + 1)]
                tag = "truncated"
            else:
                i = rng.randrange(len(s))
                s = s[:i] + rng.choice(ALPHABET) + s[i + 1:]
                tag = "substituted"
            add(tag, s)
    return cases[:n] if n >= 400 else cases[: max(n, 1)]


# ----------------------------------------------------------------------------- running

_IDENT = re.compile(r"[A-Za-z_][A-Za-z0-9_]*\Z")


def encode_json(v) -> str:
    """JSON-ish value -> the token format of the driver's `wf` operation."""
    if v is None:
        return "null"
    if v is True:
        return "true"
    if v is False:
        return "false"
    if isinstance(v, int):
        return f"i{v}"
    if isinstance(v, float):
        return "f"
    if isinstance(v, str):
        return "s"
    if isinstance(v, dict):
        parts = ["{"]
        for k, x in v.items():
            parts.append("k:" + k if isinstance(k, str) and _IDENT.match(k) else "k?")
            parts.append(encode_json(x))
        parts.append("}")
        return " ".join(parts)
    if isinstance(v, (list, tuple)):
        return " ".join(["["] + [encode_json(x) for x in v] + ["]"])
    return "x:" + re.sub(r"\W", "_", type(v).__name__)


def _decode_key(k):
    if isinstance(k, dict):
        if "__cps__" in k:
            return "".join(chr(c) for c in k["__cps__"])
        kind = k.get("__key__")
        return {"int": k.get("v"), "float": k.get("v"), "none": None, "tuple": ("t",), "bool": True, "bytes": b"k"}.get(kind, kind)
    return k


def _decode_var(v):
    """JSON case description -> the Python value (NaN/inf, lone surrogates, huge ints, non-JSON dict keys)."""
    if v == "__nan__":
        return float("nan")
    if v == "__inf__":
        return float("inf")
    if isinstance(v, dict):
        if set(v) == {"__cps__"}:
            return "".join(chr(c) for c in v["__cps__"])
        if set(v) == {"__bigint__"}:
            return 10 ** v["__bigint__"] - 1
        if set(v) == {"__items__"}:
            return {_decode_key(k): _decode_var(x) for k, x in v["__items__"]}
        return {k: _decode_var(x) for k, x in v.items()}
    if isinstance(v, list):
        return [_decode_var(x) for x in v]
    return v


def _has_nonstr_key(v):
    if isinstance(v, dict):
        return any(not isinstance(k, str) or _has_nonstr_key(x) for k, x in v.items())
    if isinstance(v, (list, tuple)):
        return any(_has_nonstr_key(x) for x in v)
    return False


def bracket_nesting(source: str) -> int:
    """maximal nesting of { [ ( in the token stream (strings and comments excluded); -1 if it does not lex"""
    from graphql.language import Lexer, Source, TokenKind

    depth = best = 0
    try:
        lexer = Lexer(Source(source))
        while True:
            t = lexer.advance()
            if t.kind in (TokenKind.BRACE_L, TokenKind.BRACKET_L, TokenKind.PAREN_L):
                depth += 1
                best = max(best, depth)
            elif t.kind in (TokenKind.BRACE_R, TokenKind.BRACKET_R, TokenKind.PAREN_R):
                depth -= 1
            elif t.kind == TokenKind.EOF:
                return best
    except Exception:  # noqa: BLE001
        return -1


def fragment_chain_depth(doc) -> int:
    """length of the longest chain of fragment spreads F0 -> F1 -> ... (cycles cut); iterative on purpose"""
    from graphql.language import FragmentDefinitionNode, FragmentSpreadNode

    def spreads(sel_set):
        out, stack = [], [sel_set]
        while stack:
            ss = stack.pop()
            if ss is None:
                continue
            for sel in ss.selections:
                if isinstance(sel, FragmentSpreadNode):
                    out.append(sel.name.value)
                else:
                    stack.append(getattr(sel, "selection_set", None))
        return out

    graph = {d.name.value: spreads(d.selection_set) for d in doc.definitions if isinstance(d, FragmentDefinitionNode)}
    depth = {}
    for start in graph:
        if start in depth:
            continue
        stack = [(start, iter(graph.get(start, ())))]
        on_path = {start}
        while stack:
            node, it = stack[-1]
            advanced = False
            for nxt in it:
                if nxt in graph and nxt not in depth and nxt not in on_path:
                    stack.append((nxt, iter(graph[nxt])))
                    on_path.add(nxt)
                    advanced = True
                    break
            if not advanced:
                depth[node] = 1 + max((depth.get(n, 0) for n in graph.get(node, ())), default=0)
                on_path.discard(node)
                stack.pop()
    return max(depth.values(), default=0)


def escape_fingerprint(exc, source, doc, case, default):
    """The kind of escaping exception: RecursionError caused by a fragment-spread chain deeper than 150 in a
    document whose bracket nesting is within the property's bound of 100 is the known finding; nothing else is."""
    if isinstance(exc, RecursionError):
        nest = bracket_nesting(source)
        if doc is None:
            try:
                from graphql import parse

                doc = parse(source)
            except Exception:  # noqa: BLE001
                doc = None
        chain = fragment_chain_depth(doc) if doc is not None else 0
        if 0 <= nest <= 100 and chain > 150:
            return "recursionerror:fragment-spread-chain-depth"
        if nest > 100:
            return "recursionerror:bracket-nesting-above-100"
        return "recursionerror:" + default
    if default.startswith("located_error:"):
        return default
    files = _tb_files(exc)
    if _has_nonstr_key(_decode_var(case.get("variables"))):
        return "graphql_sync-raises:non-str-variable-key"
    if isinstance(exc, ValueError) and "integer string conversion" in _exc_text(exc):
        return "valueerror:digit-run-over-int-str-limit"
    if isinstance(exc, IndexError) and "suggestion_list.py" in files:
        return "indexerror:suggestion-lower-lengthens-key"
    if isinstance(exc, AttributeError) and "stream_directive_on_list_field.py" in files:
        return "attributeerror:stream-on-meta-field-under-union"
    if type(exc).__name__ in ("GraphQLError",) and "single_field_subscriptions.py" in files:
        return "validate-raises:directive-args-on-subscription"
    return f"{default}:{type(exc).__name__}"


def _tb_files(exc):
    """base names of the source files on the traceback of an escaped exception (part of the run's observation)"""
    import os
    import traceback

    try:
        return {os.path.basename(fr.filename) for fr in traceback.extract_tb(exc.__traceback__)}
    except Exception:  # noqa: BLE001
        return set()


def _exc_text(exc):
    try:
        return str(exc)[:500]
    except Exception:  # noqa: BLE001
        return ""


def _safe_str(e):
    try:
        return f"{type(e).__name__}: {str(e)[:300]}"[:200]
    except Exception:  # noqa: BLE001
        return f"{type(e).__name__}: <str() raises>"


def _walk(data, path):
    cur = data
    for seg in path:
        if cur is None:
            return ("cut", None)
        try:
            cur = cur[seg]
        except Exception:  # noqa: BLE001
            return ("missing", None)
    return ("at", cur)


def run(cases):
    from graphql import ExecutionResult, GraphQLError, graphql_sync, parse, validate
    from graphql.error import GraphQLSyntaxError

    plain, hostile = _zoo()
    _Cur.zoo = {**plain, **hostile}
    out = {"evaluations": 0, "nontrivial": 0, "failures": [], "wf": [], "stats": {}, "samples": []}
    st = out["stats"]

    def bump(k):
        st[k] = st.get(k, 0) + 1

    def safe(v):
        import json

        try:
            return json.loads(json.dumps(v, default=lambda o: f"<{type(o).__name__} object>"))
        except Exception:  # noqa: BLE001
            return repr(v)[:400]

    def fail(fp, what, case, observed, expected, src):
        if fp == "recursionerror:bracket-nesting-above-100":
            bump("out-of-scope:bracket-nesting-above-100")  # the property bounds bracket nesting at 100
            return
        out["failures"].append({"fingerprint": fp, "what": what, "input": {"kind": "pipeline", "case": case},
                                "observed": safe(observed), "expected": safe(expected), "source": src})

    for idx, case in enumerate(cases):
        source = "".join(chr(c) for c in case["source_cps"])
        variables = _decode_var(case["variables"])
        schema = make_schema(case.get("schema", "plain"))
        _Cur.raisers = dict(case["raisers"])
        _Cur.log = []
        out["evaluations"] += 1
        bump("tag:" + case["tag"])
        any_hostile = any(v in HOSTILE_NAMES for v in case["raisers"].values())
        fp_escape = "located_error:hostile-attribute-reads" if any_hostile else "graphql_sync-raises"
        # the pre-execution relation (same library: parse / validate on their own)
        pre = 0
        options = dict(case.get("options") or {})
        parse_opts = {k: v for k, v in options.items() if k in ("max_tokens", "no_location", "experimental_fragment_arguments")}
        try:
            doc = parse(source, **parse_opts)
        except GraphQLSyntaxError:
            doc = None
            pre = 1
            bump("parse-failures")
        except Exception as e:  # noqa: BLE001
            fp_parse = escape_fingerprint(e, source, None, case, "x") if isinstance(e, RecursionError) else ""
            fail(fp_parse if fp_parse == "recursionerror:bracket-nesting-above-100" else "parse-raises-non-syntax-error",
                 "parse() raises something else than GraphQLSyntaxError", case,
                 _safe_str(e), "GraphQLSyntaxError or a document", "C01 parse_no_crash")
            continue
        if doc is not None:
            try:
                if validate(schema, doc):
                    pre = 2
                    bump("validation-failures")
            except Exception as e:  # noqa: BLE001
                fail(escape_fingerprint(e, source, doc, case, "validate-raises"), "validate() raises on a parsed document", case, _safe_str(e),
                     "a list of errors", "C01 response_wf (stage hypothesis: validate returns a list)")
                continue
        if case.get("schema") == "incremental":
            # `execute` refuses a schema that declares @defer/@stream (a configuration error, raised for every request):
            # for this variant the oracle is the validation stage only
            bump("incremental-schema-validate-only")
            if pre:
                out["nontrivial"] += 1
            continue
        try:
            result = graphql_sync(schema, source, variable_values=variables, operation_name=case["operation_name"], **options)
        except Exception as e:  # noqa: BLE001
            fail(escape_fingerprint(e, source, doc, case, fp_escape), "graphql_sync raises", case, _safe_str(e), "an ExecutionResult",
                 "C01 response_wf / resolver_raise_located")
            bump("escaped")
            continue
        log = list(_Cur.log)
        if not isinstance(result, ExecutionResult) or not (
            result.errors is None or (isinstance(result.errors, list) and all(isinstance(e, GraphQLError) for e in result.errors))
        ):
            fail("response-not-execution-result", "result is not an ExecutionResult with GraphQLError errors", case,
                 repr(result)[:200], "ExecutionResult", "C01 response_wf")
            continue
        try:
            formatted = result.formatted
        except Exception as e:  # noqa: BLE001
            fail("response-not-execution-result", "ExecutionResult.formatted raises", case, _safe_str(e), "a dict", "C01 response_wf")
            continue
        errors = result.errors or []
        if pre == 1:
            ok = result.data is None and len(errors) == 1 and errors[0].path is None and bool(errors[0].locations)
            if not ok:
                fail("pre-execution-errors-shape", "a syntax error must give data=None and exactly one located, path-less error",
                     case, formatted, "{data: None, errors: [one error with locations, no path]}", "graphql_impl: except GraphQLError")
        elif pre == 2:
            if not (result.data is None and errors and all(e.path is None for e in errors)):
                fail("pre-execution-errors-shape", "validation errors must give data=None and path-less errors", case, formatted,
                     "{data: None, errors: [...]}", "graphql_impl: validation errors")
        # every raise that happened must be located
        for path, name, key in log:
            bump("raised:" + name)
            hostile_case = name in HOSTILE_NAMES
            fp = "located_error:hostile-attribute-reads" if hostile_case else "resolver-error-not-located"
            if key in SCALAR_RAISABLE:  # input coercion: a request error or a field error, but an error there must be
                found = list(errors)
            elif path is None:  # serialize: the error belongs to the field being completed; any error with a path will do
                found = [e for e in errors if e.path]
            else:
                want = OWN_PATH.get(name, path)
                found = [e for e in errors if e.path == want]
                if key == "__resolve_type" and not found:
                    # resolve_type sees the path of the field; for a list field the error sits on the item
                    found = [e for e in errors if e.path and e.path[: len(path)] == path]
            if not found:
                fail(fp, f"exception {name} raised by {key} at path {path} does not surface as an error with that path", case,
                     formatted, {"path": OWN_PATH.get(name, path)}, "C01 resolver_raise_located")
                continue
            if not all(isinstance(e.message, str) for e in found):
                fail(fp, "located error has a non-str message", case, formatted, "str message", "C01 resolver_raise_located")
            if path is not None and name not in OWN_PATH and result.data is not None and key != "__resolve_type":
                where, val = _walk(result.data, path)
                if where == "at" and val is not None:
                    fail(fp, "the field that raised is not null in data", case, formatted, "null at the error path", "C01 resolver_raise_located")
        if log or pre or result.data is None or errors:
            out["nontrivial"] += 1
        bump("outcome:" + ("errors-only" if result.data is None else ("data+errors" if errors else "data")))
        if log:
            bump("cases-with-raise")
        if pre == 0 and result.data is None and not log:
            bump("coercion-or-operation-errors")
        out["wf"].append([idx, f"wf {1 if pre else 0} {encode_json(formatted)}"])
        if len(out["samples"]) < 4 and (log or pre):
            out["samples"].append({"source": source[:80], "variables": case["variables"], "operation_name": case["operation_name"],
                                   "raisers": case["raisers"], "options": options, "response": encode_json(formatted)[:300]})
    return out


def replay(case):
    return run([case])
