"""Schema descriptions for C20: a valid-schema generator, rule-violating mutations,
grammar-random type systems, SDL rendering.  Pure Python data, no graphql import.

A description is
  {"roots": {"query": name|None, "mutation": ..., "subscription": ...}, "schema_block": bool,
   "types": {name: {...}}, "directives": {name: {...}}}
type entries:
  {"kind": "scalar"}
  {"kind": "object"|"interface", "ifaces": [names], "fields": {f: {"type": t, "args": {a: ival}, "dep": bool}}}
  {"kind": "union", "members": [names]}     {"kind": "enum", "values": [names]}
  {"kind": "input", "oneOf": bool, "fields": {f: ival}}
ival = {"type": t, "default": sdl-literal-string|None, "dep": bool}
t = ("n", name) | ("l", t) | ("!", t)
"""
from __future__ import annotations

import copy

BUILTIN = ["Int", "Float", "String", "Boolean", "ID"]
LOCATIONS = ["QUERY", "FIELD", "FIELD_DEFINITION", "OBJECT", "ARGUMENT_DEFINITION", "ENUM_VALUE", "INPUT_FIELD_DEFINITION"]


def N(n):
    return ("n", n)


def L(t):
    return ("l", t)


def NN(t):
    return t if t[0] == "!" else ("!", t)


def show_t(t):
    if t[0] == "n":
        return t[1]
    if t[0] == "l":
        return "[" + show_t(t[1]) + "]"
    return show_t(t[1]) + "!"


def named(t):
    while t[0] != "n":
        t = t[1]
    return t[1]


def ival(t, default=None, dep=False):
    return {"type": t, "default": default, "dep": dep}


# ----------------------------------------------------------------------------- SDL


def _ival_sdl(name, iv):
    s = f"{name}: {show_t(iv['type'])}"
    if iv.get("default") is not None:
        s += f" = {iv['default']}"
    if iv.get("dep"):
        s += ' @deprecated(reason: "x")'
    return s


def _fields_sdl(fields):
    if not fields:
        return ""
    out = []
    for fname, f in fields.items():
        args = ""
        if f["args"]:
            args = "(" + ", ".join(_ival_sdl(a, iv) for a, iv in f["args"].items()) + ")"
        dep = ' @deprecated(reason: "x")' if f.get("dep") else ""
        out.append(f"  {fname}{args}: {show_t(f['type'])}{dep}")
    return " {\n" + "\n".join(out) + "\n}"


def to_sdl(d):
    parts = []
    roots = d["roots"]
    if d.get("schema_block"):
        ops = [f"  {op}: {roots[op]}" for op in ("query", "mutation", "subscription") if roots.get(op)]
        if ops:
            parts.append("schema {\n" + "\n".join(ops) + "\n}")
    for name, dd in d["directives"].items():
        args = ""
        if dd["args"]:
            args = "(" + ", ".join(_ival_sdl(a, iv) for a, iv in dd["args"].items()) + ")"
        rep = " repeatable" if dd.get("repeatable") else ""
        parts.append(f"directive @{name}{args}{rep} on " + " | ".join(dd["locations"]))
    for name, t in d["types"].items():
        k = t["kind"]
        if k == "scalar":
            parts.append(f"scalar {name}")
        elif k in ("object", "interface"):
            kw = "type" if k == "object" else "interface"
            impl = (" implements " + " & ".join(t["ifaces"])) if t["ifaces"] else ""
            parts.append(f"{kw} {name}{impl}{_fields_sdl(t['fields'])}")
        elif k == "union":
            mem = (" = " + " | ".join(t["members"])) if t["members"] else ""
            parts.append(f"union {name}{mem}")
        elif k == "enum":
            vals = (" {\n" + "\n".join("  " + v for v in t["values"]) + "\n}") if t["values"] else ""
            parts.append(f"enum {name}{vals}")
        elif k == "input":
            one = " @oneOf" if t.get("oneOf") else ""
            body = ""
            if t["fields"]:
                body = " {\n" + "\n".join("  " + _ival_sdl(f, iv) for f, iv in t["fields"].items()) + "\n}"
            parts.append(f"input {name}{one}{body}")
    return "\n\n".join(parts) + "\n"


# ----------------------------------------------------------------------------- valid schemas


def _wrap_out(rng, t):
    r = rng.random()
    if r < 0.5:
        return t
    if r < 0.65:
        return NN(t)
    if r < 0.8:
        return L(t)
    if r < 0.9:
        return NN(L(NN(t)))
    return L(NN(t))


class Gen:
    def __init__(self, rng):
        self.rng = rng
        self.types = {}
        self.order = {}  # input object name -> index

    # ---- literals valid for an input type
    def lit(self, t, k, depth=0):
        """A literal coercible to `t`; input objects with index >= k are only given null / []."""
        rng = self.rng
        if t[0] == "!":
            return self.lit_nn(t[1], k, depth)
        if rng.random() < 0.15:
            return "null"
        v = self.lit_nn(t, k, depth)
        return v if v is not None else "null"

    def lit_nn(self, t, k, depth):
        rng = self.rng
        if t[0] == "!":
            return self.lit_nn(t[1], k, depth)
        if t[0] == "l":
            r = rng.random()
            inner = t[1]
            nm = named(inner)
            if self.types.get(nm, {}).get("kind") == "input" and self.order[nm] >= k:
                return "[]"
            if r < 0.25 and depth < 3:
                one = self.lit_nn(inner, k, depth + 1)
                return one if one is not None else "[]"
            n = rng.randint(0, 2)
            items = [self.lit(inner, k, depth + 1) for _ in range(n)]
            return "[" + ", ".join(x for x in items if x is not None) + "]"
        nm = t[1]
        if nm == "Int":
            return str(rng.choice([0, 1, -5, 2147483647, -2147483648]))
        if nm == "Float":
            return rng.choice(["1.5", "2", "-1e3"])
        if nm == "String":
            return rng.choice(['"a"', '""', '"""b"""'])
        if nm == "Boolean":
            return rng.choice(["true", "false"])
        if nm == "ID":
            return rng.choice(['"id"', "7"])
        tt = self.types.get(nm)
        if tt is None or tt["kind"] == "scalar":
            return rng.choice(["1", '"x"', "{a: 1}", "[1, 2]", "FOO", "true", "1.5"])
        if tt["kind"] == "enum":
            return rng.choice(tt["values"])
        if tt["kind"] == "input":
            return self.obj_lit(nm, k, depth)
        return "null"

    def obj_lit(self, nm, k, depth):
        rng = self.rng
        tt = self.types[nm]
        if self.order[nm] >= k:
            return None
        fields = tt["fields"]
        if tt.get("oneOf"):
            names = list(fields)
            rng.shuffle(names)
            for f in names:
                v = self.lit_nn(fields[f]["type"], self.order[nm], depth + 1)
                if v is not None:
                    return "{" + f + ": " + v + "}"
            return None
        ents = []
        for f, iv in fields.items():
            req = iv["type"][0] == "!" and iv["default"] is None
            fn = named(iv["type"])
            low = not (self.types.get(fn, {}).get("kind") == "input" and self.order[fn] >= self.order[nm])
            if req or (rng.random() < 0.35 and depth < 3 and low):
                v = self.lit(iv["type"], self.order[nm], depth + 1)
                if v is None:
                    if req:
                        return None
                    continue
                ents.append(f + ": " + v)
        return "{" + ", ".join(ents) + "}"

    def default_for(self, t, k):
        """A default for an argument / input field of type t declared in input object #k
        (k = large for arguments), or None."""
        if self.rng.random() < 0.55:
            return None
        nm = named(t)
        tt = self.types.get(nm, {})
        if tt.get("kind") == "input" and self.order[nm] >= k:
            if t[0] == "!":
                return "[]" if t[1][0] == "l" else None
            return self.rng.choice(["null", "[]"]) if t[0] == "l" else "null"
        return self.lit(t, k)

    def in_type(self, k, allow_later=True):
        rng = self.rng
        pool = BUILTIN + [n for n, t in self.types.items() if t["kind"] in ("scalar", "enum")]
        inputs = [n for n, t in self.types.items() if t["kind"] == "input"]
        r = rng.random()
        if inputs and r < 0.45:
            nm = rng.choice(inputs)
            if self.order[nm] < k:
                return _wrap_out(rng, N(nm))
            if not allow_later:
                nm = rng.choice(pool)
                return _wrap_out(rng, N(nm))
            # same or later input object: a nullable or list link only
            return rng.choice([N(nm), L(N(nm)), NN(L(NN(N(nm)))), L(NN(N(nm)))])
        return _wrap_out(rng, N(rng.choice(pool)))

    def args(self, n):
        out = {}
        for i in range(n):
            t = self.in_type(10**6)
            d = self.default_for(t, 10**6)
            dep = self.rng.random() < 0.2 and not (t[0] == "!" and d is None)
            out[f"a{i}"] = ival(t, d, dep)
        return out


def gen_valid(rng):
    g = Gen(rng)
    types = g.types
    # scalars, enums
    for i in range(rng.randint(0, 2)):
        types[f"Sc{i}"] = {"kind": "scalar"}
    for i in range(rng.randint(1, 2)):
        types[f"En{i}"] = {"kind": "enum", "values": [f"V{j}" for j in range(rng.randint(1, 3))]}
    # input objects (declared first so later ones can be referenced by name)
    n_in = rng.randint(1, 4)
    for i in range(n_in):
        types[f"In{i}"] = {"kind": "input", "oneOf": False, "fields": {}}
        g.order[f"In{i}"] = i
    for i in range(n_in):
        t = types[f"In{i}"]
        one = rng.random() < 0.25
        t["oneOf"] = one
        for j in range(rng.randint(1, 3)):
            ft = g.in_type(i)
            if one:
                if ft[0] == "!":
                    ft = ft[1]
                t["fields"][f"f{j}"] = ival(ft)
            else:
                d = g.default_for(ft, i)
                dep = rng.random() < 0.15 and not (ft[0] == "!" and d is None)
                t["fields"][f"f{j}"] = ival(ft, d, dep)
    # interfaces
    n_if = rng.randint(0, 3)
    n_obj = rng.randint(1, 4)
    obj_names = [f"Ob{i}" for i in range(n_obj)]
    if_names = [f"If{i}" for i in range(n_if)]
    un_names = [f"Un{i}" for i in range(rng.randint(0, 2))]

    def closure(ifs):
        out = []
        for i in ifs:
            for x in [i] + types[i]["ifaces"]:
                if x not in out:
                    out.append(x)
        return out

    obj_impl = {o: [] for o in obj_names}

    def out_named():
        pool = BUILTIN + [n for n, t in types.items() if t["kind"] in ("scalar", "enum")] + obj_names + if_names + un_names
        return rng.choice(pool)

    def new_field():
        return {"type": _wrap_out(rng, N(out_named())), "args": g.args(rng.choice([0, 0, 1, 2])), "dep": rng.random() < 0.1}

    for i, nm in enumerate(if_names):
        ifs = closure(rng.sample(if_names[:i], rng.randint(0, min(2, i)))) if i else []
        fields = {}
        for parent in ifs:
            for fn, f in types[parent]["fields"].items():
                fields.setdefault(fn, copy.deepcopy(f))
        for j in range(rng.randint(1, 2)):
            fields[f"i{i}f{j}"] = new_field()
        types[nm] = {"kind": "interface", "ifaces": ifs, "fields": fields}
    for o in obj_names:
        obj_impl[o] = closure(rng.sample(if_names, rng.randint(0, min(2, n_if)))) if n_if else []

    def implementers(iface):
        return [o for o in obj_names if iface in obj_impl[o]] + [
            i for i in if_names if iface in types.get(i, {}).get("ifaces", [])
        ]

    def narrow(t):
        """a covariant sub-type of t"""
        r = rng.random()
        if r < 0.5:
            return t
        if t[0] == "!":
            return NN(narrow(t[1]))
        if r < 0.7:
            return NN(t)
        if t[0] == "l":
            return L(narrow(t[1]))
        nm = t[1]
        tt = types.get(nm, {})
        if tt.get("kind") == "interface":
            imp = implementers(nm)
            if imp:
                return N(rng.choice(imp))
        if tt.get("kind") == "union" and tt["members"]:
            return N(rng.choice(tt["members"]))
        return t

    for i, u in enumerate(un_names):
        types[u] = {"kind": "union", "members": rng.sample(obj_names, rng.randint(1, min(3, n_obj)))}
    for o in obj_names:
        fields = {}
        for parent in obj_impl[o]:
            for fn, f in types[parent]["fields"].items():
                if fn in fields:
                    continue
                f2 = copy.deepcopy(f)
                f2["type"] = narrow(f2["type"])
                if rng.random() < 0.2:
                    t = g.in_type(10**6)
                    if t[0] == "!" and rng.random() < 0.7:
                        t = t[1]
                    f2["args"]["extra"] = ival(t, g.default_for(t, 10**6) if t[0] != "!" else g.lit(t, 10**6))
                if f2.get("dep") is False and rng.random() < 0.0:
                    pass
                fields[fn] = f2
        for j in range(rng.randint(0 if fields else 1, 2)):
            fields[f"{o.lower()}f{j}"] = new_field()
        types[o] = {"kind": "object", "ifaces": obj_impl[o], "fields": fields}
    # interfaces implementing interfaces may also narrow: keep as copied (equal types)
    # roots
    qn = rng.choice(["Query", "Query", "RootQ"])
    qf = {}
    for j in range(rng.randint(1, 3)):
        qf[f"q{j}"] = new_field()
    types[qn] = {"kind": "object", "ifaces": [], "fields": qf}
    roots = {"query": qn, "mutation": None, "subscription": None}
    if rng.random() < 0.4:
        mn = "Mutation" if qn == "Query" else "RootM"
        types[mn] = {"kind": "object", "ifaces": [], "fields": {"m": new_field()}}
        roots["mutation"] = mn
    if rng.random() < 0.3:
        sn = "Subscription" if qn == "Query" else "RootS"
        types[sn] = {"kind": "object", "ifaces": [], "fields": {"s": new_field()}}
        roots["subscription"] = sn
    directives = {}
    for i in range(rng.randint(0, 2)):
        directives[f"dir{i}"] = {
            "locations": rng.sample(LOCATIONS, rng.randint(1, 3)),
            "args": g.args(rng.randint(0, 2)),
            "repeatable": rng.random() < 0.3,
        }
    # a stable, shuffled declaration order exercises type-map order independence
    names = list(types)
    rng.shuffle(names)
    return {
        "roots": roots,
        "schema_block": qn != "Query",
        "types": {n: types[n] for n in names},
        "directives": directives,
    }


# ----------------------------------------------------------------------------- mutations


def _of(d, *kinds):
    return [n for n, t in d["types"].items() if t["kind"] in kinds]


def _pick(rng, xs):
    return rng.choice(xs) if xs else None


def _all_args(d):
    """(container dict, arg name, coordinate) of every field argument and directive argument"""
    out = []
    for n, t in d["types"].items():
        if t["kind"] in ("object", "interface"):
            for fn, f in t["fields"].items():
                for an in f["args"]:
                    out.append((f["args"], an))
    for dn, dd in d["directives"].items():
        for an in dd["args"]:
            out.append((dd["args"], an))
    return out


def _all_input_fields(d):
    out = []
    for n, t in d["types"].items():
        if t["kind"] == "input":
            for fn in t["fields"]:
                out.append((t["fields"], fn, n))
    return out


def _ensure_arg(d, rng):
    """make sure some field has an argument; returns (args dict, name)"""
    args = _all_args(d)
    if args:
        return rng.choice(args)
    q = d["types"][d["roots"]["query"]]
    f = next(iter(q["fields"].values()))
    f["args"]["z"] = ival(N("Int"))
    return f["args"], "z"


def _rename_type(d, old, new):
    def rt(t):
        if t[0] == "n":
            return N(new) if t[1] == old else t
        return (t[0], rt(t[1]))

    types = {}
    for n, t in d["types"].items():
        if t["kind"] in ("object", "interface"):
            t["ifaces"] = [new if x == old else x for x in t["ifaces"]]
            for f in t["fields"].values():
                f["type"] = rt(f["type"])
                for iv in f["args"].values():
                    iv["type"] = rt(iv["type"])
        elif t["kind"] == "union":
            t["members"] = [new if x == old else x for x in t["members"]]
        elif t["kind"] == "input":
            for iv in t["fields"].values():
                iv["type"] = rt(iv["type"])
        types[new if n == old else n] = t
    d["types"] = types
    for dd in d["directives"].values():
        for iv in dd["args"].values():
            iv["type"] = rt(iv["type"])
    for op, r in d["roots"].items():
        if r == old:
            d["roots"][op] = new


def m_no_query(d, rng):
    q = d["roots"]["query"]
    d["roots"]["query"] = None
    if not d["schema_block"] or not (d["roots"]["mutation"] or d["roots"]["subscription"]):
        d["schema_block"] = False
        if q == "Query":
            _rename_type(d, "Query", "Qwery")
            d["roots"]["query"] = None
        if d["roots"]["mutation"] not in (None, "Mutation") or d["roots"]["subscription"] not in (None, "Subscription"):
            d["schema_block"] = True
            if not (d["roots"]["mutation"] or d["roots"]["subscription"]):
                return None
    return d


def m_root_not_object(d, rng):
    op = rng.choice(["query", "mutation", "subscription"])
    cand = _of(d, "enum", "input", "interface", "union", "scalar")
    if not cand:
        return None
    d["roots"][op] = rng.choice(cand)
    d["schema_block"] = True
    return d


def m_roots_same(d, rng):
    op = rng.choice(["mutation", "subscription"])
    d["roots"][op] = d["roots"]["query"] if rng.random() < 0.6 or not d["roots"]["mutation"] else d["roots"]["mutation"]
    d["schema_block"] = True
    return d


def m_directive_arg_output_type(d, rng):
    o = _pick(rng, _of(d, "object", "interface", "union"))
    d["directives"]["bad"] = {"locations": ["FIELD"], "args": {"x": ival(_wrap_out(rng, N(o)))}, "repeatable": False}
    return d


def m_reserved_name(d, rng):
    which = rng.choice(["type", "field", "arg", "enum", "input", "directive", "dirarg"])
    if which == "type":
        n = _pick(rng, [n for n in d["types"] if n not in d["roots"].values()])
        if not n:
            return None
        _rename_type(d, n, "__" + n)
    elif which == "field":
        n = _pick(rng, _of(d, "object", "interface"))
        t = d["types"][n]
        t["fields"]["__bad"] = {"type": N("Int"), "args": {}, "dep": False}
    elif which == "arg":
        args, a = _ensure_arg(d, rng)
        args["__" + a] = ival(N("Int"))
    elif which == "enum":
        n = _pick(rng, _of(d, "enum"))
        d["types"][n]["values"].append("__V")
    elif which == "input":
        n = _pick(rng, _of(d, "input"))
        d["types"][n]["fields"]["__f"] = ival(N("Int"))
    elif which == "directive":
        d["directives"]["__d"] = {"locations": ["FIELD"], "args": {}, "repeatable": False}
    else:
        d["directives"]["dd"] = {"locations": ["FIELD"], "args": {"__x": ival(N("Int"))}, "repeatable": False}
    return d


def m_required_deprecated(d, rng):
    which = rng.choice(["arg", "input", "dirarg"])
    t = NN(rng.choice([N("Int"), L(N("String"))]))
    if which == "arg":
        args, a = _ensure_arg(d, rng)
        args[a] = ival(t, None, True)
        # keep implementations consistent is not attempted: extra violations are fine
    elif which == "input":
        n = _pick(rng, [n for n in _of(d, "input") if not d["types"][n]["oneOf"]])
        if not n:
            return None
        d["types"][n]["fields"]["req"] = ival(t, None, True)
    else:
        d["directives"]["dd"] = {"locations": ["FIELD"], "args": {"x": ival(t, None, True)}, "repeatable": False}
    return d


BAD_LITS = {
    "Int": ['"s"', "1.5", "2147483648", "-2147483649", "true", "[1, \"a\"]", "{a: 1}", "E"],
    "Float": ['"s"', "true", "X"],
    "String": ["1", "true", "X", "{a: 1}"],
    "Boolean": ["1", '"true"', "X"],
    "ID": ["1.5", "true", "X"],
}


def m_bad_default(d, rng):
    """a default that does not coerce"""
    slots = [(c, n) for c, n in _all_args(d)] + [(c, n) for c, n, _ in _all_input_fields(d)]
    rng.shuffle(slots)
    for c, n in slots:
        iv = c[n]
        t = iv["type"]
        nm = named(t)
        tt = d["types"].get(nm)
        if t[0] == "!" and rng.random() < 0.3:
            iv["default"] = "null"
            return d
        if t[0] == "l" and t[1][0] == "!" and rng.random() < 0.5:
            iv["default"] = "[null]"
            return d
        if nm in BAD_LITS:
            iv["default"] = rng.choice(BAD_LITS[nm])
            if t[0] == "l" or (t[0] == "!" and t[1][0] == "l"):
                if rng.random() < 0.5:
                    iv["default"] = "[" + iv["default"] + "]"
            return d
        if tt and tt["kind"] == "enum":
            iv["default"] = rng.choice(["NOPE", '"V0"', "1", "{a: 1}"])
            return d
        if tt and tt["kind"] == "input":
            fields = tt["fields"]
            r = rng.random()
            if r < 0.3:
                iv["default"] = "{zzz: 1}"
            elif r < 0.5:
                iv["default"] = "1"
            elif r < 0.7 and tt["oneOf"] and len(fields) > 1:
                fs = list(fields)[:2]
                iv["default"] = "{" + ", ".join(f + ": null" for f in fs) + "}"
            elif tt["oneOf"]:
                iv["default"] = "{" + next(iter(fields)) + ": null}"
            else:
                f = next(iter(fields))
                iv["default"] = "{" + f + ": {q: [1]}, " + f + ": FOO}"
            return d
    return None


def m_default_non_input(d, rng):
    """F6: a default value at an argument / input field whose type is not an input type"""
    o = _pick(rng, _of(d, "object", "interface", "union"))
    lit = rng.choice(["1", '"a"', "{a: 1}", "[1]", "null", "X"])
    r = rng.random()
    if r < 0.4:
        args, a = _ensure_arg(d, rng)
        args[a] = ival(_wrap_out(rng, N(o)), lit)
    elif r < 0.6:
        d["directives"]["dd"] = {"locations": ["FIELD"], "args": {"x": ival(N(o), lit)}, "repeatable": False}
    elif r < 0.8:
        n = _pick(rng, _of(d, "input"))
        d["types"][n]["fields"]["bad"] = ival(N(o), None if d["types"][n]["oneOf"] else lit)
    else:
        # nested: an input object with a field of output type, used by a default elsewhere
        d["types"]["InBad"] = {"kind": "input", "oneOf": False, "fields": {"f": ival(N(o)), "g": ival(N("Int"))}}
        args, a = _ensure_arg(d, rng)
        args[a] = ival(rng.choice([N("InBad"), L(N("InBad"))]), "{f: " + lit + ", g: 1}")
    return d


def m_empty_type(d, rng):
    k = rng.choice(["object", "interface", "input", "enum", "union"])
    name = "Empty" + k.capitalize()
    if k in ("object", "interface"):
        d["types"][name] = {"kind": k, "ifaces": [], "fields": {}}
    elif k == "input":
        d["types"][name] = {"kind": "input", "oneOf": rng.random() < 0.3, "fields": {}}
    elif k == "enum":
        d["types"][name] = {"kind": "enum", "values": []}
    else:
        d["types"][name] = {"kind": "union", "members": []}
    return d


def m_field_input_type(d, rng):
    n = _pick(rng, _of(d, "object", "interface"))
    i = _pick(rng, _of(d, "input"))
    d["types"][n]["fields"]["badOut"] = {"type": _wrap_out(rng, N(i)), "args": {}, "dep": False}
    return d


def m_arg_output_type(d, rng):
    o = _pick(rng, _of(d, "object", "interface", "union"))
    if rng.random() < 0.5:
        args, a = _ensure_arg(d, rng)
        args["badIn"] = ival(_wrap_out(rng, N(o)))
    else:
        n = _pick(rng, _of(d, "input"))
        t = _wrap_out(rng, N(o))
        if d["types"][n]["oneOf"] and t[0] == "!":
            t = t[1]
        d["types"][n]["fields"]["badIn"] = ival(t)
    return d


def m_implements_non_interface(d, rng):
    n = _pick(rng, _of(d, "object", "interface"))
    o = _pick(rng, [x for x in _of(d, "object", "union", "enum", "scalar", "input") if x != n] + ["Int"])
    d["types"][n]["ifaces"].append(o)
    return d


def m_implements_self(d, rng):
    n = _pick(rng, _of(d, "interface"))
    if not n:
        d["types"]["SelfI"] = {"kind": "interface", "ifaces": ["SelfI"], "fields": {"a": {"type": N("Int"), "args": {}, "dep": False}}}
        return d
    d["types"][n]["ifaces"].append(n)
    return d


def m_implements_twice(d, rng):
    c = [n for n in _of(d, "object", "interface") if d["types"][n]["ifaces"]]
    n = _pick(rng, c)
    if not n:
        return None
    d["types"][n]["ifaces"].append(rng.choice(d["types"][n]["ifaces"]))
    return d


def m_missing_transitive(d, rng):
    d["types"]["TA"] = {"kind": "interface", "ifaces": [], "fields": {"ta": {"type": N("Int"), "args": {}, "dep": False}}}
    d["types"]["TB"] = {"kind": "interface", "ifaces": ["TA"], "fields": {"ta": {"type": N("Int"), "args": {}, "dep": False}}}
    k = rng.choice(["object", "interface"])
    d["types"]["TC"] = {"kind": k, "ifaces": ["TB"], "fields": {"ta": {"type": N("Int"), "args": {}, "dep": False}}}
    return d


def m_implements_circular(d, rng):
    f = {"a": {"type": N("Int"), "args": {}, "dep": False}}
    d["types"]["CA"] = {"kind": "interface", "ifaces": ["CB"], "fields": copy.deepcopy(f)}
    d["types"]["CB"] = {"kind": "interface", "ifaces": ["CA"], "fields": copy.deepcopy(f)}
    return d


def _impl_pairs(d):
    out = []
    for n in _of(d, "object", "interface"):
        for i in d["types"][n]["ifaces"]:
            if d["types"].get(i, {}).get("kind") == "interface" and d["types"][i]["fields"]:
                out.append((n, i))
    return out


def _with_impl(d, rng):
    pairs = _impl_pairs(d)
    if pairs:
        return rng.choice(pairs)
    d["types"]["PI"] = {"kind": "interface", "ifaces": [], "fields": {"p": {"type": N("Int"), "args": {"x": ival(N("Int"))}, "dep": False}}}
    d["types"]["PO"] = {"kind": "object", "ifaces": ["PI"], "fields": {"p": {"type": N("Int"), "args": {"x": ival(N("Int"))}, "dep": False}}}
    return "PO", "PI"


def m_iface_field_missing(d, rng):
    n, i = _with_impl(d, rng)
    f = rng.choice(list(d["types"][i]["fields"]))
    del d["types"][n]["fields"][f]
    if not d["types"][n]["fields"]:
        d["types"][n]["fields"]["other"] = {"type": N("Int"), "args": {}, "dep": False}
    return d


def m_iface_field_type(d, rng):
    n, i = _with_impl(d, rng)
    f = rng.choice(list(d["types"][i]["fields"]))
    it = d["types"][i]["fields"][f]["type"]
    tf = d["types"][n]["fields"][f]
    r = rng.random()
    if it[0] == "!" and r < 0.5:
        tf["type"] = it[1]  # nullable where non-null is expected
    elif r < 0.7:
        tf["type"] = L(it) if it[0] != "!" else NN(L(it[1]))
    else:
        other = "String" if named(it) != "String" else "Int"

        def rn(t):
            return N(other) if t[0] == "n" else (t[0], rn(t[1]))

        tf["type"] = rn(it)
    return d


def m_iface_super_not_sub(d, rng):
    """interface field is an object type, implementation returns the interface (contravariant)"""
    d["types"]["VI"] = {"kind": "interface", "ifaces": [], "fields": {"v": {"type": N("VO"), "args": {}, "dep": False}}}
    d["types"]["VO"] = {"kind": "object", "ifaces": ["VI"], "fields": {"v": {"type": N("VI"), "args": {}, "dep": False}}}
    return d


def m_iface_arg_missing(d, rng):
    n, i = _with_impl(d, rng)
    f = rng.choice(list(d["types"][i]["fields"]))
    d["types"][i]["fields"][f]["args"]["needed"] = ival(N("Int"))
    return d


def m_iface_arg_type(d, rng):
    n, i = _with_impl(d, rng)
    f = rng.choice(list(d["types"][i]["fields"]))
    t = rng.choice([N("Int"), L(N("Int")), NN(N("Int"))])
    t2 = rng.choice([x for x in [N("Int"), L(N("Int")), NN(N("Int")), N("String"), NN(L(N("Int")))] if x != t])
    d["types"][i]["fields"][f]["args"]["dif"] = ival(t, "1" if t2[0] == "!" or t[0] == "!" else None)
    d["types"][n]["fields"][f]["args"]["dif"] = ival(t2, "1" if t2[0] == "!" or t[0] == "!" else None)
    if named(t2) == "String":
        d["types"][i]["fields"][f]["args"]["dif"]["default"] = None
        d["types"][n]["fields"][f]["args"]["dif"]["default"] = None
        if t[0] == "!":
            d["types"][i]["fields"][f]["args"]["dif"]["type"] = t[1]
    return d


def m_extra_required_arg(d, rng):
    n, i = _with_impl(d, rng)
    f = rng.choice(list(d["types"][i]["fields"]))
    d["types"][n]["fields"][f]["args"]["mustGive"] = ival(NN(N("Int")))
    return d


def m_impl_deprecated(d, rng):
    n, i = _with_impl(d, rng)
    f = rng.choice(list(d["types"][i]["fields"]))
    d["types"][i]["fields"][f]["dep"] = False
    d["types"][n]["fields"][f]["dep"] = True
    return d


def m_union_dup(d, rng):
    u = _pick(rng, [n for n in _of(d, "union") if d["types"][n]["members"]])
    if not u:
        o = _pick(rng, _of(d, "object"))
        d["types"]["DupU"] = {"kind": "union", "members": [o, o]}
        return d
    d["types"][u]["members"].append(rng.choice(d["types"][u]["members"]))
    return d


def m_union_non_object(d, rng):
    u = _pick(rng, _of(d, "union"))
    bad = _pick(rng, _of(d, "interface", "enum", "input", "scalar") + ["Int"])
    if not u:
        d["types"]["BadU"] = {"kind": "union", "members": [bad]}
        return d
    d["types"][u]["members"].append(bad if bad != u else "Int")
    return d


def m_union_in_union(d, rng):
    o = _pick(rng, _of(d, "object"))
    d["types"]["UU1"] = {"kind": "union", "members": [o]}
    d["types"]["UU2"] = {"kind": "union", "members": ["UU1"]}
    return d


def m_oneof_nonnull(d, rng):
    d["types"]["OneBad"] = {"kind": "input", "oneOf": True, "fields": {"a": ival(N("Int")), "b": ival(NN(N("String")))}}
    return d


def m_oneof_default(d, rng):
    d["types"]["OneDef"] = {"kind": "input", "oneOf": True, "fields": {"a": ival(N("Int"), rng.choice(["1", "null"])), "b": ival(N("String"))}}
    return d


def m_nonnull_cycle(d, rng):
    r = rng.random()
    if r < 0.35:
        d["types"]["CyA"] = {"kind": "input", "oneOf": False, "fields": {"self": ival(NN(N("CyA"))), "x": ival(N("Int"))}}
    elif r < 0.7:
        d["types"]["CyA"] = {"kind": "input", "oneOf": False, "fields": {"x": ival(N("Int")), "b": ival(NN(N("CyB")))}}
        d["types"]["CyB"] = {"kind": "input", "oneOf": False, "fields": {"a": ival(NN(N("CyA")))}}
    else:
        d["types"]["CyA"] = {"kind": "input", "oneOf": False, "fields": {"b": ival(NN(N("CyB")))}}
        d["types"]["CyB"] = {"kind": "input", "oneOf": False, "fields": {"c": ival(NN(N("CyC"))), "c2": ival(N("CyC"))}}
        d["types"]["CyC"] = {"kind": "input", "oneOf": False, "fields": {"a": ival(NN(N("CyA"))), "b": ival(NN(N("CyB")))}}
    return d


def m_default_cycle(d, rng):
    r = rng.random()
    if r < 0.3:
        d["types"]["DcA"] = {"kind": "input", "oneOf": False, "fields": {"a": ival(N("DcA"), "{}")}}
    elif r < 0.6:
        d["types"]["DcA"] = {"kind": "input", "oneOf": False, "fields": {"b": ival(N("DcB"), "{}"), "x": ival(N("Int"), "1")}}
        d["types"]["DcB"] = {"kind": "input", "oneOf": False, "fields": {"a": ival(L(N("DcA")), "[{}]")}}
    elif r < 0.8:
        d["types"]["DcA"] = {"kind": "input", "oneOf": False, "fields": {"b": ival(N("DcB"), "{a: {}}")}}
        d["types"]["DcB"] = {"kind": "input", "oneOf": False, "fields": {"a": ival(N("DcA")), "x": ival(N("Int"))}}
    else:
        d["types"]["DcA"] = {"kind": "input", "oneOf": False, "fields": {"b": ival(N("DcB"), "{x: 1}")}}
        d["types"]["DcB"] = {"kind": "input", "oneOf": False, "fields": {"a": ival(N("DcA"), "{b: {a: {}}}"), "x": ival(N("Int"))}}
    return d


def m_oneof_cycle(d, rng):
    """a OneOf input object without a finite value (valid by the 'nullable, no default' OneOf rule)"""
    r = rng.random()
    if r < 0.4:
        d["types"]["OcA"] = {"kind": "input", "oneOf": True, "fields": {"a": ival(N("OcA"))}}
    elif r < 0.7:
        d["types"]["OcA"] = {"kind": "input", "oneOf": True, "fields": {"b": ival(N("OcB"))}}
        d["types"]["OcB"] = {"kind": "input", "oneOf": False, "fields": {"a": ival(NN(N("OcA"))), "x": ival(N("Int"))}}
    else:
        d["types"]["OcA"] = {"kind": "input", "oneOf": True, "fields": {"a": ival(N("OcA")), "b": ival(N("OcB"))}}
        d["types"]["OcB"] = {"kind": "input", "oneOf": True, "fields": {"a": ival(N("OcA"))}}
    return d


def m_oneof_recursive_ok(d, rng):
    """control: recursive OneOf objects that do have finite values"""
    d["types"]["OkOne"] = {"kind": "input", "oneOf": True, "fields": {"self": ival(N("OkOne")), "l": ival(L(NN(N("OkOne")))), "i": ival(N("Int"))}}
    return d


def chain_sdl(n, mode):
    """a valid schema whose input objects form a reference chain of length n"""
    parts = ["type Query { f(a: A0): Int }"]
    for i in range(n):
        link = f"f: A{i + 1}!" if mode == "nonnull" else f"f: A{i + 1} = {{}}"
        parts.append(f"input A{i} {{ {link} }}")
    parts.append(f"input A{n} {{ x: Int }}")
    return "\n".join(parts) + "\n"


def m_directive_on_nothing_ok(d, rng):
    """control: stays valid"""
    d["types"]["OkA"] = {"kind": "input", "oneOf": False, "fields": {"a": ival(N("OkA"), rng.choice(["null", "{a: null}", "{a: {a: null}}"])), "l": ival(NN(L(NN(N("OkA")))), "[]")}}
    return d


MUTATIONS = [
    ("no_query", m_no_query),
    ("root_not_object", m_root_not_object),
    ("roots_same", m_roots_same),
    ("directive_arg_output_type", m_directive_arg_output_type),
    ("reserved_name", m_reserved_name),
    ("required_deprecated", m_required_deprecated),
    ("bad_default", m_bad_default),
    ("default_non_input", m_default_non_input),
    ("empty_type", m_empty_type),
    ("field_input_type", m_field_input_type),
    ("arg_output_type", m_arg_output_type),
    ("implements_non_interface", m_implements_non_interface),
    ("implements_self", m_implements_self),
    ("implements_twice", m_implements_twice),
    ("missing_transitive", m_missing_transitive),
    ("implements_circular", m_implements_circular),
    ("iface_field_missing", m_iface_field_missing),
    ("iface_field_type", m_iface_field_type),
    ("iface_super_not_sub", m_iface_super_not_sub),
    ("iface_arg_missing", m_iface_arg_missing),
    ("iface_arg_type", m_iface_arg_type),
    ("extra_required_arg", m_extra_required_arg),
    ("impl_deprecated", m_impl_deprecated),
    ("union_dup", m_union_dup),
    ("union_non_object", m_union_non_object),
    ("union_in_union", m_union_in_union),
    ("oneof_nonnull", m_oneof_nonnull),
    ("oneof_default", m_oneof_default),
    ("nonnull_cycle", m_nonnull_cycle),
    ("default_cycle", m_default_cycle),
    ("control_valid_recursion", m_directive_on_nothing_ok),
    ("oneof_cycle", m_oneof_cycle),
    ("control_oneof_recursive", m_oneof_recursive_ok),
]


def mutate(d, name, fn, rng):
    d2 = copy.deepcopy(d)
    try:
        return fn(d2, rng)
    except (KeyError, IndexError, TypeError, StopIteration):
        return None


# ----------------------------------------------------------------------------- grammar-random


def gen_random(rng):
    """A type system whose references are drawn without regard to kinds."""
    n = rng.randint(2, 7)
    kinds = ["object", "object", "interface", "union", "enum", "input", "input", "scalar"]
    names = [f"T{i}" for i in range(n)]
    pool = names + ["Int", "String", "Boolean", "Query"]
    types = {}

    def rt():
        t = N(rng.choice(pool))
        for _ in range(rng.choice([0, 0, 1, 1, 2])):
            t = rng.choice([L, NN])(t)
        return t

    def rlit(depth=0):
        r = rng.random()
        if r < 0.5 or depth > 2:
            return rng.choice(["1", '"s"', "true", "null", "V0", "1.5", "[]", "{}"])
        if r < 0.7:
            return "[" + ", ".join(rlit(depth + 1) for _ in range(rng.randint(0, 2))) + "]"
        return "{" + ", ".join(f"f{rng.randint(0, 2)}: {rlit(depth + 1)}" for _ in range(rng.randint(0, 2))) + "}"

    def riv():
        return ival(rt(), rlit() if rng.random() < 0.4 else None, rng.random() < 0.2)

    def rfields():
        out = {}
        for j in range(rng.choice([0, 1, 1, 2, 3])):
            fname = rng.choice([f"f{j}", f"f{j}", "__x"]) if rng.random() < 0.1 else f"f{j}"
            out[fname] = {"type": rt(), "args": {f"a{k}": riv() for k in range(rng.choice([0, 0, 1, 2]))}, "dep": rng.random() < 0.15}
        return out

    for nm in names + ["Query"]:
        k = "object" if nm == "Query" and rng.random() < 0.85 else rng.choice(kinds)
        if k in ("object", "interface"):
            types[nm] = {"kind": k, "ifaces": [rng.choice(pool) for _ in range(rng.choice([0, 0, 1, 1, 2]))], "fields": rfields()}
        elif k == "union":
            types[nm] = {"kind": k, "members": [rng.choice(pool) for _ in range(rng.choice([0, 1, 2, 3]))]}
        elif k == "enum":
            types[nm] = {"kind": k, "values": [f"V{j}" for j in range(rng.choice([0, 1, 2]))]}
        elif k == "input":
            types[nm] = {"kind": k, "oneOf": rng.random() < 0.25, "fields": {f"f{j}": riv() for j in range(rng.choice([0, 1, 2, 3]))}}
        else:
            types[nm] = {"kind": "scalar"}
    roots = {"query": "Query", "mutation": None, "subscription": None}
    sb = False
    if rng.random() < 0.4:
        sb = True
        roots = {"query": rng.choice(pool + [None]), "mutation": rng.choice(pool + [None, None]), "subscription": rng.choice(pool + [None, None, None])}
        if not any(roots.values()):
            sb = False
            roots["query"] = "Query"
    directives = {}
    if rng.random() < 0.5:
        directives["rd"] = {"locations": rng.sample(LOCATIONS, rng.randint(1, 2)), "args": {f"a{k}": riv() for k in range(rng.choice([0, 1, 2]))}, "repeatable": rng.random() < 0.3}
    return {"roots": roots, "schema_block": sb, "types": types, "directives": directives}


# ----------------------------------------------------------------------------- Python-value defaults
# (GraphQLDefaultInput(value=...) on arguments, input fields and directive arguments: only
# programmatic construction can produce them).  Values are JSON; a tuple is {"__t": [...]}.

EXCEPTIONS = ["KeyError", "ValueError", "ZeroDivisionError", "AttributeError", "TypeError", "IndexError", "RuntimeError", "GraphQLError", "AssertionError", "LookupError", "OverflowError"]

_BAD_LEAF = {
    "Int": ["s", 1.5, True, 2147483648, -2147483649, [1, "a"], {"a": 1}, float("inf")],
    "Float": ["x", True, {"a": 1}, [1.5, "y"]],
    "String": [1, True, 1.5, {"a": 1}, ["a", 2]],
    "Boolean": [1, "true", 0.0, {"a": 1}],
    "ID": [1.5, True, {"a": 1}, [[1]]],
}
_GOOD_LEAF = {
    "Int": [0, 7, -2147483648, 2.0],
    "Float": [1.5, 2, -3],
    "String": ["", "a"],
    "Boolean": [True, False],
    "ID": ["id", 7, 3.0],
}


def _value_for(rng, d, t, bad, depth=0):
    """(value, made_bad) — a Python value for type t; when `bad`, wrong in one of many ways."""
    if t[0] == "!":
        if bad and rng.random() < 0.25:
            return None, True
        return _value_for(rng, d, t[1], bad, depth)
    if not bad and rng.random() < 0.1:
        return None, False
    if t[0] == "l":
        r = rng.random()
        if bad and r < 0.2:
            return {"zz": 1}, True  # wrong container
        if r < 0.35:
            return _value_for(rng, d, t[1], bad, depth + 1)  # list of one
        n = rng.randint(0 if not bad else 1, 3)
        items, any_bad = [], False
        pos = rng.randrange(n) if n else 0
        for i in range(n):
            v, b = _value_for(rng, d, t[1], bad and i == pos, depth + 1)
            items.append(v)
            any_bad = any_bad or b
        if rng.random() < 0.3:
            return {"__t": items}, any_bad
        return items, any_bad
    nm = t[1]
    if nm in _BAD_LEAF:
        return (rng.choice(_BAD_LEAF[nm]), True) if bad else (rng.choice(_GOOD_LEAF[nm]), False)
    tt = d["types"].get(nm)
    if tt is None:
        return 1, False
    if tt["kind"] == "scalar":
        return rng.choice([1, "x", {"a": [1, None]}, [1, 2], True, 1.5]), False
    if tt["kind"] == "enum":
        if bad:
            return rng.choice(["NOPE", 1, True, ["V0", "NOPE"], {"V0": 1}, "not a name", 0.5]), True
        return rng.choice(tt["values"]), False
    if tt["kind"] == "input":
        fields = tt["fields"]
        if bad:
            r = rng.random()
            if r < 0.2:
                return rng.choice([1, "x", True, [[1]], 2.5]), True  # wrong container
        if depth > 3:
            return ({"zz": 1}, True) if bad else (None, False)
        out = {}
        names = list(fields)
        if tt.get("oneOf"):
            f = rng.choice(names)
            v, b = _value_for(rng, d, NN(fields[f]["type"]) if not bad else fields[f]["type"], False, depth + 1)
            out[f] = v
            if bad:
                r = rng.random()
                if r < 0.4:
                    out[f] = None
                elif r < 0.7 and len(names) > 1:
                    out[[x for x in names if x != f][0]] = None
                else:
                    out["unknownKey"] = 1
                return out, True
            return out, (v is None)
        mode = rng.choice(["unknown", "missing", "nested", "unknown"]) if bad else None
        made = False
        for f in names:
            iv = fields[f]
            req = iv["type"][0] == "!" and iv["default"] is None
            if req and mode == "missing" and not made:
                made = True
                continue
            if req or rng.random() < 0.4:
                v, b = _value_for(rng, d, iv["type"], mode == "nested" and not made, depth + 1)
                made = made or b
                out[f] = v
        if bad and not made:
            out[rng.choice(["zz", "unknownKey", "x1"])] = rng.choice([1, None, {"a": 1}])
            made = True
        return out, made
    # not an input type at all
    return rng.choice([1, {"a": 1}, None]), False


def gen_value_tweaks(rng, d):
    """tweaks (see checks/c20.py `build`) that add arguments / input fields / directive arguments
    whose default is a Python value, mostly invalid; and custom scalars whose callbacks raise."""
    q = d["roots"]["query"]
    qt = d["types"].get(q)
    if not qt or qt["kind"] != "object" or not qt["fields"]:
        return []
    qf = rng.choice(list(qt["fields"]))
    inputs = [n for n, t in d["types"].items() if t["kind"] == "input"]
    plain_inputs = [n for n in inputs if not d["types"][n]["oneOf"]]
    enums = [n for n, t in d["types"].items() if t["kind"] == "enum"]
    scalars = [n for n, t in d["types"].items() if t["kind"] == "scalar"]
    pool = BUILTIN + enums + inputs + inputs + scalars
    tweaks = []
    for k in range(rng.randint(1, 3)):
        t = N(rng.choice(pool))
        for _ in range(rng.choice([0, 0, 1, 1, 2])):
            t = rng.choice([L, NN])(t)
        bad = rng.random() < 0.8
        v, _ = _value_for(rng, d, t, bad)
        where = rng.choice(["arg", "arg", "input", "dirarg"])
        if where == "input" and not plain_inputs:
            where = "arg"
        if where == "arg":
            tweaks.append(["add_value_default", "arg", q, qf, f"pv{k}", show_t(t), v])
        elif where == "input":
            tweaks.append(["add_value_default", "input", rng.choice(plain_inputs), None, f"pv{k}", show_t(t), v])
        else:
            tweaks.append(["add_value_default", "dirarg", f"pvd{k}", None, "x", show_t(t), v])
    if rng.random() < 0.6:
        # a custom scalar whose parse_value / serialize raise
        pe = rng.choice(["accept", "reject"] + ["raise:" + e for e in EXCEPTIONS])
        se = rng.choice(["identity", "const"] + ["raise:" + e for e in EXCEPTIONS] * 2)
        tweaks.append(["raising_scalar", "Rs", pe, se])
        t = rng.choice([N("Rs"), NN(N("Rs")), L(N("Rs")), NN(L(NN(N("Rs"))))])
        v = rng.choice([3, "x", [1, 2], {"a": 1}, [None], None, 1.5])
        where = rng.choice(["arg", "input", "dirarg"])
        if where == "input" and not plain_inputs:
            where = "arg"
        if where == "arg":
            tweaks.append(["add_value_default", "arg", q, qf, "prs", show_t(t), v])
        elif where == "input":
            tweaks.append(["add_value_default", "input", rng.choice(plain_inputs), None, "prs", show_t(t), v])
        else:
            tweaks.append(["add_value_default", "dirarg", "prsd", None, "x", show_t(t), v])
        if inputs and rng.random() < 0.5:
            # the raising scalar behind an input object: {f: <bad>} given for a new field
            i = rng.choice(plain_inputs) if plain_inputs else None
            if i:
                tweaks.append(["add_value_default", "input", i, None, "prsIn", "Rs", rng.choice([3, "x"])])
    return tweaks
