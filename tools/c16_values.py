"""Value-layer helpers shared by checks/c16.py and checks/c15.py.

Wire format (see lean/Driver/ValProto.lean): prefix tokens with explicit counts.  Python values
cross the boundary exactly: ints in decimal (with CPython's digit limit lifted while encoding),
floats as sign/mantissa/exponent, strings as code points.  The CPython conversions the Lean
models take as parameters (`int(str)`, `float(str)`, `float(int)`, `str(float)`, `str(int)`)
are computed here, by CPython, for everything that occurs in a case and shipped with the case.
"""
from __future__ import annotations

import contextlib
import math
import struct
import sys

_DEFAULT_DIGITS = sys.get_int_max_str_digits() if hasattr(sys, "get_int_max_str_digits") else 0


@contextlib.contextmanager
def unlimited_digits():
    if not hasattr(sys, "set_int_max_str_digits"):
        yield
        return
    old = sys.get_int_max_str_digits()
    sys.set_int_max_str_digits(0)
    try:
        yield
    finally:
        sys.set_int_max_str_digits(old)


def istr(z: int) -> str:
    with unlimited_digits():
        return int.__repr__(int(z))


def enc_str(s: str) -> str:
    if not s:
        return "0"
    return f"{len(s)} " + " ".join(str(ord(c)) for c in s)


def enc_float(f: float) -> str:
    f = float(f)
    if f != f:
        return "Fn"
    if f in (math.inf, -math.inf):
        return f"Fi {1 if f < 0 else 0}"
    neg = 1 if math.copysign(1.0, f) < 0 else 0
    n, d = abs(f).as_integer_ratio()
    if n == 0:
        return f"Ff {neg} 0 0"
    e = -(d.bit_length() - 1)
    while n % 2 == 0:
        n //= 2
        e += 1
    return f"Ff {neg} {n} {e}"


class Registry:
    """identity/equality tags for opaque objects"""

    def __init__(self):
        self.objs = []

    def tag(self, o) -> int:
        for i, r in enumerate(self.objs):
            if r is o:
                return i
            if type(r) is type(o):
                try:
                    if (r == o) is True:
                        return i
                except Exception:  # noqa: BLE001
                    pass
        self.objs.append(o)
        return len(self.objs) - 1


def probe_str(o):
    """what `str(o)` returns, or None if it raises"""
    try:
        s = str(o)
    except Exception:  # noqa: BLE001
        return None
    return s if isinstance(s, str) else None


def enc_val(v, reg: Registry, undefined, short=False) -> str:
    """Python value -> tokens.  `short`: opaque objects as `O tag` (outputs)."""
    if v is None:
        return "N"
    if v is undefined:
        return "U"
    if isinstance(v, bool):
        return "T" if v else "F"
    if isinstance(v, int):
        return "I " + istr(v)
    if isinstance(v, float):
        return enc_float(v)
    if isinstance(v, str):
        return "S " + enc_str(v)
    if type(v) is list:
        return " ".join([f"L {len(v)}"] + [enc_val(x, reg, undefined, short) for x in v])
    if type(v) is tuple:
        return " ".join([f"P {len(v)}"] + [enc_val(x, reg, undefined, short) for x in v])
    if type(v) is dict and all(isinstance(k, str) for k in v):
        return " ".join(
            [f"D {len(v)}"] + [enc_str(k) + " " + enc_val(x, reg, undefined, short) for k, x in v.items()]
        )
    t = reg.tag(v)
    if short:
        return f"O {t}"
    b = 1 if type(v).__module__ == "builtins" else 0
    s = probe_str(v)
    return f"O {t} {b} " + ("0" if s is None else "1 " + enc_str(s))


def is_opaque(v, undefined) -> bool:
    return not (
        v is None
        or v is undefined
        or isinstance(v, (bool, int, float, str))
        or type(v) in (list, tuple)
        or (type(v) is dict and all(isinstance(k, str) for k in v))
    )


def walk(v, undefined, ints, floats, strs):
    if v is None or v is undefined:
        return
    if isinstance(v, bool):
        return
    if isinstance(v, int):
        ints.add(int(v))
    elif isinstance(v, float):
        floats.append(float(v))
    elif isinstance(v, str):
        strs.add(str(v))
    elif type(v) in (list, tuple):
        for x in v:
            walk(x, undefined, ints, floats, strs)
    elif type(v) is dict:
        for k, x in v.items():
            if isinstance(k, str):
                strs.add(k)
            walk(x, undefined, ints, floats, strs)


def conv_table(values, undefined, extra_strs=(), extra_ints=()) -> str:
    """conversions CPython performs on everything occurring in `values`"""
    ints, floats, strs = set(extra_ints), [], set(extra_strs)
    for v in values:
        walk(v, undefined, ints, floats, strs)
    entries = []
    seen_f = set()
    fl = []
    for f in floats:
        k = enc_float(f)
        if k not in seen_f:
            seen_f.add(k)
            fl.append(f)
    # strings: int(s), float(s)
    for s in sorted(strs):
        try:
            r = int(s)
            ints.add(r)
            entries.append(f"is {enc_str(s)} {istr(r)}")
        except ValueError:
            entries.append(f"is {enc_str(s)} -")
        try:
            r = float(s)
            entries.append(f"fs {enc_str(s)} {enc_float(r)}")
            k = enc_float(r)
            if k not in seen_f:
                seen_f.add(k)
                fl.append(r)
        except ValueError:
            entries.append(f"fs {enc_str(s)} -")
    # floats: str(f); whole numbers also feed the int table
    for f in fl:
        if math.isfinite(f):
            entries.append(f"sf {enc_float(f)} {enc_str(float.__repr__(f))}")
            if f == int(f):
                ints.add(int(f))
    # ints: float(z), str(z)
    for z in sorted(ints):
        try:
            r = float(z)
            entries.append(f"fi {istr(z)} {enc_float(r)}")
            if math.isfinite(r):
                k = enc_float(r)
                if k not in seen_f:
                    seen_f.add(k)
                    entries.append(f"sf {k} {enc_str(float.__repr__(r))}")
        except OverflowError:
            entries.append(f"fi {istr(z)} -")
        try:
            entries.append(f"si {istr(z)} {enc_str(int.__repr__(z))}")
        except ValueError:
            entries.append(f"si {istr(z)} -")
    return f"{len(entries)} " + " ".join(entries) if entries else "0"


def float_from_bits(bits: int) -> float:
    return struct.unpack("<d", struct.pack("<Q", bits & (2**64 - 1)))[0]
