"""C03 harness: controlled asyncio execution of graphql-core from the outside.

No source hooks.  The harness supplies every resolver / type resolver / is_type_of / iterator and
keeps a future for every awaitable it hands to the executor; it resolves them in a chosen order
and runs the event loop to quiescence between resolutions.

Case format (JSON-able, see `gen_case` in checks/c03.py):
  {"variant": "A"|"B", "op": "query"|"mutation", "sel": [...], "frags": {...}, "data": VS, "k": n}
selection item : {"f": field, "a": alias|None, "sel": [...]} | {"on": type|None, "sel": [...]}
                 | {"spread": name}
value spec VS  : {"t":"leaf","v":str|None} | {"t":"raise"} |
                 {"t":"obj","tn":..,"ito":bool,"rt_aw":site|None,"ito_aw":site|None,"f":{rk:VS}} |
                 {"t":"list","items":[VS..],"aiter":site|None,"iter_raise":bool}
                 each with optional "aw": site|None (own result is an awaitable), "co": bool
A run is (case, mask = set of sites that are awaitable in this run, schedule = list of groups of
sites; at every tick the first group that has a pending handle is resolved completely).
"""
from __future__ import annotations

import asyncio

# ------------------------------------------------------------------------------------ schema

# field name -> (outer_nn, is_list, item_nn, base)
FIELDS = {
    "s": (False, False, False, "String"),
    "sn": (True, False, False, "String"),
    "o": (False, False, False, "T"),
    "on": (True, False, False, "T"),
    "v": (False, False, False, "V"),
    "i": (False, False, False, "I"),
    "inn": (True, False, False, "I"),
    "u": (False, False, False, "U"),
    "l": (False, True, False, "T"),
    "ln": (False, True, True, "T"),
    "nln": (True, True, True, "T"),
    "ls": (False, True, False, "String"),
    "lsn": (True, True, True, "String"),
    "li": (False, True, False, "I"),
    "lin": (False, True, True, "I"),
}
OBJECT_TYPES = ("T", "V", "W")
ABSTRACT = ("I", "U")


def field_of(rk: str) -> str:
    """Response keys are `<field>` or `<field>_<n>` (alias)."""
    return rk.split("_", 1)[0]


class Obj:
    """A source object (deliberately not a Mapping: default type resolution must use is_type_of)."""

    __slots__ = ("tn", "ito", "ito_aw", "rt_aw", "f", "path", "run")

    def __init__(self, vs, path, run):
        self.tn = vs.get("tn", "T")
        self.ito = vs.get("ito", True)
        self.ito_aw = vs.get("ito_aw")
        self.rt_aw = vs.get("rt_aw")
        self.f = vs.get("f", {})
        self.path = path
        self.run = run


class ResolverError(Exception):
    pass


_SCHEMAS = {}
DEFAULT_MODES = {"T": "aw", "V": "aw", "W": "aw"}


def modes_of(case):
    """is_type_of mode per object type: "none" (no predicate), "sync" (always a plain bool),
    "aw" (an awaitable whenever the value's `ito_aw` site is awaitable in this run)."""
    m = dict(DEFAULT_MODES)
    m.update(case.get("ito_modes") or {})
    return m


def build_schema(variant: str, modes=None):
    """Schema family: every object type has the same field table (FIELDS)."""
    modes = dict(DEFAULT_MODES, **(modes or {}))
    key = (variant, tuple(sorted(modes.items())))
    if key in _SCHEMAS:
        return _SCHEMAS[key]
    from graphql import (
        GraphQLField,
        GraphQLInterfaceType,
        GraphQLList,
        GraphQLNonNull,
        GraphQLObjectType,
        GraphQLSchema,
        GraphQLString,
        GraphQLUnionType,
    )

    types = {}

    def gql_type(fname):
        onn, is_list, inn, base = FIELDS[fname]
        t = GraphQLString if base == "String" else types[base]
        if is_list:
            if inn:
                t = GraphQLNonNull(t)
            t = GraphQLList(t)
        if onn:
            t = GraphQLNonNull(t)
        return t

    def fields():
        return {name: GraphQLField(gql_type(name)) for name in FIELDS}

    def make_ito(name):
        mode = modes[name]
        if mode == "none":
            return None

        def is_type_of(value, info):
            run = value.run
            ok = bool(value.tn == name and value.ito)
            run.events.append(("I", list(value.path), name))
            if mode == "aw" and value.ito_aw is not None and value.ito_aw in run.mask:
                return run.new_handle(value.ito_aw, value.path, "ito", ok, None)
            return ok

        return is_type_of

    def resolve_type(value, info, abstract_type):
        run = value.run
        run.events.append(("Y", list(value.path)))
        if value.rt_aw is not None and value.rt_aw in run.mask:
            return run.new_handle(value.rt_aw, value.path, "rt", value.tn, None)
        return value.tn

    rt = resolve_type if variant == "A" else None
    types["I"] = GraphQLInterfaceType("I", fields, resolve_type=rt)
    for name in OBJECT_TYPES:
        types[name] = GraphQLObjectType(
            name, fields, interfaces=lambda: [types["I"]], is_type_of=make_ito(name)
        )
    types["U"] = GraphQLUnionType("U", lambda: [types[n] for n in OBJECT_TYPES], resolve_type=rt)
    types["Q"] = GraphQLObjectType("Q", fields)
    types["M"] = GraphQLObjectType("M", fields)
    schema = GraphQLSchema(
        query=types["Q"], mutation=types["M"], types=[types[n] for n in OBJECT_TYPES] + [types["U"]]
    )
    _SCHEMAS[key] = schema
    return schema


def possible_order(variant, modes, base):
    """Names of the possible types of an abstract type in the order the executor tries them."""
    schema = build_schema(variant, modes)
    return [t.name for t in schema.get_possible_types(schema.type_map[base])]


# ------------------------------------------------------------------------------------ documents


def print_sel(sel) -> str:
    out = []
    for it in sel:
        if "f" in it:
            head = (it["a"] + ": " if it.get("a") else "") + it["f"]
            out.append(head + (" " + print_sel(it["sel"]) if it.get("sel") else ""))
        elif "spread" in it:
            out.append("..." + it["spread"])
        else:
            out.append("..." + (" on " + it["on"] if it.get("on") else "") + " " + print_sel(it["sel"]))
    return "{ " + " ".join(out) + " }"


def print_doc(case) -> str:
    s = ("mutation " if case["op"] == "mutation" else "") + print_sel(case["sel"])
    for name, fr in case.get("frags", {}).items():
        s += f" fragment {name} on {fr['on']} " + print_sel(fr["sel"])
    return s


# ------------------------------------------------------------------------------------ one run


class Handle:
    __slots__ = ("site", "path", "kind", "value", "exc", "fut", "seq")


class HFuture(asyncio.Future):
    """A harness future that records its cancellation at the moment `cancel()` is called (a done
    callback would only run on a later loop iteration)."""

    on_cancel = None

    def cancel(self, msg=None):
        ok = super().cancel(msg)
        if ok and self.on_cancel is not None:
            self.on_cancel()
        return ok


class Run:
    """State of one controlled execution."""

    def __init__(self, case, mask, loop=None):
        self.case = case
        self.mask = frozenset(mask)
        self.events = []
        self.handles = []
        self.loop = loop

    # -- awaitables handed to the executor
    def new_handle(self, site, path, kind, value, exc, co=False, cleanup=0):
        h = Handle()
        h.site, h.path, h.kind, h.value, h.exc = site, list(path), kind, value, exc
        h.seq = len(self.handles)
        h.fut = HFuture(loop=self.loop)
        self.handles.append(h)
        self.events.append(("H", h.seq, site, list(path), kind))
        h.fut.on_cancel = lambda h=h: self.events.append(("C", h.seq, h.site, h.path, h.kind))
        if co:
            # a resolver coroutine: records when its body starts ("B"), when a cancellation is
            # delivered to it ("X") and when it has finished ("E"), with an awaited cleanup step
            # (`cleanup` further loop iterations) in its `finally`
            async def wrapper(f=h.fut, h=h):
                self.events.append(("B", h.seq, h.site, h.path, h.kind))
                closed = False
                try:
                    return await f
                except asyncio.CancelledError:
                    self.events.append(("X", h.seq, h.site, h.path, h.kind))
                    raise
                except GeneratorExit:  # closed / garbage collected: nothing may be awaited
                    closed = True
                    raise
                finally:
                    try:
                        if not closed:
                            for _ in range(cleanup):
                                await asyncio.sleep(0)
                    except asyncio.CancelledError:
                        # a second cancellation interrupts the cleanup itself
                        self.events.append(("X2", h.seq, h.site, h.path, h.kind))
                        raise
                    finally:
                        self.events.append(("E", h.seq, h.site, h.path, h.kind))

            return wrapper()
        return h.fut

    def resolve(self, h):
        if h.fut.done():
            return False
        self.events.append(("R", h.seq, h.site, h.path, h.kind))
        if h.exc is not None:
            h.fut.set_exception(h.exc)
        else:
            # values are built when the awaitable completes (nested awaitables start to exist then)
            h.fut.set_result(h.value() if callable(h.value) else h.value)
        return True

    # -- raw python values from value specs
    def is_aw(self, site):
        return site is not None and site in self.mask

    def raw(self, vs, path):
        """The plain (already resolved) Python value for a value spec at `path`."""
        t = vs["t"]
        if t == "leaf":
            return vs.get("v")
        if t == "raise":
            return ResolverError("boom@" + ".".join(map(str, path)))
        if t == "obj":
            return Obj(vs, path, self)
        if t == "list":
            if self.is_aw(vs.get("aiter")):
                return AIter(self, vs, path)
            items = [self.item(it, path + [n]) for n, it in enumerate(vs["items"])]
            if vs.get("iter_raise"):
                return raising_gen(items, path)
            return items
        raise ValueError(t)

    def item(self, vs, path):
        """A list item: awaitable or plain; a raising item is an Exception instance."""
        if self.is_aw(vs.get("aw")):
            if vs["t"] == "raise":
                return self.new_handle(vs["aw"], path, "item", None, self.raw(vs, path), vs.get("co", False), vs.get("cl", 0))
            return self.new_handle(vs["aw"], path, "item", lambda: self.raw(vs, path), None, vs.get("co", False), vs.get("cl", 0))
        return self.raw(vs, path)

    def field(self, vs, path):
        """Result of a field resolver."""
        if self.is_aw(vs.get("aw")):
            if vs["t"] == "raise":
                return self.new_handle(vs["aw"], path, "field", None, self.raw(vs, path), vs.get("co", False), vs.get("cl", 0))
            return self.new_handle(vs["aw"], path, "field", lambda: self.raw(vs, path), None, vs.get("co", False), vs.get("cl", 0))
        val = self.raw(vs, path)
        if vs["t"] == "raise":
            if vs.get("asval"):
                return val
            raise val
        return val


def raising_gen(items, path):
    yield from items
    raise ResolverError("iter@" + ".".join(map(str, path)))


class AIter:
    """Async iterator whose every step waits for a harness handle (site = the list's `aiter`)."""

    def __init__(self, run, vs, path):
        self.run, self.vs, self.path, self.n = run, vs, path, 0

    def __aiter__(self):
        return self

    async def __anext__(self):
        n = self.n
        items = self.vs["items"]
        self.n += 1
        if n < len(items):
            it = items[n]
            return await self.run.new_handle(
                self.vs["aiter"], self.path + [n], "anext", lambda: self.run.raw(it, self.path + [n]), None, True, self.vs.get("cl", 0)
            )
        if n == len(items) and self.vs.get("iter_raise"):
            exc = ResolverError("aiter@" + ".".join(map(str, self.path)))
            return await self.run.new_handle(self.vs["aiter"], self.path + [n], "anext", None, exc, True, self.vs.get("cl", 0))
        raise StopAsyncIteration


def field_resolver(source, info):
    run = source.run
    path = info.path.as_list()
    run.events.append(("S", path))
    vs = source.f.get(info.path.key)
    if vs is None:
        return None
    return run.field(vs, path)


def canon_result(result):
    """(data, sorted error paths) - nothing else is compared."""
    errs = []
    for e in result.errors or []:
        errs.append(list(e.path) if e.path is not None else None)
    return {"data": result.data, "errors": errs}


def run_sync(case):
    """Fully synchronous execution of the same request (plain values everywhere)."""
    from graphql import parse
    from graphql.execution import execute_sync

    schema = build_schema(case["variant"], modes_of(case))
    run = Run(case, ())
    root = Obj(case["data"], [], run)
    res = execute_sync(schema, parse(print_doc(case)), root_value=root, field_resolver=field_resolver)
    return canon_result(res), run.events


async def _quiesce(loop):
    n = 0
    while True:
        await asyncio.sleep(0)
        if not loop._ready:  # noqa: SLF001
            return
        n += 1
        if n > 100000:
            raise RuntimeError("event loop does not reach quiescence")


def run_async(case, mask, schedule):
    """Controlled execution.  Returns (canonical result | {"hang":..} | {"exception":..}, events)."""
    from graphql import parse
    from graphql.execution import execute

    schema = build_schema(case["variant"], modes_of(case))
    doc = parse(print_doc(case))
    loop = asyncio.new_event_loop()
    run = Run(case, mask, loop)
    rank = {}
    for gi, group in enumerate(schedule):
        for pi, site in enumerate(group):
            rank.setdefault(site, (gi, pi))
    out = {}

    async def driver():
        root = Obj(case["data"], [], run)
        res = execute(schema, doc, root_value=root, field_resolver=field_resolver)
        if not hasattr(res, "__await__"):
            out["result"] = canon_result(res)
            out["sync"] = True
            return
        task = asyncio.ensure_future(res)
        await _quiesce(loop)
        while not task.done():
            pend = [h for h in run.handles if not h.fut.done()]
            if not pend:
                out["hang"] = True
                task.cancel()
                break
            g = min(rank.get(h.site, (10**9, h.site))[0] for h in pend)
            group = [h for h in pend if rank.get(h.site, (10**9, h.site))[0] == g]
            group.sort(key=lambda h: (rank.get(h.site, (10**9, h.site)), h.seq))
            run.events.append(("T",))
            for h in group:
                run.resolve(h)
            await _quiesce(loop)
        if task.done() and not task.cancelled():
            exc = task.exception()
            if exc is not None:
                out["exception"] = type(exc).__name__ + ": " + str(exc)[:200]
            else:
                out["result"] = canon_result(task.result())
        run.events.append(("D",))
        # drain abandoned work so that nothing is left pending
        for _ in range(1000):
            pend = [h for h in run.handles if not h.fut.done()]
            if not pend:
                break
            run.events.append(("T",))
            for h in pend:
                run.resolve(h)
            await _quiesce(loop)
        await _quiesce(loop)

    try:
        loop.set_exception_handler(lambda *_a: None)
        loop.run_until_complete(driver())
    finally:
        try:
            loop.run_until_complete(loop.shutdown_asyncgens())
        finally:
            loop.close()
    return out, run.events
