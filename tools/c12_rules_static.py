"""C12 — T1 extraction of what the concrete validation rules can RETURN to the traversal.

For every rule class listed in validation/specified_rules.py (and their base classes in
validation/rules/*.py) and every visitor method (`enter`, `leave`, `enter_<kind>`, `leave_<kind>`), collect the
syntactic forms of all `return` statements, following `return self.helper(...)` one level into the helper's own
returns.  Each form is classified as one of
    none | skip | break | false | true | other:<source text>
(`visit()` treats None/IDLE as "continue", False/SKIP as "skip", True/BREAK as "stop"; any *other* value is an
edit).  The table is written to lean/Gql/Generated/RuleReturns.lean; the theorem `Gql.Props.C12.rules_never_edit`
decides on it that no specified rule can return an editing value, which is the hypothesis "non-editing visitor"
under which the framework theorems (rules_union, parallel_alone, rules_order, limit_prefix) apply to them.
Read with `ast` only: a broken tree still extracts.
"""
from __future__ import annotations

import ast
from pathlib import Path

_VISIT = ("enter", "leave")


def _is_visit_method(name: str) -> bool:
    return name in _VISIT or name.startswith("enter_") or name.startswith("leave_")


def _classify(node: ast.expr | None, cls_methods: dict, depth: int) -> list[str]:
    if node is None:
        return ["none"]
    if isinstance(node, ast.Constant):
        if node.value is None:
            return ["none"]
        if node.value is True:
            return ["true"]
        if node.value is False:
            return ["false"]
    name = None
    if isinstance(node, ast.Name):
        name = node.id
    elif isinstance(node, ast.Attribute) and isinstance(node.value, ast.Name) and node.value.id in ("self", "Visitor", "VisitorAction"):
        name = node.attr
    if name in ("SKIP", "BREAK", "IDLE", "REMOVE"):
        return {"SKIP": ["skip"], "BREAK": ["break"], "IDLE": ["none"], "REMOVE": ["other:REMOVE"]}[name]
    if isinstance(node, ast.IfExp):
        return _classify(node.body, cls_methods, depth) + _classify(node.orelse, cls_methods, depth)
    if (
        depth > 0
        and isinstance(node, ast.Call)
        and isinstance(node.func, ast.Attribute)
        and isinstance(node.func.value, ast.Name)
        and node.func.value.id == "self"
        and node.func.attr in cls_methods
    ):
        return _returns_of(cls_methods[node.func.attr], cls_methods, depth - 1)
    return ["other:" + ast.unparse(node)[:60]]


def _returns_of(fn: ast.FunctionDef, cls_methods: dict, depth: int) -> list[str]:
    out: list[str] = []

    def walk(n):
        for ch in ast.iter_child_nodes(n):
            if isinstance(ch, (ast.FunctionDef, ast.AsyncFunctionDef, ast.Lambda, ast.ClassDef)):
                continue  # nested scopes return to themselves
            if isinstance(ch, ast.Return):
                out.extend(_classify(ch.value, cls_methods, depth))
            walk(ch)

    walk(fn)
    if isinstance(fn, ast.AsyncFunctionDef):
        out.append("other:async")
    out.append("none")  # falling off the end
    seen = []
    for o in out:
        if o not in seen:
            seen.append(o)
    return seen


def rule_returns(repo: Path):
    """[(rule class, [(method, [classes of return])])] for every class in validation/rules/**.py."""
    classes: dict[str, tuple[ast.ClassDef, list[str]]] = {}
    rules_dir = repo / "src/graphql/validation/rules"
    for f in sorted(rules_dir.rglob("*.py")):
        mod = ast.parse(f.read_text())
        for st in mod.body:
            if isinstance(st, ast.ClassDef):
                bases = [b.id if isinstance(b, ast.Name) else ast.unparse(b) for b in st.bases]
                classes[st.name] = (st, bases)

    def methods(cname: str, seen=()) -> dict:
        if cname not in classes or cname in seen:
            return {}
        st, bases = classes[cname]
        m: dict = {}
        for b in bases:
            m.update(methods(b, (*seen, cname)))
        for it in st.body:
            if isinstance(it, (ast.FunctionDef, ast.AsyncFunctionDef)):
                m[it.name] = it
            elif isinstance(it, ast.Assign) and isinstance(it.value, ast.Name) and it.value.id in m:
                # `enter_a = enter_b = check`: aliases of a method defined above
                for tgt in it.targets:
                    if isinstance(tgt, ast.Name):
                        m[tgt.id] = m[it.value.id]
            elif isinstance(it, ast.Assign) and any(isinstance(t, ast.Name) and _is_visit_method(t.id) for t in it.targets):
                # a visitor method bound to something that is not a method defined above: unknown returns
                for tgt in it.targets:
                    if isinstance(tgt, ast.Name):
                        m[tgt.id] = ast.parse("def _unknown(self):\n    return " + ast.unparse(it.value)).body[0]
        return m

    out = []
    for cname in sorted(classes):
        ms = methods(cname)
        rows = [(n, _returns_of(fn, ms, 2)) for n, fn in sorted(ms.items()) if _is_visit_method(n)]
        out.append((cname, rows))
    return out


def _lean_str(s: str) -> str:
    return '"' + s.replace("\\", "\\\\").replace('"', '\\"').replace("\n", " ") + '"'


def render(repo: Path) -> str:
    rows = rule_returns(repo)
    lines = [
        "/- GENERATED by tools/c12_rules_static.py from src/graphql/validation/rules/**.py — do not edit. -/",
        "namespace Gql.Generated",
        "",
        "/-- (rule class, visitor method, syntactic classes of everything the method can return). -/",
        "def ruleReturns : List (String × String × List String) := [",
    ]
    body = []
    for cname, ms in rows:
        for m, rets in ms:
            body.append(f"  ({_lean_str(cname)}, {_lean_str(m)}, [{', '.join(_lean_str(r) for r in rets)}])")
    lines.append(",\n".join(body))
    lines += ["]", "", "end Gql.Generated", ""]
    return "\n".join(lines)


def extract(repo: Path, lean: Path) -> list[str]:
    target = lean / "Gql/Generated/RuleReturns.lean"
    new = render(repo)
    if not target.exists() or target.read_text() != new:
        target.write_text(new)
        return [str(target)]
    return []


if __name__ == "__main__":
    import sys

    print(render(Path(sys.argv[1] if len(sys.argv) > 1 else "/repo")))
