"""Implementation-side canonical lexing, in the format of lean/Driver/Lex.lean."""
from __future__ import annotations

from tools import fw

ERR_KINDS = [
    ("Unexpected '..'", "unexpectedDotDot"),
    ("Invalid number, expected digit before '.'", "digitBeforeDot"),
    ("Unexpected single quote character", "singleQuote"),
    ("Unexpected character:", "unexpectedChar"),
    ("Invalid character:", "invalidChar"),
    ("Invalid number, unexpected digit after 0", "digitAfterZero"),
    ("Invalid number, expected digit but got", "expectedDigit"),
    ("Invalid character within String", "invalidCharInString"),
    ("Unterminated string", "unterminatedString"),
    ("Invalid Unicode escape sequence", "invalidUnicodeEscape"),
    ("Invalid character escape sequence", "invalidCharEscape"),
]


def err_kind(message: str) -> str:
    if message.startswith("Syntax Error: "):
        message = message[len("Syntax Error: "):]
    for prefix, kind in ERR_KINDS:
        if message.startswith(prefix):
            return kind
    return "other"


def impl_lex(body: str, with_kind=True) -> str:
    """All non-comment tokens (kind start end line column value) or the first error."""
    from graphql.error import GraphQLSyntaxError
    from graphql.language import Lexer, Source, TokenKind

    try:
        lexer = Lexer(Source(body))
        toks = []
        n = 0
        while True:
            tok = lexer.advance()
            v = "-" if tok.value is None else ("v " + fw.cps(tok.value)).rstrip()
            toks.append(f"{tok.kind.name} {tok.start} {tok.end} {tok.line} {tok.column} {v}")
            if tok.kind == TokenKind.EOF:
                break
            n += 1
            if n > len(body) + 5:
                return "crash NoProgress"
        return "ok " + " | ".join(toks)
    except GraphQLSyntaxError as e:
        pos = e.positions[0] if e.positions else -1
        return f"err {err_kind(e.message) if with_kind else 'x'} {pos}"
    except Exception as e:  # noqa: BLE001
        return f"crash {type(e).__name__}"


def model_lex(driver, bodies):
    outs = driver.run(["lex " + fw.cps(b) for b in bodies])
    # the Lean side prints "v " + "" for empty values as "v "; normalise trailing blanks
    return [" | ".join(p.rstrip() for p in o.split(" | ")) if o.startswith("ok") else o for o in outs]
