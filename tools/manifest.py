"""Regenerates MANIFEST.json from the per-property check modules (single source of truth)."""
import importlib
import json
import sys
from pathlib import Path

VERIF = Path(__file__).resolve().parent.parent
sys.path.insert(0, str(VERIF))
ALL = [f"C{i:02d}" for i in range(1, 21)]


def main():
    checks = []
    na = []
    for pid in ALL:
        try:
            mod = importlib.import_module(f"checks.{pid.lower()}")
        except ModuleNotFoundError:
            na.append({"property_id": pid, "reason": "check not built yet (no model/theorems committed for this property at this commit); nothing is claimed"})
            continue
        if getattr(mod, "NOT_APPLICABLE", None):
            na.append({"property_id": pid, "reason": mod.NOT_APPLICABLE})
            continue
        checks.append(
            {
                "property_id": pid,
                "quick_cmd": f"./check {pid} --tier quick",
                "thorough_cmd": f"./check {pid} --tier thorough",
                "evidence_file": f"evidence/{pid}.json",
                "replay_cmd_template": f"./check {pid} --replay {{path}}",
                "engine": "lean4-proof+correspondence",
                "level_claimed": {
                    "category": getattr(mod, "LEVEL", "proof"),
                    "text": mod.LEVEL_TEXT,
                    "design_ref": f"DESIGN.md §6 {pid}",
                },
                "level_note": mod.LEVEL_NOTE,
                "technique": getattr(mod, "TECHNIQUE", "Lean 4 theorems about an executable model + differential correspondence check against the implementation"),
            }
        )
    manifest = {
        "version": 1,
        "setup_cmd": "./setup.sh",
        "hooks": {
            "guard": "GRAPHQL_CORE_VERIF",
            "enable": "no source hooks are needed: checks observe graphql-core only through its public API, harness-supplied resolvers/iterators and a harness event loop; ./check exports GRAPHQL_CORE_VERIF=1 for uniformity",
            "baseline_off_cmd": "cd /repo && /venv/bin/python -m pytest -ra -q -p no:cacheprovider --timeout=900 --continue-on-collection-errors",
            "source_commits": [],
            "add_only": True,
        },
        "engines": [
            {
                "name": "lean4-proof+correspondence",
                "path": "lean/ (lake project: Gql library of models/specs/proofs, Driver executables), tools/fw.py, checks/",
                "serves_properties": [c["property_id"] for c in checks],
                "kind_free_text": "machine-checked Lean 4 theorems about hand-written executable models; models tied to /repo on every run by regenerated tables and by a differential correspondence check through a compiled line-protocol driver; property oracles (Lean spec functions) evaluated on the implementation for failing-input search",
            }
        ],
        "checks": checks,
        "not_applicable": na,
        "notes": "fix: commits in /repo are listed in known_findings.json as fixed entries. Exit codes: 0 held, 1 VIOLATION, 2 infrastructure failure/timeout.",
    }
    (VERIF / "MANIFEST.json").write_text(json.dumps(manifest, indent=1) + "\n")
    print(f"MANIFEST.json: {len(checks)} checks, {len(na)} not claimed")


if __name__ == "__main__":
    main()
