"""C01 pipeline stress families: structured requests that are systematically *odd* rather than random.

Every family is a small cross product, generated deterministically (the seed only picks which half of the
largest product runs in the quick tier), so a defect in one cell is found on every run:

  directive-args  every directive (@skip @include @defer @stream @custom @deprecated @unknown) x well-typed /
                  ill-typed / null / variable / undefined-variable / missing / extra / list / object arguments x every
                  selection kind (field, inline fragment with and without type condition, fragment spread) and
                  definition kind (operation, fragment definition, variable definition) x query / mutation / subscription
  meta-fields     @stream / @defer / @skip / @custom on __typename, __schema, __type under object, interface, union
                  and list parents
  long-names      names with 100 .. 20000 characters and digit runs of 4299 / 4300 / 4301 / 5000 / 20000 digits as
                  field, alias, argument, object-literal key (on two same-named fields, so that they are compared),
                  variable, fragment, operation, directive, enum value, type name; huge int / float literals and
                  huge variable values
  flat-chains     depth without bracket nesting at 200 / 1200 / 3000: fragment-spread chains under every root type,
                  alias runs, directive runs, variable-definition runs, argument runs, sibling inline fragments,
                  flat list / object literals, many operations, many unused fragments
  odd-keys        variables dicts and input-object values with case-folding keys ("İ" "ß" "ǅ" "ı" "ﬁ"), empty and
                  very long keys, lone surrogates; enum / scalar variable values of that kind; and (tag
                  `nonstr-keys`, outside JSON and the `dict[str, Any]` annotation, reported under their own
                  fingerprint) non-`str` keys
"""
from __future__ import annotations


def _case(tag, source, variables=None, operation_name=None, schema="plain", options=None):
    return {"tag": "stress:" + tag, "source_cps": [ord(c) for c in source], "variables": variables,
            "operation_name": operation_name, "raisers": {}, "options": options or {}, "schema": schema}


ROOT_FIELD = {"query": "a", "mutation": "m", "subscription": "a"}
ROOT_TYPE = {"query": "Query", "mutation": "Mutation", "subscription": "Subscription"}

DIRECTIVE_ARGS = {
    "skip": ["(if: true)", "(if: false)", '(if: "x")', "(if: null)", "(if: 1)", "(if: $b)", "(if: $undef)", "", "(if: true, extra: 1)",
             "(if: [true])", "(if: {a: 1})", "(if: RED)"],
    "include": ["(if: true)", "(if: false)", '(if: "x")', "(if: null)", "(if: $b)", "(if: $undef)", "", "(iff: true)", "(if: [])"],
    "defer": ["", "(if: true)", "(if: false)", '(if: "x")', "(if: null)", "(if: 1)", "(if: $b)", "(if: $undef)", '(label: "l")', "(label: 5)",
              "(label: null)", "(label: $s)", '(label: "l", if: $b)', "(label: [1])", "(extra: 1)", '(if: true, label: "d") @defer(label: "d")'],
    "stream": ["", "(initialCount: 0)", "(initialCount: 1)", '(initialCount: "x")', "(initialCount: null)", "(initialCount: -1)",
               "(initialCount: 1.5)", "(initialCount: $i)", "(initialCount: $undef)", '(if: "x")', "(if: null)", "(if: $b)", '(label: 5)',
               '(label: "s", initialCount: 99999999999)', "(initialCount: [1])"],
    "custom": ["(n: 1)", "", '(n: "x")', "(n: null)", "(n: $i)", "(n: $undef)", '(n: 1, s: 5)', "(n: 1, inp: {req: null})", "(n: 1, inp: {nope: 1})",
               "(n: 1, l: [null])", "(n: 1, l: 1)", "(n: 1) @custom(n: 2)", "(n: 1.0)", "(n: 2147483648)"],
    "deprecated": ["", '(reason: "r")', "(reason: 1)"],
    "unknown": ["", "(a: 1)", "(if: $b)"],
}


def directive_args_cases():
    out = []
    for op in ("query", "mutation", "subscription"):
        rf, rt = ROOT_FIELD[op], ROOT_TYPE[op]
        vdefs = "($b: Boolean = false, $i: Int = 1, $s: String)"
        for dname, argsets in DIRECTIVE_ARGS.items():
            for a in argsets:
                d = f"@{dname}{a}"
                uses = "".join(f" {v}" for v in ("$b", "$i", "$s") if v in d)
                # keep the declared variables used so that "unused variable" does not mask other rules
                use_all = f" z: {rf} @include(if: $b) @custom(n: $i, s: $s)" if op != "subscription" else ""
                docs = {
                    "field": f"{op} Op{vdefs} {{ {rf} {d}{use_all} }}",
                    "inline": f"{op} Op{vdefs} {{ ... {d} {{ {rf} }}{use_all} }}",
                    "inline-on": f"{op} Op{vdefs} {{ ... on {rt} {d} {{ {rf} }}{use_all} }}",
                    "spread": f"{op} Op{vdefs} {{ ...F {d}{use_all} }} fragment F on {rt} {{ {rf} }}",
                    "operation": f"{op} Op{vdefs} {d} {{ {rf}{use_all} }}",
                    "fragment-def": f"{op} Op{vdefs} {{ ...F{use_all} }} fragment F on {rt} {d} {{ {rf} }}",
                    "variable-def": f"{op} Op($b: Boolean = false {d}, $i: Int = 1, $s: String) {{ {rf}{use_all} }}",
                    "nested-field": f"{op} Op{vdefs} {{ {'o' if op != 'mutation' else 'n'} {{ kids {d} {{ id }} ... {d} {{ name }} }}{use_all} }}",
                }
                del uses
                for pos, doc in docs.items():
                    for variant in ("plain", "incremental"):
                        out.append(_case(f"directive-args:{op}:{pos}:{dname}", doc, variables={"b": True, "i": 1}, operation_name="Op", schema=variant))
    return out


def meta_field_cases():
    out = []
    parents = {
        "object-root": "{ %s }",
        "object": "{ o { %s } }",
        "interface": "{ named { %s } }",
        "union": "{ u { %s } }",
        "union-list": "{ things { %s } }",
        "list": "{ l { %s } }",
        "union-inline": "{ u { ... on Node { %s } ... on Other { %s } } }",
        "mutation": "mutation { n { %s } }",
        "subscription": "subscription { o { %s } }",
    }
    metas = ["__typename", "t: __typename"]
    root_metas = ["__schema { queryType { name } }", '__type(name: "Node") { name }', "__schema { types { name } }"]
    dirs = ["@stream", "@stream(initialCount: 1)", "@stream(initialCount: 0, label: \"s\")", "@defer", "@skip(if: false)", "@custom(n: 1)",
            "@include(if: true) @stream"]
    for pname, tmpl in parents.items():
        for m in metas + (root_metas if pname == "object-root" else []):
            for d in dirs:
                head, _, tail = m.partition(" {")
                sel = f"{head} {d}" + (" {" + tail if tail else "")
                wrapped = f"... {d} {{ {m} }}"
                for body in (sel, wrapped):
                    doc = tmpl.replace("%s", body)
                    for variant in ("plain", "incremental"):
                        out.append(_case(f"meta-fields:{pname}", doc, schema=variant))
    return out


SIZES = [100, 4299, 4300, 4301, 5000, 20000]


def long_name_cases():
    out = []
    for n in SIZES:
        for form, name in (("digits", "k" + "9" * n), ("letters", "a" * n), ("mixed", "_1" + "0" * n + "x" + "7" * n)):
            docs = {
                "field": "{ %s }" % name,
                "field-twice": "{ o { %s %s } }" % (name, name),
                "alias": "{ %s: a }" % name,
                "alias-twice": "{ %s: a %s: nn }" % (name, name),
                "argument": "{ args(%s: 1) }" % name,
                "argument-twice": "{ args(%s: 1) args(%s: 1) }" % (name, name),
                "object-key": "{ args(inp: {%s: 1}) }" % name,
                "object-key-twice": "{ args(inp: {%s: 1}) args(inp: {%s: 1}) }" % (name, name),
                "object-key-twice-diff": "{ args(inp: {%s: 1}) args(inp: {%s: 2, req: 1}) }" % (name, name),
                "variable": "query Q($%s: Int) { args(i: $%s) }" % (name, name),
                "fragment": "{ ...%s } fragment %s on Query { a }" % (name, name),
                "fragment-missing": "{ ...%s }" % name,
                "operation": "query %s { a }" % name,
                "directive": "{ a @%s }" % name,
                "enum-value": "{ args(c: %s) }" % name,
                "type-condition": "{ ... on %s { a } }" % name,
                "variable-type": "query Q($v: %s) { a }" % name,
                "sdl-in-request": "type %s { %s: Int } { a }" % (name, name),
            }
            for pos, doc in docs.items():
                op = name if pos == "operation" else None
                out.append(_case(f"long-names:{pos}:{form}:{n}", doc, operation_name=op))
            out.append(_case(f"long-names:variables-key:{form}:{n}", "query Q($inp: Inp) { args(inp: $inp) }", variables={"inp": {name: 1, "req": 1}}))
            out.append(_case(f"long-names:variables-name:{form}:{n}", "query Q($i: Int) { args(i: $i) }", variables={name: 1, "i": 1}))
            out.append(_case(f"long-names:operation-name-arg:{form}:{n}", "query Q { a }", operation_name=name))
            out.append(_case(f"long-names:enum-variable:{form}:{n}", "query Q($c: Color) { args(c: $c) }", variables={"c": name}))
        big = "9" * n
        out.append(_case(f"long-names:int-literal:{n}", "{ args(i: %s) }" % big))
        out.append(_case(f"long-names:int-literal-id:{n}", "{ args(id: %s, f: %s) }" % (big, big)))
        out.append(_case(f"long-names:float-literal:{n}", "{ args(f: %s.%se%s) }" % (big, big, "9" * min(n, 400))))
        out.append(_case(f"long-names:int-default:{n}", "query Q($i: Int = %s) { args(i: $i) }" % big))
        out.append(_case(f"long-names:int-variable:{n}", "query Q($i: Int, $f: Float, $id: ID, $o: Odd) { args(i: $i, f: $f, id: $id) oddArg(o: $o) }",
                         variables={"i": {"__bigint__": n}, "f": {"__bigint__": n}, "id": {"__bigint__": n}, "o": {"__bigint__": n}}))
        out.append(_case(f"long-names:int-in-input:{n}", "query Q($inp: Inp) { args(inp: $inp) }", variables={"inp": {"req": {"__bigint__": n}, "list": [{"__bigint__": n}]}}))
        out.append(_case(f"long-names:string-literal:{n}", '{ args(s: "%s", i: "%s") }' % ("s" * n * 5, big)))
        out.append(_case(f"long-names:initial-count:{n}", "{ l @stream(initialCount: %s) { id } }" % big, schema="incremental"))
    return out


DEPTHS = [200, 1200, 3000]


HEAVY_AT_3000 = ("inline-fragment-run", "object-literal", "unused-fragment-run", "operation-run", "variable-object")


def flat_chain_cases(tier="thorough"):
    out = []
    for c in _flat_chain_cases():
        if tier == "quick" and c["tag"].endswith(":3000") and any(h in c["tag"] for h in HEAVY_AT_3000):
            continue  # quadratic in the validator: 1200 in the quick tier, 3000 in the thorough tier
        out.append(c)
    return out


def _flat_chain_cases():
    out = []
    for n in DEPTHS:
        for op in ("query", "mutation", "subscription"):
            rf, rt = ROOT_FIELD[op], ROOT_TYPE[op]
            chain = f"{op} {{ ...F0 }} " + " ".join(f"fragment F{i} on {rt} {{ ...F{i + 1} }}" for i in range(n)) + f" fragment F{n} on {rt} {{ {rf} }}"
            out.append(_case(f"flat-chains:fragment-spread-chain:{op}:{n}", chain))
        node_chain = "{ o { ...F0 } } " + " ".join(f"fragment F{i} on Node {{ id ...F{i + 1} }}" for i in range(n)) + f" fragment F{n} on Node {{ name }}"
        out.append(_case(f"flat-chains:fragment-spread-chain:nested:{n}", node_chain))
        inline_chain = "{ o { ...F0 } } " + " ".join(f"fragment F{i} on Node {{ ... on Node {{ ...F{i + 1} }} }}" for i in range(n)) + f" fragment F{n} on Node {{ name }}"
        out.append(_case(f"flat-chains:fragment-spread-chain:inline:{n}", inline_chain))
        cyc = "{ ...F0 } " + " ".join(f"fragment F{i} on Query {{ ...F{(i + 1) % n} }}" for i in range(n))
        out.append(_case(f"flat-chains:fragment-spread-cycle:{n}", cyc))
        out.append(_case(f"flat-chains:alias-run:{n}", "{ " + " ".join(f"a{i}: a" for i in range(n)) + " }"))
        out.append(_case(f"flat-chains:alias-run-args:{n}", "{ " + " ".join(f"a{i}: args(i: {i})" for i in range(n)) + " }"))
        out.append(_case(f"flat-chains:same-field-run:{min(n, 1200)}", "{ " + " ".join("a" for _ in range(min(n, 1200))) + " }"))
        out.append(_case(f"flat-chains:directive-run:{n}", "{ a " + " ".join("@custom(n: 1)" for _ in range(n)) + " }"))
        out.append(_case(f"flat-chains:skip-run:{n}", "{ a " + " ".join("@skip(if: false)" for _ in range(n)) + " }"))
        out.append(_case(f"flat-chains:variable-definition-run:{n}", "query Q(" + ", ".join(f"$v{i}: Int = {i}" for i in range(n)) + ") { args(i: $v0) }"))
        out.append(_case(f"flat-chains:argument-run:{n}", "{ args(" + ", ".join(f"x{i}: 1" for i in range(n)) + ") }"))
        out.append(_case(f"flat-chains:inline-fragment-run:{n}", "{ " + " ".join("... { a }" for _ in range(n)) + " }"))
        out.append(_case(f"flat-chains:list-literal:{n}", "{ args(l: [" + ", ".join("1" for _ in range(n)) + "]) }"))
        out.append(_case(f"flat-chains:object-literal:{n}", "{ args(inp: {" + ", ".join(f"k{i}: 1" for i in range(n)) + "}) }"))
        out.append(_case(f"flat-chains:operation-run:{n}", " ".join(f"query Q{i} {{ a }}" for i in range(n)), operation_name=f"Q{n - 1}"))
        out.append(_case(f"flat-chains:unused-fragment-run:{n}", "{ a } " + " ".join(f"fragment F{i} on Query {{ a }}" for i in range(n))))
        out.append(_case(f"flat-chains:spread-run:{n}", "{ " + " ".join("...F" for _ in range(n)) + " } fragment F on Query { a }"))
        out.append(_case(f"flat-chains:variable-list:{n}", "query Q($l: [Int]) { args(l: $l) }", variables={"l": list(range(n))}))
        out.append(_case(f"flat-chains:variable-object:{n}", "query Q($inp: Inp) { args(inp: $inp) }", variables={"inp": {**{f"k{i}": i for i in range(n)}, "req": 1}}))
        nested_var = 1
        for _ in range(min(n, 400)):
            nested_var = {"req": 1, "nested": nested_var}
        out.append(_case(f"flat-chains:variable-nested-input:{min(n, 400)}", "query Q($inp: Inp) { args(inp: $inp) }", variables={"inp": nested_var}))
        nested_list = 1
        for _ in range(min(n, 400)):
            nested_list = [nested_list]
        out.append(_case(f"flat-chains:variable-nested-list:{min(n, 400)}", "query Q($o: Odd, $l: [Int]) { oddArg(o: $o) args(l: $l) }", variables={"o": nested_list, "l": nested_list}))
    return out


ODD_KEYS = ["İ", "İİ", "ß", "ǅ", "ı", "ﬁ", "", " ", "K", "REQ", "Req", "rEq", "opt ", "é", "İstanbul", "x" * 5000, "\x00", "req̇",
            {"__cps__": [0xD800]}, {"__cps__": [0xDC00, 0xD800]}]
NONSTR_KEYS = [{"__key__": "int", "v": 1}, {"__key__": "none"}, {"__key__": "tuple"}, {"__key__": "float", "v": 1.5}, {"__key__": "bool"},
               {"__key__": "bytes"}]


def odd_key_cases():
    out = []
    q_inp = "query Q($inp: Inp) { args(inp: $inp) }"
    q_mut = "mutation M($inp: Inp) { big(v: $inp) }"
    q_enum = "query Q($c: Color) { args(c: $c) }"
    q_list = "query Q($l: [Color]) { o { color(c: RED) } x: args(l: [1]) y: args(c: GREEN) z: args(s: \"x\") }"
    for k in ODD_KEYS:
        key = k if isinstance(k, str) else {"__cps__": k["__cps__"]}
        items = {"__items__": [[key, 1], ["req", 1]]}
        only = {"__items__": [[key, 1]]}
        tag = "odd-keys:" + (k if isinstance(k, str) and len(k) < 12 else "long-or-surrogate")
        out.append(_case(tag + ":input-object", q_inp, variables={"inp": items}))
        out.append(_case(tag + ":input-object-only", q_inp, variables={"inp": only}))
        out.append(_case(tag + ":input-object-mutation", q_mut, variables={"inp": items}))
        out.append(_case(tag + ":nested-input", q_inp, variables={"inp": {"req": 1, "nested": only}}))
        out.append(_case(tag + ":top-level", q_inp, variables={"__items__": [[key, 1], ["inp", {"req": 1}]]}))
        out.append(_case(tag + ":enum-value", q_enum, variables={"c": key}))
        out.append(_case(tag + ":enum-list", q_list, variables={"l": [key, "RED"]}))
        out.append(_case(tag + ":operation-name", "query A { a } query B { nn }", operation_name=key if isinstance(key, str) else None))
        out.append(_case(tag + ":scalar-values", "query Q($i: Int, $s: String, $b: Boolean, $f: Float, $id: ID) { args(i: $i, s: $s, b: $b, f: $f, id: $id) }",
                         variables={"i": key, "s": key, "b": key, "f": key, "id": key}))
    for k in NONSTR_KEYS:
        items = {"__items__": [[k, 2], ["req", 1]]}
        tag = "nonstr-keys:" + k["__key__"]
        out.append(_case(tag + ":input-object", q_inp, variables={"inp": items}))
        out.append(_case(tag + ":input-object-only", q_inp, variables={"inp": {"__items__": [[k, 2]]}}))
        out.append(_case(tag + ":top-level", q_inp, variables={"__items__": [[k, 1], ["inp", {"req": 1}]]}))
        out.append(_case(tag + ":odd-scalar", "query Q($o: Odd) { oddArg(o: $o) }", variables={"o": {"__items__": [[k, 2]]}}))
    return out


def stress_cases(seed: int, tier: str):
    """All families; in the quick tier the two largest products are halved by the seed's parity
    (both halves contain every directive / position / operation-type cell with at least one ill-typed argument)."""
    cases = []
    da = directive_args_cases()
    if tier == "quick":
        da = [c for i, c in enumerate(da) if c["schema"] == ("plain" if (i // 2 + seed) % 2 == 0 else "incremental")]
    cases += da
    mf = meta_field_cases()
    if tier == "quick":
        mf = [c for i, c in enumerate(mf) if c["schema"] == ("plain" if (i // 2 + seed) % 2 == 0 else "incremental")]
    cases += mf
    cases += long_name_cases()
    cases += flat_chain_cases(tier)
    cases += odd_key_cases()
    return cases
