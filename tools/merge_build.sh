#!/bin/bash
# usage: merge_build.sh <builddir e.g. /tmp/build_C20/verif> [apply]
# Lists (and with "apply" copies) files that are new or changed in the builder's copy relative to /verif,
# excluding build output, evidence/replay and coordinator-owned files.
B=$1
cd $B || exit 2
EXC='--exclude=.git --exclude=.lake --exclude=.audit --exclude=.lock --exclude=__pycache__ --exclude=evidence --exclude=replay --exclude=DESIGN.md --exclude=MANIFEST.json --exclude=properties.jsonl --exclude=known_findings.json --exclude=BUILDER_GUIDE.md --exclude=lean/lakefile.toml --exclude=tools/fw.py --exclude=seeded --exclude=*.pyc --exclude=StripBlock.lean'
if [ "$2" = "apply" ]; then
  rsync -au $EXC --out-format='%n' ./ /verif/ | grep -v '/$'
else
  rsync -aun $EXC --out-format='%n' ./ /verif/ | grep -v '/$'
fi
echo "--- lakefile diff"; diff /verif/lean/lakefile.toml $B/lean/lakefile.toml
echo "--- fw.py diff"; diff -q /verif/tools/fw.py $B/tools/fw.py
