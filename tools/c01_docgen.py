"""Random executable documents against the C01 pipeline schema (tools/c01_pipeline.SDL).

Grammar-directed.  Two modes per document: *careful* (variables defined exactly when used and well
typed, fragments acyclic / used / on matching types, directives well placed: most such documents
validate and reach the executor) and *sloppy* (unknown fields / types / directives, fragment cycles
under every root type, unused and duplicate fragments, undefined variables, ill-typed arguments,
@defer/@stream anywhere, several operations: these reach every validation rule).  The oracle is the
one of the pipeline run (graphql_sync returns a well-formed response, never raises).
"""
from __future__ import annotations

FIELDS = {
    "Query": [("a", None), ("nn", None), ("o", "Node"), ("l", "Node"), ("strict", "Node"), ("named", "Named"), ("odd", None),
              ("args", None), ("__typename", None), ("u", "Thing"), ("things", "Thing")],
    "Node": [("id", None), ("name", None), ("nn", None), ("child", "Node"), ("kids", "Node"), ("strict", "Node"), ("odd", None),
             ("named", "Named"), ("color", None), ("args", None), ("__typename", None), ("thing", "Thing")],
    "Named": [("name", None), ("__typename", None)],
    "Thing": [("__typename", None)],
    "Other": [("y", None), ("name", None), ("__typename", None)],
    "Mutation": [("m", None), ("n", "Node")],
    "Subscription": [("a", None), ("tick", None), ("o", "Node"), ("things", "Thing")],
}
LIST_FIELDS = {"l", "kids", "strict", "things"}
ROOTS = {"query": "Query", "mutation": "Mutation", "subscription": "Subscription"}
# sloppy mode: any directive name with any argument names and any values, anywhere
DIR_NAMES = ["skip", "include", "defer", "stream", "custom", "deprecated", "specifiedBy", "oneOf", "unknown"]
DIR_ARG_NAMES = ["if", "label", "initialCount", "n", "s", "inp", "l", "reason", "url", "nope"]
DIR_ARG_VALUES = ["true", "false", "null", "\"x\"", "1", "-1", "1.5", "$b", "$i", "$s", "$undef", "[1]", "[]", "{a: 1}", "{req: null}", "RED",
                  "99999999999", "\"\"\"b\"\"\""]
# argument name -> (well-typed values, ill-typed / odd values)
ARG_VALUES = {
    "i": (["1", "-3", "$i", "null"], ["\"s\"", "1.5", "2147483648"]),
    "s": (["\"x\"", "$s", "\"\"\"b\"\"\"", "null"], ["1", "RED"]),
    "b": (["true", "false", "$b"], ["1"]),
    "c": (["RED", "GREEN", "$c"], ["BLUE", "\"RED\""]),
    "inp": (["{req: 1}", "{req: $i}", "{req: 1, nested: {req: 2}}", "$inp", "{req: 1, list: [1, 2]}"], ["{}", "{req: 1, extra: 2}", "[{req: 1}]", "{req: null}"]),
    "l": (["[1, 2]", "[]", "1", "[1, null]", "$l", "[$i]"], ["[[1]]", "[\"x\"]"]),
    "f": (["1.5", "1", "$f"], ["\"1\""]),
    "id": (["1", "\"a\"", "$id"], ["1.5"]),
}
VAR_TYPES = {"i": ["Int", "Int = 3", "Int!", "String", "[Int]"], "s": ["String", "String = \"d\"", "String!"], "b": ["Boolean", "Boolean = false", "Boolean! = true"],
             "c": ["Color", "Color = RED", "Color = BLUE"], "inp": ["Inp", "Inp = {req: 1}", "Inp!"], "l": ["[Int]", "[Int] = [1]", "[Int!]!"],
             "f": ["Float", "Float = 1"], "id": ["ID", "ID!"]}
GOOD_DIRECTIVES = ["@skip(if: false)", "@include(if: true)", "@include(if: $b)", "@skip(if: $b)", "@skip(if: true)"]
DIRECTIVES = GOOD_DIRECTIVES + ["@defer", "@defer(label: \"d\")", "@defer(if: $b)", "@stream", "@stream(initialCount: 1)",
                                "@stream(initialCount: $i, label: \"s\")", "@unknown", "@deprecated", "@skip", "@include(if: 1)",
                                "@skip(if: true) @skip(if: false)"]


class Gen:
    def __init__(self, rng):
        self.rng = rng
        self.careful = True
        self.frags = []       # (name, type) that may be spread from the current position
        self.used_vars = set()
        self.used_frags = set()

    def note_vars(self, text):
        for v in VAR_TYPES:
            if f"${v}" in text:
                self.used_vars.add(v)

    def directives(self, p, where="field", is_list=False):
        r = self.rng
        if r.random() >= p:
            return ""
        if self.careful:
            pool = list(GOOD_DIRECTIVES)
            if where == "fragment" and r.random() < 0.3:
                pool = ["@defer", "@defer(label: \"d\")", "@defer(if: $b)"]
            if where == "field" and is_list and r.random() < 0.3:
                pool = ["@stream(initialCount: 1)", "@stream(initialCount: 0, label: \"s\")"]
            d = r.choice(pool)
        elif r.random() < 0.5:
            d = " ".join(r.choice(DIRECTIVES) for _ in range(r.choice([1, 1, 2])))
        else:
            ds = []
            for _ in range(r.choice([1, 1, 2])):
                names = r.sample(DIR_ARG_NAMES, r.choice([0, 1, 1, 2]))
                args = "(" + ", ".join(f"{a}: {r.choice(DIR_ARG_VALUES)}" for a in names) + ")" if names else ""
                ds.append("@" + r.choice(DIR_NAMES) + args)
            d = " ".join(ds)
        self.note_vars(d)
        return " " + d

    def arg_value(self, n):
        good, bad = ARG_VALUES.get(n, (["1"], ["1"]))
        v = self.rng.choice(good if self.careful or self.rng.random() < 0.7 else bad)
        self.note_vars(v)
        return v

    def arguments(self, only=None):
        r = self.rng
        names = [only] if only else r.sample(list(ARG_VALUES), r.choice([1, 1, 2, 3]))
        if not self.careful and r.random() < 0.05:
            names.append("nope")
        return "(" + ", ".join(f"{n}: {self.arg_value(n)}" for n in names) + ")"

    def selection_set(self, tname, depth, root=False):
        r = self.rng
        fields = FIELDS.get(tname, FIELDS["Node"])
        parts = []
        for _ in range(r.choice([1, 1, 2, 2, 3, 4])):
            x = r.random()
            spreadable = [f for f in self.frags if (not self.careful or f[1] == tname)]
            if x < 0.15 and spreadable:
                f = r.choice(spreadable)
                self.used_frags.add(f[0])
                parts.append("..." + f[0] + self.directives(0.2, "fragment"))
            elif x < 0.23 and depth > 0:
                if self.careful:
                    cond = r.choice(["", f" on {tname}"] + ([" on Node"] if tname in ("Named", "Thing") else []) + ([" on Named"] if tname == "Node" else [])
                                    + ([" on Other"] if tname == "Thing" else []))
                else:
                    cond = r.choice(["", f" on {tname}", " on Node", " on Named", " on Query", " on Nope", " on Color", " on Thing", " on Other"])
                parts.append("..." + cond + self.directives(0.3, "fragment") + " " + self.selection_set(cond[4:] if cond else tname, depth - 1))
            else:
                if not self.careful and r.random() < 0.05:
                    name, sub = r.choice(["nope", "a", "id"]), None
                else:
                    name, sub = r.choice(fields)
                    if self.careful and root and name == "__typename" and tname == "Mutation":
                        name, sub = "m", None
                alias = r.choice(["x: ", "y: ", "z: "]) if r.random() < 0.15 else ""
                args = ""
                if name == "args" and r.random() < 0.8:
                    args = self.arguments()
                elif name == "color" and r.random() < 0.6:
                    args = self.arguments("c")
                elif name == "m" and r.random() < 0.6:
                    args = self.arguments("i")
                elif not self.careful and r.random() < 0.03:
                    args = self.arguments()
                s = alias + name + args + self.directives(0.15, "field", name in LIST_FIELDS)
                if sub and (self.careful or (depth > 0 and r.random() < 0.93)):
                    s += " " + (self.selection_set(sub, depth - 1) if depth > 0 else "{ __typename }")
                elif sub is None and not self.careful and r.random() < 0.02:
                    s += " { id }"
                parts.append(s)
        if self.careful:
            # aliases/fields that collide with different arguments would fail overlapping-fields validation
            seen, uniq = set(), []
            for p in parts:
                key = p.split("(")[0].split(" ")[0].split(":")[0]
                if key not in seen:
                    seen.add(key)
                    uniq.append(p)
            parts = uniq
        return "{ " + " ".join(parts) + " }"

    def document(self):
        r = self.rng
        self.careful = r.random() < 0.55
        nfr = r.choice([0, 0, 1, 2, 3])
        frag_types = [r.choice(["Query", "Node", "Node", "Named"] if self.careful else ["Query", "Node", "Node", "Named", "Mutation", "Nope", "Color", "Thing", "Subscription"])
                      for _ in range(nfr)]
        all_frags = [(f"F{i}", frag_types[i]) for i in range(nfr)]
        self.used_frags = set()
        frag_defs = {}
        # fragments first (careful: fragment i may spread only fragments with a larger index; no variables inside)
        for i in reversed(range(nfr)):
            self.frags = all_frags[i + 1:] if self.careful else all_frags + ([("Missing", "Node")] if r.random() < 0.1 else [])
            self.used_vars = set()
            body = self.selection_set(frag_types[i], r.choice([1, 2, 3]))
            if self.careful and self.used_vars:
                for v in self.used_vars:  # keep fragments variable-free in careful mode
                    body = body.replace(f"${v}", {"i": "1", "s": "\"x\"", "b": "true", "c": "RED", "inp": "{req: 1}", "l": "[1]", "f": "1.5", "id": "\"a\""}[v])
            fname = f"F{i}" if self.careful or r.random() < 0.95 else "F0"
            frag_defs[i] = f"fragment {fname} on {frag_types[i]}" + ("" if self.careful else self.directives(0.1, "fragment")) + " " + body
        defs = []
        nops = 1 if self.careful and r.random() < 0.6 else r.choice([1, 1, 2, 3])
        for k in range(nops):
            op = r.choice(["query", "query", "query", "mutation"] + ([] if self.careful else ["subscription"]))
            root = ROOTS[op]
            self.frags = all_frags if not self.careful else [f for f in all_frags]
            self.used_vars = set()
            body = self.selection_set(root, r.choice([1, 2, 3, 4]), root=True)
            if self.careful:
                used = sorted(self.used_vars)
                vdefs = "(" + ", ".join(f"${v}: {r.choice(VAR_TYPES[v][:2])}" for v in used) + ")" if used else ""
            else:
                used = r.sample(list(VAR_TYPES), r.choice([0, 0, 1, 2, 4]))
                vdefs = "(" + ", ".join(f"${v}: {r.choice(VAR_TYPES[v])}" + (" @deprecated" if r.random() < 0.03 else "") for v in used) + ")" if used else ""
            if self.careful:
                name = f"Op{k}" if (nops > 1 or vdefs or op != "query" or r.random() < 0.5) else ""
            else:
                name = "" if (nops == 1 and r.random() < 0.5 and not used) else f"Op{k if r.random() < 0.9 else 0}"
            head = (op + " " + name + vdefs) if (name or vdefs or op != "query") else ""
            defs.append(head + ("" if self.careful else self.directives(0.1)) + " " + body)
        for i in range(nfr):
            if self.careful and f"F{i}" not in self.used_frags:
                continue  # an unused fragment is a validation error
            defs.append(frag_defs[i])
        # careful mode: a fragment only reachable from a dropped fragment is unused; accept the occasional invalid document
        r.shuffle(defs)
        return "\n".join(d.strip() for d in defs)


def gen_documents(rng, n):
    g = Gen(rng)
    return [g.document() for _ in range(n)]
