"""graphql AST <-> the wire format of lean/Gql/Syntax/Ast.lean.

node  `( Cls f1 v1 ... )`, tuple `[ v ... ]`, str `s:104,105`, bool `#t/#f`, None `~`.
Fields are the dataclass fields in declaration order without `loc`; `OperationType` -> its value.
"""
from __future__ import annotations

from dataclasses import fields
from enum import Enum


def to_wire(v) -> str:
    from graphql.language import ast as A

    if v is None:
        return "~"
    if v is True:
        return "#t"
    if v is False:
        return "#f"
    if isinstance(v, Enum):
        v = v.value
    if isinstance(v, str):
        return "s:" + ",".join(str(ord(c)) for c in v)
    if isinstance(v, (tuple, list)):
        return "[" + "".join(" " + to_wire(x) for x in v) + " ]"
    if isinstance(v, A.Node):
        parts = ["(", type(v).__name__]
        for f in fields(v):
            if f.name == "loc":
                continue
            parts.append(f.name)
            parts.append(to_wire(getattr(v, f.name)))
        parts.append(")")
        return " ".join(parts)
    return "?:" + type(v).__name__


def from_wire(text: str):
    """Build a graphql AST (or plain value) from the wire format."""
    from graphql.language import ast as A

    toks = text.split(" ")
    pos = 0

    def val():
        nonlocal pos
        t = toks[pos]
        pos += 1
        if t == "~":
            return None
        if t == "#t":
            return True
        if t == "#f":
            return False
        if t.startswith("s:"):
            body = t[2:]
            return "".join(chr(int(x)) for x in body.split(",")) if body else ""
        if t == "[":
            items = []
            while toks[pos] != "]":
                items.append(val())
            pos += 1
            return tuple(items)
        if t == "(":
            cls = getattr(A, toks[pos])
            pos += 1
            kw = {}
            while toks[pos] != ")":
                k = toks[pos]
                pos += 1
                kw[k] = val()
            pos += 1
            if cls is A.OperationDefinitionNode and isinstance(kw.get("operation"), str):
                kw["operation"] = A.OperationType(kw["operation"])
            if cls is A.OperationTypeDefinitionNode and isinstance(kw.get("operation"), str):
                kw["operation"] = A.OperationType(kw["operation"])
            return cls(**kw)
        raise ValueError(f"bad token {t!r}")

    v = val()
    if pos != len(toks):
        raise ValueError("trailing tokens")
    return v
