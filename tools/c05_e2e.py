"""C05 end-to-end oracle: run `experimental_execute_incrementally` on generated queries
(nested / labelled / overlapping @defer, @stream with various initialCount, sync and async
resolvers and iterators, different completion orders, early execution on/off), collect the
payload stream and encode it for the Lean validator (`drv_c05 proto`).

A *case* is {"query": str, "sched": int, "early": bool, "lazy": int, "nest": [[childLabel,
parentLabel], ..]} — everything needed to replay it.
"""
from __future__ import annotations

import asyncio
import random

SDL = """
type Query {
  hero: Hero
  nnHero: Hero!
  heroes: [Hero]
  scalars: [Int]
}
type Hero {
  i: Int
  name: String
  slow: String
  nn: String!
  maybe: String
  friend: Hero
  nnFriend: Hero!
  friends: [Hero]
  nnFriends: [Hero!]
  nums: [Int]
}
"""

_schema = None


def schema():
    global _schema
    if _schema is None:
        from graphql import build_schema

        _schema = build_schema(SDL)
    return _schema


def make_hero(i, depth, bad):
    """Plain data; `bad` is the set of 'breadcrumb' strings whose `nn` is null."""

    def hero(i, depth, crumb):
        h = {"i": i, "name": f"n{crumb}", "slow": f"s{crumb}", "maybe": None, "nn": None if crumb in bad else f"x{crumb}", "nums": [0, 1, 2]}
        if depth > 0:
            h["friend"] = hero(0, depth - 1, crumb + "f")
            h["nnFriend"] = hero(0, depth - 1, crumb + "g")
            h["friends"] = [hero(k, depth - 1, f"{crumb}{k}") for k in range(3)]
            h["nnFriends"] = [hero(k, depth - 1, f"{crumb}m{k}") for k in range(2)]
        else:
            h["friend"] = None
            h["nnFriend"] = None
            h["friends"] = []
            h["nnFriends"] = []
        return h

    return hero(i, depth, str(i))


# ------------------------------------------------------------------ query generator


class QGen:
    def __init__(self, rng):
        self.rng = rng
        self.labels = 0
        self.aliases = 0
        self.nest = []
        self.budget = rng.choice([2, 3, 4, 6, 8])  # defers + list fields + object fields

    def spend(self):
        if self.budget <= 0:
            return False
        self.budget -= 1
        return True

    def label(self):
        self.labels += 1
        return f"L{self.labels}"

    def selection(self, depth, encl, allow_defer=True, need_i=False):
        rng = self.rng
        parts = []
        if need_i:
            parts.append("i")
        scal = [f for f in ["i", "name", "slow", "maybe"] if rng.random() < 0.45]
        if rng.random() < 0.3:
            scal.append("nn")
        parts += scal
        if depth > 0:
            if rng.random() < 0.5 and self.spend():
                f = rng.choice(["friend", "friend", "nnFriend"])
                parts.append(f + " " + self.selection(depth - 1, encl))
            if rng.random() < 0.6 and self.spend():
                parts.append(self.list_field(depth, encl))
            if rng.random() < 0.2:
                parts.append(self.nums_field())
        if allow_defer:
            n = rng.choice([0, 1, 1, 2, 2, 3]) if depth > 0 else rng.choice([0, 0, 1])
            for _ in range(n):
                if self.spend():
                    parts.append(self.defer(depth, encl))
        if not parts:
            parts.append("name")
        rng.shuffle(parts)
        return "{ " + " ".join(parts) + " }"

    def defer(self, depth, encl):
        rng = self.rng
        lab = self.label()
        if encl is not None:
            self.nest.append([lab, encl])
        args = [f'label: "{lab}"']
        if rng.random() < 0.12:
            args.append("if: false")
        elif rng.random() < 0.08:
            args.append("if: true")
        cond = rng.choice(["", "", "on Hero "])
        return f"... {cond}@defer({', '.join(args)}) " + self.selection(max(depth - (0 if rng.random() < 0.5 else 1), 0), lab)

    def list_field(self, depth, encl):
        rng = self.rng
        self.aliases += 1
        f = rng.choice(["friends", "friends", "nnFriends"])
        alias = f"a{self.aliases}: "
        stream = ""
        if rng.random() < 0.6:
            args = [f"initialCount: {rng.choice([0, 0, 1, 2, 3, 5])}"]
            if rng.random() < 0.7:
                args.append(f'label: "{self.label()}"')
            if rng.random() < 0.1:
                args.append("if: false")
            stream = f" @stream({', '.join(args)})"
        # defers inside list items are separate instances per item; their static parent is `encl`
        return f"{alias}{f}{stream} " + self.selection(depth - 1, encl, need_i=True)

    def nums_field(self):
        self.aliases += 1
        rng = self.rng
        return f"a{self.aliases}: nums @stream(initialCount: {rng.choice([0, 1, 2, 4])})"

    def query(self):
        rng = self.rng
        parts = []
        root_fields = rng.sample(["hero", "nnHero", "heroes", "scalars"], rng.choice([1, 1, 2, 3]))
        for f in root_fields:
            if f == "scalars":
                self.aliases += 1
                parts.append(f"a{self.aliases}: scalars @stream(initialCount: {rng.choice([0, 1, 2])})")
            elif f == "heroes":
                self.aliases += 1
                st = f" @stream(initialCount: {rng.choice([0, 1, 2])})" if rng.random() < 0.6 else ""
                parts.append(f"a{self.aliases}: heroes{st} " + self.selection(1, None, need_i=True))
            else:
                parts.append(f"{f} " + self.selection(2, None))
        if rng.random() < 0.3:
            lab = self.label()
            parts.append(f'... @defer(label: "{lab}") {{ hero ' + self.selection(1, lab) + " }")
        return "{ " + " ".join(parts) + " }"


def gen_case(rng):
    g = QGen(rng)
    q = g.query()
    return {
        "query": q,
        "nest": g.nest,
        "sched": rng.randrange(1 << 30),
        "early": rng.random() < 0.5,
        "lazy": rng.choice([0, 0, 1, 3]),
        "bad": rng.choice([[], ["0"], ["00"], ["0f"], ["01", "0m0"], ["1"], ["0g"], ["02", "0f"], ["0", "1"], ["00", "01", "10"]]),
    }


# ------------------------------------------------------------------ running


class FeedRecorder:
    """What the real executor feeds the scheduler, recorded from the outside by the observing
    `WorkQueue` subclass: the initial `Work` and every graph event *in the order the scheduler
    handles it* (task results with their nested work, stream batches with `is_stopped()` as read
    at that moment, stream ends).  Objects are numbered by first sight, a group's parent first
    (allocation order: the parent object exists before the group).  `sim_line()` is the
    `drv_c05 sim` case whose `envok` flag decides `EnvOk` on this feed; all tasks are declared
    asynchronous, so every handled event is an environment event of the model."""

    def __init__(self):
        self.g, self.t, self.s = {}, {}, {}
        self.gdecl, self.tdecl = [], []
        self.work = None
        self.events = []
        self.fed = set()  # groups that appeared in the `groups` of some Work

    def gid(self, g):
        k = id(g)
        if k not in self.g:
            parent = getattr(g, "parent", None)
            pid = self.gid(parent) if parent is not None else -1
            self.g[k] = (len(self.g), g)
            self.gdecl.append([self.g[k][0], pid])
        return self.g[k][0]

    def tid(self, t):
        k = id(t)
        if k not in self.t:
            self.t[k] = (len(self.t), t)
            self.tdecl.append([self.t[k][0], [self.gid(g) for g in t.groups]])
        return self.t[k][0]

    def sid(self, st):
        k = id(st)
        if k not in self.s:
            self.s[k] = (len(self.s), st)
        return self.s[k][0]

    def enc_work(self, w):
        if w is None:
            return None
        gs = [self.gid(g) for g in w.groups]
        self.fed.update(gs)
        return {"g": gs, "t": [self.tid(t) for t in w.tasks], "s": [self.sid(x) for x in w.streams]}

    def unfed_parents(self):
        """Groups given to the scheduler whose parent object never was (in no Work at all): the
        scheduler keeps them as orphans that are never delivered; EnvOk (E2) excludes them."""
        return [[g, p] for g, p in self.gdecl if g in self.fed and p >= 0 and p not in self.fed]

    def init(self, work):
        self.work = self.enc_work(work)

    def handled(self, wq, ev):
        name = type(ev).__name__
        if name == "_TaskSuccess":
            t = self.tid(ev.task)
            w = self.enc_work(ev.result.work)
            self.events.append(["ts", t, {"groups": list(self.tdecl[t][1]), "path": [], "tag": 0, "errs": 0, "work": w}])
        elif name == "_TaskFailure":
            self.events.append(["tf", self.tid(ev.task)])
        elif name == "_StreamItems":
            items = [{"idx": -1, "tag": 0, "errs": 0, "work": self.enc_work(it.work)} for it in ev.items]
            self.events.append(["si", self.sid(ev.stream), items, bool(ev.stream.queue.is_stopped())])
        elif name == "_StreamSuccess":
            # the pump's trailing success after a batch delivered with is_stopped() true is produced
            # by the model itself (deferred); only a success of a stream that is still a root is fed
            if ev.stream in wq._root_streams:  # noqa: SLF001
                self.events.append(["ss", self.sid(ev.stream)])
        elif name == "_StreamFailure":
            self.events.append(["sf", self.sid(ev.stream)])

    def case(self):
        return {
            "groups": [[g, p, []] for g, p in self.gdecl],
            "tasks": [[t, gs, 2, None] for t, gs in self.tdecl],
            "streams": [[i, []] for i in range(len(self.s))],
            "work": self.work,
            "history": [self.events] if self.events else [],
        }

    def sim_line(self):
        from tools import c05_direct as D

        return D.enc_case(self.case(), fuel=len(self.events) + 10)


def _install_prune_observer(sink, feeds=None):
    """Swap `incremental_publisher.WorkQueue` (a module-level name, from the outside) for a subclass
    that *observes* `_prune_empty_groups`: it records when a group is dropped as empty (pending == 0)
    although it still holds a completed task whose value has not been delivered, because the task also
    belongs to another group that is still in the graph.  Used only to fingerprint the known finding
    `workqueue-prunes-promoted-group-with-undelivered-shared-task`; it never changes behaviour.
    Returns a function restoring the original class."""
    from graphql.execution.incremental import incremental_publisher as ip

    base = ip.WorkQueue

    class ObservingWorkQueue(base):
        def __init__(self, initial_work=None):
            self._c05_feed = None
            if feeds is not None:
                try:
                    self._c05_feed = FeedRecorder()
                    self._c05_feed.init(initial_work)
                    feeds.append(self._c05_feed)
                except Exception:  # noqa: BLE001
                    self._c05_feed = None
            super().__init__(initial_work)

        def _handle_graph_event(self, graph_event):
            if self._c05_feed is not None:
                try:
                    self._c05_feed.handled(self, graph_event)
                except Exception as e:  # noqa: BLE001  (observation must never change behaviour)
                    self._c05_feed.events.append(["error", repr(e)])
            return super()._handle_graph_event(graph_event)

        def _prune_empty_groups(self, new_groups, non_empty_new_groups=None):
            try:
                group_nodes = self._group_nodes  # noqa: SLF001
                task_nodes = self._task_nodes  # noqa: SLF001
                for group in new_groups:
                    node = group_nodes.get(group)
                    if node is None or node.pending or not node.tasks:
                        continue
                    for task in node.tasks:
                        value = getattr(task_nodes.get(task), "value", None)
                        data = getattr(value, "data", None)
                        if not isinstance(data, dict):
                            continue
                        if not any(o is not group and o in group_nodes for o in task.groups):
                            continue
                        base_path = list(getattr(value, "path", []) or [])
                        gp = getattr(group, "path", None)
                        sink.append(
                            {
                                "group_path": gp.as_list() if gp else [],
                                "group_label": getattr(group, "label", None),
                                "produced": [base_path + [k] for k in data],
                            }
                        )
            except Exception:  # noqa: BLE001  (observation must never change behaviour)
                pass
            return super()._prune_empty_groups(new_groups, non_empty_new_groups)

    ip.WorkQueue = ObservingWorkQueue

    def restore():
        ip.WorkQueue = base

    return restore


def run_case(case, max_steps=200000):
    """Returns (initial_formatted | None, [subsequent formatted], info)."""
    from graphql import parse
    from graphql.execution import experimental_execute_incrementally

    rng = random.Random(case["sched"])
    bad = set(case["bad"])
    root = {
        "hero": make_hero(0, 2, bad),
        "nnHero": make_hero(1, 2, bad),
        "heroes": [make_hero(k, 1, bad) for k in range(3)],
        "scalars": [0, 1, 2, 3],
    }
    delays = {}

    def delay_for(key):
        if key not in delays:
            r = rng.random()
            delays[key] = 0 if r < 0.45 else rng.randint(1, 6)
        return delays[key]

    async def later(v, d):
        for _ in range(d):
            await asyncio.sleep(0)
        return v

    async def agen(items, key):
        for k, it in enumerate(items):
            for _ in range(delay_for((key, "item", k)) % 3):
                await asyncio.sleep(0)
            yield it

    def resolver(src, info, **_args):
        name = info.field_name
        v = src.get(name) if isinstance(src, dict) else None
        key = tuple(info.path.as_list())
        d = delay_for(key)
        if isinstance(v, list):
            mode = delay_for((key, "listmode")) % 4
            if mode == 1:
                return agen(v, key)
            if mode == 2:
                return iter(v)
            if mode == 3:
                return later(v, d + 1)
            return v
        if d:
            return later(v, d)
        return v

    info = {"hang": False, "error": None, "pruned_undelivered": [], "feeds": []}
    restore = _install_prune_observer(info["pruned_undelivered"], info["feeds"])

    async def main():
        res = experimental_execute_incrementally(
            schema(), parse(case["query"]), root, field_resolver=resolver, enable_early_execution=case["early"]
        )
        if asyncio.iscoroutine(res) or asyncio.isfuture(res) or hasattr(res, "__await__"):
            res = await res
        if not hasattr(res, "initial_result"):
            return None, []
        init = res.initial_result.formatted
        subs = []
        async for p in res.subsequent_results:
            subs.append(p.formatted)
            for _ in range(case["lazy"]):
                await asyncio.sleep(0)
        return init, subs

    loop = asyncio.new_event_loop()
    try:
        # Step the loop ourselves: the resolvers only ever `sleep(0)`, so the run is over when the
        # main task is done, and it *hangs* exactly when the loop is quiescent (nothing ready, no
        # timer) while the main task is still pending -- no wall-clock timeout involved.
        task = loop.create_task(main())
        for _ in range(max_steps):
            loop.call_soon(loop.stop)
            loop.run_forever()
            if task.done():
                break
            if not loop._ready and not loop._scheduled:  # noqa: SLF001 (harness-owned loop)
                info["hang"] = True
                break
        else:
            info["hang"] = True
        if info["hang"]:
            return None, [], info
        init, subs = task.result()
        for _ in range(50):
            loop.call_soon(loop.stop)
            loop.run_forever()
            if not loop._ready:  # noqa: SLF001
                break
        return init, subs, info
    finally:
        restore()
        try:
            pend = [t for t in asyncio.all_tasks(loop) if not t.done()]
            for t in pend:
                t.cancel()
            if pend:
                loop.run_until_complete(asyncio.gather(*pend, return_exceptions=True))
        except Exception:  # noqa: BLE001
            pass
        loop.close()


# ------------------------------------------------------------------ encoding for the validator


class Interner:
    def __init__(self):
        self.m = {}

    def __call__(self, x):
        if x not in self.m:
            self.m[x] = len(self.m)
        return self.m[x]


def enc_stream(case, init, subs, want_ids=False):
    """`proto 1 1 PARENTS J PAYLOADS` line for a complete response stream."""
    keys, leaves, labels, ids = Interner(), Interner(), Interner(), Interner()

    def key(k):
        return 2 * k if isinstance(k, int) else 2 * keys(k) + 1

    def enc_j(v):
        if v is None:
            return [0]
        if isinstance(v, dict):
            out = [2, len(v)]
            for k, x in v.items():
                out += [key(k)] + enc_j(x)
            return out
        if isinstance(v, list):
            out = [3, len(v)]
            for x in v:
                out += enc_j(x)
            return out
        return [1, leaves(repr(v))]

    def enc_path(p):
        return [len(p)] + [key(k) for k in p]

    def enc_pending(pl):
        ps = pl.get("pending") or []
        out = [len(ps)]
        for p in ps:
            lab = p.get("label")
            out += [ids(p["id"])] + enc_path(p.get("path") or []) + [labels(lab) if lab is not None else -1]
        return out

    def item_index(it):
        if isinstance(it, dict) and isinstance(it.get("i"), int):
            return it["i"]
        if isinstance(it, int) and not isinstance(it, bool):
            return it
        return -1

    def enc_inc(pl):
        es = pl.get("incremental") or []
        out = [len(es)]
        for e in es:
            if "items" in e:
                items = e["items"] or []
                out += [1, ids(e["id"]), len(items)]
                for it in items:
                    out += [item_index(it)] + enc_j(it)
            else:
                out += [0, ids(e["id"])] + enc_path(e.get("subPath") or []) + enc_j(e.get("data"))
        return out

    def enc_completed(pl):
        cs = pl.get("completed") or []
        out = [len(cs)]
        for c in cs:
            out += [ids(c["id"]), 1 if c.get("errors") else 0]
        return out

    toks = [1, 1]
    nest = case["nest"]
    toks += [len(nest)]
    for child, parent in nest:
        toks += [labels(child), labels(parent)]
    toks += enc_j(init.get("data"))
    pls = [init] + list(subs)
    toks += [len(pls)]
    for pl in pls:
        toks += [1 if pl.get("hasNext") else 0] + enc_pending(pl) + enc_inc(pl) + enc_completed(pl)
    if want_ids:
        return "proto " + " ".join(str(t) for t in toks), {v: k for k, v in ids.m.items()}
    return "proto " + " ".join(str(t) for t in toks)


KNOWN_PRUNE_FP = "workqueue-prunes-promoted-group-with-undelivered-shared-task"


def classify_p3b(verdict, id_names, init, subs, pruned):
    """Is this P3b verdict the known work-queue finding?  Only if the pruning of a promoted group with
    an undelivered shared task was *observed in this very run* and the rejected entry's pending path
    lies inside data that this undelivered task produces."""
    try:
        num = int(verdict.split("id=")[1])
    except Exception:  # noqa: BLE001
        return False
    name = id_names.get(num)
    target = None
    for pl in [init] + list(subs):
        for p in pl.get("pending") or []:
            if p["id"] == name:
                target = list(p.get("path") or [])
    if target is None:
        return False
    for ev in pruned or ():
        for prod in ev.get("produced", ()):
            if target[: len(prod)] == list(prod):
                return True
    return False


def stats_of(init, subs):
    st = {}
    pls = [init] + list(subs)
    st["payloads"] = len(pls)
    st["pending"] = sum(len(p.get("pending") or []) for p in pls)
    st["defer_entries"] = sum(1 for p in pls for e in (p.get("incremental") or []) if "items" not in e)
    st["stream_entries"] = sum(1 for p in pls for e in (p.get("incremental") or []) if "items" in e)
    st["completed_err"] = sum(1 for p in pls for c in (p.get("completed") or []) if c.get("errors"))
    st["subpath"] = sum(1 for p in pls for e in (p.get("incremental") or []) if e.get("subPath"))
    st["late_pending"] = sum(len(p.get("pending") or []) for p in pls[1:])
    return st
