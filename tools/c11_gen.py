"""Generators for the C11 check: GraphQL documents over all node kinds (as source text, to be
parsed by the implementation), programmatic trees, scripted visitors."""
from __future__ import annotations

NAMES = ["a", "b", "c", "id", "name", "f", "g", "T", "U", "Q", "x", "y"]
TYPES = ["T", "U", "Q", "Int", "String", "ID"]


def _name(rng):
    return rng.choice(NAMES)


def gen_value(rng, depth, const):
    r = rng.random()
    if depth <= 0 or r < 0.55:
        k = rng.randrange(8 if const else 9)
        return [
            lambda: str(rng.randint(-3, 99)),
            lambda: f"{rng.randint(0, 9)}.{rng.randint(0, 9)}e{rng.randint(1, 3)}",
            lambda: '"' + rng.choice(["", "s", "two words", "\\n"]) + '"',
            lambda: '"""' + rng.choice(["blk", "a\n  b"]) + '"""',
            lambda: rng.choice(["true", "false"]),
            lambda: "null",
            lambda: rng.choice(["RED", "GREEN", "A_B"]),
            lambda: "[]" if rng.random() < 0.5 else "{}",
            lambda: "$" + _name(rng),
        ][k]()
    if r < 0.8:
        return "[" + ", ".join(gen_value(rng, depth - 1, const) for _ in range(rng.randint(0, 3))) + "]"
    return "{" + ", ".join(f"{_name(rng)}: {gen_value(rng, depth - 1, const)}" for _ in range(rng.randint(0, 3))) + "}"


def gen_args(rng, depth, const, p=0.4):
    if rng.random() > p:
        return ""
    return "(" + ", ".join(f"{_name(rng)}: {gen_value(rng, depth, const)}" for _ in range(rng.randint(1, 3))) + ")"


def gen_directives(rng, const, p=0.3):
    out = ""
    while rng.random() < p:
        out += f" @{_name(rng)}{gen_args(rng, 1, const, 0.5)}"
    return out


def gen_type(rng, depth=2):
    r = rng.random()
    if depth <= 0 or r < 0.5:
        t = rng.choice(TYPES)
    else:
        t = "[" + gen_type(rng, depth - 1) + "]"
    if rng.random() < 0.3:
        t += "!"
    return t


def gen_selection_set(rng, depth, fragargs):
    n = rng.randint(1, 3 if depth > 0 else 2)
    sels = []
    for _ in range(n):
        r = rng.random()
        if r < 0.65 or depth <= 0:
            s = ""
            if rng.random() < 0.25:
                s += _name(rng) + ": "
            s += _name(rng) + gen_args(rng, 2, False) + gen_directives(rng, False)
            if depth > 0 and rng.random() < 0.5:
                s += " " + gen_selection_set(rng, depth - 1, fragargs)
            sels.append(s)
        elif r < 0.8:
            s = "..." + rng.choice(["F", "G"])
            if fragargs:
                s += gen_args(rng, 1, False, 0.5)
            sels.append(s + gen_directives(rng, False))
        else:
            s = "..."
            if rng.random() < 0.6:
                s += " on " + rng.choice(TYPES[:3])
            sels.append(s + gen_directives(rng, False) + " " + gen_selection_set(rng, depth - 1, fragargs))
    return "{ " + " ".join(sels) + " }"


def gen_vardefs(rng, p=0.5):
    if rng.random() > p:
        return ""
    vs = []
    for _ in range(rng.randint(1, 3)):
        v = ""
        if rng.random() < 0.15:
            v += '"var desc" '
        v += f"${_name(rng)}: {gen_type(rng)}"
        if rng.random() < 0.4:
            v += " = " + gen_value(rng, 2, True)
        v += gen_directives(rng, True)
        vs.append(v)
    return "(" + ", ".join(vs) + ")"


def gen_executable(rng, fragargs):
    defs = []
    for _ in range(rng.randint(1, 3)):
        r = rng.random()
        depth = rng.randint(0, 3)
        if r < 0.2:
            defs.append(gen_selection_set(rng, depth, fragargs))
        elif r < 0.7:
            d = '"op desc" ' if rng.random() < 0.15 else ""
            d += rng.choice(["query", "mutation", "subscription"])
            if rng.random() < 0.7:
                d += " " + _name(rng)
            d += gen_vardefs(rng) + gen_directives(rng, False) + " " + gen_selection_set(rng, depth, fragargs)
            defs.append(d)
        else:
            d = '"frag desc" ' if rng.random() < 0.15 else ""
            d += "fragment " + rng.choice(["F", "G"])
            if fragargs:
                d += gen_vardefs(rng, 0.4)
            d += " on " + rng.choice(TYPES[:3]) + gen_directives(rng, False) + " " + gen_selection_set(rng, depth, fragargs)
            defs.append(d)
    return "\n".join(defs)


def gen_desc(rng):
    r = rng.random()
    if r < 0.2:
        return '"d" '
    if r < 0.3:
        return '"""block\n desc""" '
    return ""


def gen_argdefs(rng, p=0.4):
    if rng.random() > p:
        return ""
    return "(" + ", ".join(gen_input_value(rng) for _ in range(rng.randint(1, 2))) + ")"


def gen_input_value(rng):
    s = gen_desc(rng) + f"{_name(rng)}: {gen_type(rng)}"
    if rng.random() < 0.4:
        s += " = " + gen_value(rng, 1, True)
    return s + gen_directives(rng, True)


def gen_fielddefs(rng, p=0.8):
    if rng.random() > p:
        return ""
    fs = [gen_desc(rng) + _name(rng) + gen_argdefs(rng) + ": " + gen_type(rng) + gen_directives(rng, True) for _ in range(rng.randint(1, 3))]
    return " { " + " ".join(fs) + " }"


def gen_implements(rng):
    if rng.random() < 0.4:
        return " implements " + " & ".join(rng.sample(TYPES[:3], rng.randint(1, 2)))
    return ""


def gen_sdl_def(rng):
    k = rng.randrange(17)
    dirs = lambda p=0.3: gen_directives(rng, True, p)  # noqa: E731
    ops = lambda: " { " + " ".join(f"{o}: {rng.choice(TYPES[:3])}" for o in rng.sample(["query", "mutation", "subscription"], rng.randint(1, 2))) + " }"  # noqa: E731
    if k == 0:
        return gen_desc(rng) + "schema" + dirs() + ops()
    if k == 1:
        return gen_desc(rng) + "scalar " + _name(rng) + dirs()
    if k == 2:
        return gen_desc(rng) + "type " + _name(rng) + gen_implements(rng) + dirs() + gen_fielddefs(rng)
    if k == 3:
        return gen_desc(rng) + "interface " + _name(rng) + gen_implements(rng) + dirs() + gen_fielddefs(rng)
    if k == 4:
        return gen_desc(rng) + "union " + _name(rng) + dirs() + (" = " + " | ".join(rng.sample(TYPES, rng.randint(1, 3))) if rng.random() < 0.8 else "")
    if k == 5:
        vals = " { " + " ".join(gen_desc(rng) + v + dirs(0.2) for v in rng.sample(["RED", "GREEN", "A_B"], rng.randint(1, 3))) + " }"
        return gen_desc(rng) + "enum " + _name(rng) + dirs() + (vals if rng.random() < 0.85 else "")
    if k == 6:
        flds = " { " + " ".join(gen_input_value(rng) for _ in range(rng.randint(1, 3))) + " }"
        return gen_desc(rng) + "input " + _name(rng) + dirs() + (flds if rng.random() < 0.85 else "")
    if k == 7:
        locs = " | ".join(rng.sample(["QUERY", "FIELD", "OBJECT", "ENUM_VALUE", "SCHEMA"], rng.randint(1, 3)))
        return gen_desc(rng) + "directive @" + _name(rng) + gen_argdefs(rng) + dirs(0.2) + (" repeatable" if rng.random() < 0.3 else "") + " on " + locs
    if k == 8:
        return "extend schema" + (dirs(0.9) or " @a") + (ops() if rng.random() < 0.5 else "")
    if k == 9:
        return "extend scalar " + _name(rng) + (dirs(0.9) or " @a")
    if k == 10:
        return "extend type " + _name(rng) + gen_implements(rng) + dirs() + (gen_fielddefs(rng, 1.0))
    if k == 11:
        return "extend interface " + _name(rng) + gen_implements(rng) + dirs() + (gen_fielddefs(rng, 1.0))
    if k == 12:
        return "extend union " + _name(rng) + dirs() + " = " + " | ".join(rng.sample(TYPES, rng.randint(1, 2)))
    if k == 13:
        return "extend enum " + _name(rng) + dirs() + " { RED " + gen_desc(rng) + "GREEN" + dirs(0.2) + " }"
    if k == 14:
        return "extend input " + _name(rng) + dirs() + " { " + gen_input_value(rng) + " }"
    if k == 15:
        return "extend directive @" + _name(rng) + (dirs(0.9) or " @a")
    return gen_desc(rng) + "type " + _name(rng) + gen_fielddefs(rng, 1.0)


def gen_sdl(rng):
    return "\n".join(gen_sdl_def(rng) for _ in range(rng.randint(1, 3)))


def gen_coordinate(rng):
    return rng.choice(["T", "T.f", "T.f(a:)", "@d", "@d(a:)", "Q.name", "U.id(x:)"])


def gen_document_desc(rng):
    """a tree description that `checks.c11.build_tree` turns into an AST by parsing"""
    r = rng.random()
    if r < 0.5:
        fa = rng.random() < 0.4
        return {"parse": gen_executable(rng, fa), "fragargs": fa}
    if r < 0.85:
        return {"parse": gen_sdl(rng), "fragargs": False}
    if r < 0.93:
        return {"parse": gen_executable(rng, False) + "\n" + gen_sdl(rng), "fragargs": False}
    if r < 0.97:
        return {"coord": gen_coordinate(rng)}
    return {"value": gen_value(rng, 3, False)}


# ---------------------------------------------------------------- programmatic trees


def gen_node_desc(rng, classes, depth, budget):
    """{"cls": name, "scalars": {...}, "fields": {key: None | desc | [desc, ...]}} over arbitrary
    (not necessarily type-correct) combinations of node classes; `classes` maps class name ->
    (node-valued keys, scalar field names)."""
    name = rng.choice(sorted(classes))
    keys, scalars = classes[name]
    d = {"cls": name, "scalars": {s: rng.choice(["v", "w", True, None]) for s in scalars}, "fields": {}}
    for k in keys:
        r = rng.random()
        if depth <= 0 or budget[0] <= 0 or r < 0.35:
            d["fields"][k] = None if r < 0.6 else []
        elif r < 0.7:
            budget[0] -= 1
            d["fields"][k] = gen_node_desc(rng, classes, depth - 1, budget)
        else:
            n = rng.randint(0, 3)
            budget[0] -= n
            d["fields"][k] = [gen_node_desc(rng, classes, depth - 1, budget) for _ in range(n)]
    return d


# ---------------------------------------------------------------- scripted visitors

ACTIONS = ["idle", "skip", "brk", "rm", "rep"]


def gen_rules(rng, positions, kinds, classes, editing, max_rules=4):
    """positions: [(path, kind, serial)] of the input tree in document order."""
    rules = []
    n_calls = 2 * len(positions)
    for _ in range(rng.choice([0, 1, 1, 2, 2, 3, max_rules])):
        phase = rng.choice(["e", "l"])
        acts = ["skip", "brk"] + (["rm", "rep"] if editing else []) + (["idle"] if rng.random() < 0.2 else [])
        act = rng.choice(acts)
        r = rng.random()
        path, kind, serial = rng.choice(positions)
        if rng.random() < 0.12:
            path, kind, serial = positions[0]  # the root
        if r < 0.45:
            sel = ["p", list(path)]
        elif r < 0.6:
            sel = ["s", serial]
        elif r < 0.8:
            sel = ["c", rng.randrange(max(1, n_calls))]
        elif r < 0.97:
            sel = ["k", rng.choice(kinds)]
        else:
            sel = ["any"]
        if act == "rep":
            if sel[0] in ("k", "any") and phase == "e":
                sel = ["p", list(path)]  # an enter-replacement is traversed: keep it one-shot
            budget = [rng.randint(0, 5)]
            act = {"rep": {"node": gen_node_desc(rng, classes, 2, budget)}}
        rules.append({"phase": phase, "sel": sel, "act": act})
    return rules
