"""C04: correspondence of the Lean model Gql/Async/CollectDefer.lean with the real
``collect_fields`` / ``collect_subfields`` (called directly), on generated selection sets.

The document is encoded for the model as an *unfolded* selection tree (a fragment spread carries the
selections of the fragment it names); what ``@skip``/``@include``, the type condition and the
``if`` argument of ``@defer`` evaluate to is computed here and handed to the model as input.
"""
from __future__ import annotations

BASE = 1000

SDL = """
directive @defer(if: Boolean! = true, label: String) on FRAGMENT_SPREAD | INLINE_FRAGMENT
type Query { a: String b: String c: String o: T p: T }
type T { a: String b: String c: String o: U }
type U { a: String b: String }
"""
_schema = None


def schema():
    global _schema
    if _schema is None:
        from graphql import build_schema

        _schema = build_schema(SDL)
    return _schema


TYPE_AT = {0: "Query", 1: "T", 2: "U"}


class DocGen:
    def __init__(self, rng):
        self.rng = rng
        self.frags = []  # (name, level, body)
        self.labels = 0

    def directives(self, allow_defer):
        rng = self.rng
        out = ""
        r = rng.random()
        if r < 0.06:
            out += " @skip(if: true)"
        elif r < 0.12:
            out += " @skip(if: $no)"
        elif r < 0.16:
            out += " @include(if: false)"
        elif r < 0.22:
            out += " @include(if: $yes) @skip(if: $no)"
        if allow_defer and rng.random() < 0.5:
            args = []
            q = rng.random()
            if q < 0.12:
                args.append("if: false")
            elif q < 0.2:
                args.append("if: $no")
            elif q < 0.3:
                args.append("if: $yes")
            if rng.random() < 0.5:
                self.labels += 1
                args.append(f'label: "L{self.labels}"')
            out += " @defer" + (f"({', '.join(args)})" if args else "")
        return out

    def selset(self, level, depth):
        rng = self.rng
        sels = []
        for _ in range(rng.randint(1, 4)):
            r = rng.random()
            if r < 0.35 or depth > 3:
                f = rng.choice(["a", "b", "c"] if level < 2 else ["a", "b"])
                alias = "x: " if rng.random() < 0.15 else ""
                sels.append(alias + f + self.directives(False))
            elif r < 0.45 and level < 2:
                f = rng.choice(["o", "p"]) if level == 0 else "o"
                sels.append(f"{f}{self.directives(False)} {self.selset(level + 1, depth + 1)}")
            elif r < 0.7:
                q = rng.random()
                cond = "" if q < 0.5 else f" on {TYPE_AT[level]}" if q < 0.85 else f" on {TYPE_AT[(level + 1) % 3]}"
                sels.append(f"...{cond}{self.directives(True)} {self.selset(level, depth + 1)}")
            else:
                same = [n for n, lv, b in self.frags if lv == level and b is not None]  # completed ones only: no cycles
                q = rng.random()
                if q < 0.08:
                    name = "Missing"
                elif same and q < 0.6:
                    name = rng.choice(same)
                else:
                    name = f"F{len(self.frags)}"
                    self.frags.append((name, level, None))
                    idx = len(self.frags) - 1
                    body = self.selset(level, depth + 1)  # may only use fragments created later or earlier: no cycle
                    self.frags[idx] = (name, level, body)
                sels.append(f"...{name}{self.directives(True)}")
        return "{ " + " ".join(sels) + " }"


def gen_doc(rng):
    g = DocGen(rng)
    # fragments referenced while their own body is being generated would form a cycle: only completed ones are reused
    body = g.selset(0, 0)
    text = "query Q($yes: Boolean = true, $no: Boolean = false) " + body
    for name, lv, b in g.frags:
        cond = TYPE_AT[lv] if rng.random() < 0.9 else TYPE_AT[(lv + 1) % 3]
        text += f"\nfragment {name} on {cond} {b}"
    return text


# ----------------------------------------------------------------------------- encoding


class Encoder:
    def __init__(self, doc, variables):
        from graphql.language import FragmentDefinitionNode

        self.frags = {d.name.value: d for d in doc.definitions if isinstance(d, FragmentDefinitionNode)}
        self.variables = variables
        self.nodes = {}
        self.keys = {}
        self.labels = {}
        self.names = {}

    def _idx(self, table, k):
        return table.setdefault(k, len(table))

    def _arg(self, dr, name, default):
        for a in dr.arguments or ():
            if a.name.value == name:
                v = a.value
                if v.kind == "variable":
                    return self.variables.get(v.name.value, default)
                return v.value
        return default

    def incl(self, node):
        for dr in node.directives or ():
            if dr.name.value == "skip" and self._arg(dr, "if", None) is True:
                return 0
        for dr in node.directives or ():
            if dr.name.value == "include" and self._arg(dr, "if", None) is False:
                return 0
        return 1

    def defer(self, node):
        for dr in node.directives or ():
            if dr.name.value == "defer":
                if self._arg(dr, "if", True) is False:
                    return "-"
                label = self._arg(dr, "label", None)
                return "N" if label is None else f"L{self._idx(self.labels, label)}"
        return "-"

    def sels(self, selset, runtime, out, stack=()):
        from graphql.language import FieldNode, FragmentSpreadNode, InlineFragmentNode

        out.append(str(len(selset.selections)))
        for sel in selset.selections:
            if isinstance(sel, FieldNode):
                key = sel.alias.value if sel.alias else sel.name.value
                out += ["F", str(self._idx(self.keys, key)), str(self._idx(self.nodes, id(sel))), str(self.incl(sel))]
            elif isinstance(sel, InlineFragmentNode):
                tc = sel.type_condition
                cond = 1 if tc is None or tc.name.value == runtime else 0
                out += ["I", str(self.incl(sel)), str(cond), self.defer(sel)]
                self.sels(sel.selection_set, runtime, out, stack)
            elif isinstance(sel, FragmentSpreadNode):
                name = sel.name.value
                frag = self.frags.get(name)
                cond = 1 if frag is not None and frag.type_condition.name.value == runtime else 0
                out += ["S", str(self.incl(sel)), str(cond), str(self._idx(self.names, name)), self.defer(sel)]
                if frag is None or name in stack:
                    out.append("0")
                else:
                    self.sels(frag.selection_set, runtime, out, stack + (name,))


def show_impl(collected, enc, inherited):
    """Canonical text of a CollectedFields (same format as the driver's)."""
    new = {id(d): BASE + i for i, d in enumerate(collected.new_defer_usages)}

    def du(d):
        if d is None:
            return "-"
        if id(d) in new:
            return str(new[id(d)])
        return str(inherited[id(d)])

    groups = []
    for key, fds in collected.grouped_field_set.items():
        groups.append(f"{enc.keys[key]}:" + ",".join(f"{enc.nodes[id(fd.node)]}/{du(fd.defer_usage)}" for fd in fds))
    usages = []
    for d in collected.new_defer_usages:
        lab = "-" if d.label is None else str(enc.labels[d.label])
        usages.append(f"{lab}/{du(d.parent_defer_usage)}")
    return ";".join(groups) + " | " + ",".join(usages)


def same_keys_and_nodes(with_defer, without):
    """The property itself on the implementation's results: same keys, per key the same set of nodes."""
    a = {k: {id(fd.node) for fd in v} for k, v in with_defer.grouped_field_set.items()}
    b = {k: {id(fd.node) for fd in v} for k, v in without.grouped_field_set.items()}
    return a == b


def run_doc(text):
    """-> list of (driver line, impl text, property_ok, description) for the root and one level of subfields."""
    from graphql import parse
    from graphql.execution.collect_fields import FragmentDetails, collect_fields, collect_subfields
    from graphql.language import FragmentDefinitionNode, OperationDefinitionNode

    doc = parse(text)
    variables = {"yes": True, "no": False}
    op = next(d for d in doc.definitions if isinstance(d, OperationDefinitionNode))
    fragments = {d.name.value: FragmentDetails(d) for d in doc.definitions if isinstance(d, FragmentDefinitionNode)}
    sch = schema()
    enc = Encoder(doc, variables)
    out = []
    from graphql.execution.values import get_variable_values

    vv = get_variable_values(sch, op.variable_definitions or (), {})
    root = collect_fields(sch, fragments, vv, sch.query_type, op)
    toks = ["collect", str(BASE), "1", "-"]
    enc.sels(op.selection_set, "Query", toks)
    stripped = _strip_defer(doc)
    sop = next(d for d in stripped.definitions if isinstance(d, OperationDefinitionNode))
    sfrags = {d.name.value: FragmentDetails(d) for d in stripped.definitions if isinstance(d, FragmentDefinitionNode)}
    plain = collect_fields(sch, sfrags, get_variable_values(sch, sop.variable_definitions or (), {}), sch.query_type, sop)
    out.append((" ".join(toks), show_impl(root, enc, {}), _same(root, plain), "collect_fields"))
    # one level of collect_subfields with inherited defer usages
    serial = {}
    for fds in root.grouped_field_set.values():
        for fd in fds:
            if fd.defer_usage is not None:
                serial.setdefault(id(fd.defer_usage), len(serial))
    for d in root.new_defer_usages:
        serial.setdefault(id(d), len(serial))
    for key, fds in root.grouped_field_set.items():
        name = fds[0].node.name.value
        ftype = sch.query_type.fields.get(name)
        if ftype is None or not hasattr(ftype.type, "fields") or not any(fd.node.selection_set for fd in fds):
            continue
        sub = collect_subfields(sch, fragments, vv, op, ftype.type, fds)
        parts = [fd for fd in fds if fd.node.selection_set]
        toks = ["collect", str(BASE), str(len(parts))]
        for fd in parts:
            toks.append("-" if fd.defer_usage is None else str(serial[id(fd.defer_usage)]))
            enc.sels(fd.node.selection_set, ftype.type.name, toks)
        out.append((" ".join(toks), show_impl(sub, enc, serial), None, f"collect_subfields[{key}]"))
    return out


def _same(with_defer, without):
    # node identities differ between the original and the stripped document: compare by source location
    a = {k: {fd.node.loc.start for fd in v} for k, v in with_defer.grouped_field_set.items()}
    b = {k: {fd.node.loc.start for fd in v} for k, v in without.grouped_field_set.items()}
    return a == b


def _strip_defer(doc):
    """The same document with every @defer replaced by blanks of the same length (locations are kept)."""
    import re

    from graphql import parse

    text = doc.loc.source.body
    text = re.sub(r"@defer(\([^)]*\))?", lambda m: " " * len(m.group(0)), text)
    return parse(text)
