"""C06 harness: stop an execution at a chosen point and observe what is left behind.

Everything is observed from the outside: harness resolvers / async generators count their own
starts, finishes and closes; `asyncio.all_tasks(loop)` is read after the loop has been drained;
the `async_work_finished` execution hook records when it is called and what was still in
flight at that moment; the consumer side (awaiting the result, pulling payloads, closing,
aborting) is played by the harness on a stepped event loop (no timers anywhere: the loop is
idle exactly when its ready queue is empty).

A scenario is a JSON-serialisable dict; `run_scenario` returns a JSON-serialisable observation.
"""
from __future__ import annotations

import asyncio
import random

MAX_ROUNDS = 30000  # watchdog: loop iterations for one settle (big streams need thousands)

# ----------------------------------------------------------------------------- world


class SourceError(Exception):
    pass


class AbortReason(Exception):
    pass


class Src:
    """Instrumented async source (list field source or subscription source)."""

    def __init__(self, world, spec, role, info=None):
        self.world = world
        self.depth, self.streamed, self.encl = world.location(info) if info is not None else (0, False, "none")
        self.root = id(getattr(info, "root_value", None)) if info is not None else None
        self.items = spec.get("items", [])
        self.kind = spec.get("kind", "agen")
        self.delay = spec.get("delay", 0)
        self.raise_at = spec.get("raise_at")
        self.hang_at = spec.get("hang_at")
        self.cleanup_steps = spec.get("cleanup", 0)  # loop iterations the source needs to release its resource
        self.cleanup_interrupted = 0
        self.role = role  # "list" | "subscription"
        self.started = 0
        self.finalised = 0  # generator finally-block runs
        self.acloses = 0  # aclose() calls on class sources
        self.ended = False  # finished by itself (StopAsyncIteration or its own raise)
        self.raised = False
        self.yielded = 0
        self.in_anext = 0
        self.index = 0
        world.sources.append(self)

    def closed_count(self):
        if self.kind == "agen":
            return self.finalised
        if self.kind == "cls_noaclose":
            return 1 if self.started else 0  # nothing to close: no aclose() method
        return self.acloses if self.acloses else (1 if self.ended else 0)

    async def _before(self, j):
        for _ in range(self.delay):
            await asyncio.sleep(0)
        if j == self.hang_at:
            await (self.world.gate0 if self.world.initial_phase else self.world.gate).wait()
        if j == self.raise_at:
            self.ended = True
            self.raised = True
            raise SourceError(f"source failed at {j}")

    def make(self):
        if self.kind == "agen":
            return self._gen()
        return _ClassSource(self) if self.kind == "cls" else _ClassSourceNoClose(self)

    async def _gen(self):
        self.started += 1
        try:
            for j, it in enumerate(self.items):
                await self._before(j)
                self.yielded += 1
                yield it
            await self._before(len(self.items))
            self.ended = True
        finally:
            # the generator is closed once it gets here, however the release of its resource ends
            self.finalised += 1
            by_stop = not self.ended  # closing because it was cancelled / closed, not because it ended
            try:
                for _ in range(self.cleanup_steps):
                    await asyncio.sleep(0)
            except BaseException:
                if by_stop:  # a second cancellation while it was releasing after the first one
                    self.cleanup_interrupted += 1
                raise


class _ClassSourceNoClose:
    def __init__(self, src):
        self.src = src

    def __aiter__(self):
        return self

    async def __anext__(self):
        s = self.src
        s.started = 1
        s.in_anext += 1
        try:
            j = s.index
            await s._before(j)
            if j >= len(s.items):
                s.ended = True
                raise StopAsyncIteration
            s.index += 1
            s.yielded += 1
            return s.items[j]
        finally:
            s.in_anext -= 1


class _ClassSource(_ClassSourceNoClose):
    async def aclose(self):
        self.src.acloses += 1
        try:
            for _ in range(1 + self.src.cleanup_steps):
                await asyncio.sleep(0)
        except BaseException:
            self.src.cleanup_interrupted += 1
            raise


class World:
    """context_value of a scenario: instrumentation shared by resolvers, sources and the hook."""

    def __init__(self, loop):
        self.loop = loop
        self.gate = asyncio.Event()  # hanging resolvers / sources wait here
        self.gate0 = asyncio.Event()  # ... those reached while the initial result is computed
        self.initial_phase = True
        self.running = 0  # harness coroutines between start and finish
        self.coro_started = 0
        self.sources = []
        self.tracked = []
        self.hook_calls = []
        self.sub_source = None
        self.locmap = {}
        self.running_depths = []

    def set_document(self, document):
        """(number of enclosing @defer/@stream constructs, own @stream) per field node position."""
        from graphql.language import FieldNode

        def has(node, name):
            return any(d.name.value == name for d in node.directives or ())

        def walk(selection_set, depth, encl):
            for sel in selection_set.selections:
                if isinstance(sel, FieldNode):
                    streamed = has(sel, "stream")
                    self.locmap[sel.loc.start] = (depth, streamed, encl)
                    if sel.selection_set:
                        walk(sel.selection_set, depth + (1 if streamed else 0), "stream" if streamed else encl)
                elif getattr(sel, "selection_set", None):
                    deferred = has(sel, "defer")
                    walk(sel.selection_set, depth + (1 if deferred else 0), "defer" if deferred else encl)

        for d in document.definitions:
            walk(d.selection_set, 0, "none")

    def location(self, info):
        try:
            return self.locmap.get(info.field_nodes[0].loc.start, (0, False, "none"))
        except Exception:  # noqa: BLE001
            return (0, False, "none")

    def enter(self, info):
        # (depth, identity of the execution's root value: the per-event executions of a subscription
        # overlap when the consumer pulls on while an earlier event still settles work in the background)
        d = (self.location(info)[0], id(getattr(info, "root_value", None)))
        self.running += 1
        self.coro_started += 1
        self.running_depths.append(d)
        return d

    def leave(self, d):
        self.running -= 1
        self.running_depths.remove(d)

    def hook(self, info):
        ex = getattr(info, "executor", None)
        bg = getattr(ex, "background_futures", None)
        inc = getattr(ex, "pending_incremental_futures", None)
        root = id(getattr(ex, "root_value", None))
        mine = [x for x in self.running_depths if self.sub_source is None or x[1] == root]
        self.hook_calls.append(
            {
                "running": len(mine),
                "running_depths": sorted(d for d, _ in mine),
                "open_sources": sorted(
                    [i, s.depth, s.streamed, s.encl] for i, s in enumerate(self.sources)
                    if s.role == "list" and s.started and s.closed_count() == 0 and (self.sub_source is None or s.root == root)
                ),
                "tracked_pending": sum(1 for f in self.tracked if not f.done()),
                "open_list_sources": sum(
                    1 for s in self.sources if s.role == "list" and s.started and s.closed_count() == 0
                ),
                "background_futures": len(bg) if bg is not None else None,
                "incremental_pending": sum(1 for f in inc if not f.done()) if inc is not None else None,
            }
        )


def _spec(src, key, default=None):
    return src.get(key, default) if isinstance(src, dict) else default


async def _delay(world, src):
    world.running += 1
    world.coro_started += 1
    try:
        for _ in range(_spec(src, "d", 0) or 0):
            await asyncio.sleep(0)
    finally:
        world.running -= 1


_SCHEMA = None


def build_schema():
    global _SCHEMA
    if _SCHEMA is not None:
        return _SCHEMA
    from graphql.type import (
        GraphQLArgument,
        GraphQLBoolean,
        GraphQLDeferDirective,
        GraphQLField,
        GraphQLInt,
        GraphQLList,
        GraphQLNonNull,
        GraphQLObjectType,
        GraphQLSchema,
        GraphQLStreamDirective,
        GraphQLString,
        specified_directives,
    )

    async def name(src, info):
        w = info.context
        d_ = w.enter(info)
        try:
            for _ in range(_spec(src, "d", 0) or 0):
                await asyncio.sleep(0)
            return _spec(src, "name")
        finally:
            w.leave(d_)

    async def nn(src, info):
        w = info.context
        d_ = w.enter(info)
        try:
            for _ in range(_spec(src, "d", 0) or 0):
                await asyncio.sleep(0)
            return _spec(src, "nn", "v")
        finally:
            w.leave(d_)

    async def hang(src, info):
        w = info.context
        d_ = w.enter(info)
        try:
            if _spec(src, "hang"):
                await (w.gate0 if w.initial_phase else w.gate).wait()
            else:
                for _ in range(_spec(src, "d", 0) or 0):
                    await asyncio.sleep(0)
            return "free"
        finally:
            w.leave(d_)

    async def boom(src, info):
        w = info.context
        d_ = w.enter(info)
        try:
            for _ in range(_spec(src, "d", 0) or 0):
                await asyncio.sleep(0)
            if _spec(src, "boom"):
                raise RuntimeError("resolver failed")
            return "calm"
        finally:
            w.leave(d_)

    def boom_sync(src, info):
        # a *synchronous* resolver: a failure here is raised while sibling fields may already have returned
        # awaitables, which the executor then settles in the background
        if _spec(src, "boom"):
            raise RuntimeError("resolver failed synchronously")
        return "calm"

    async def akid(src, info):
        w = info.context
        d_ = w.enter(info)
        try:
            for _ in range(_spec(src, "ad", 1) or 0):
                await asyncio.sleep(0)
            return _spec(src, "kid")
        finally:
            w.leave(d_)

    def tracked(src, info):
        w = info.context
        n = _spec(src, "track")
        if n is not None:

            async def side():
                d_ = w.enter(info)
                try:
                    for _ in range(n):
                        await asyncio.sleep(0)
                finally:
                    w.leave(d_)

            fut = asyncio.ensure_future(side())
            w.tracked.append(fut)
            info.async_helpers.track([fut])
        return "t"

    def kids(src, info):
        v = _spec(src, "kids")
        if isinstance(v, dict) and "$src" in v:
            return Src(info.context, v["$src"], "list", info).make()
        return v

    item = GraphQLObjectType(
        "Item",
        lambda: {
            "id": GraphQLField(GraphQLInt),
            "name": GraphQLField(GraphQLString, resolve=name),
            "nn": GraphQLField(GraphQLNonNull(GraphQLString), resolve=nn),
            "hang": GraphQLField(GraphQLString, resolve=hang),
            "boom": GraphQLField(GraphQLString, resolve=boom),
            "boomNN": GraphQLField(GraphQLNonNull(GraphQLString), resolve=boom),
            "boomSyncNN": GraphQLField(GraphQLNonNull(GraphQLString), resolve=boom_sync),
            "akid": GraphQLField(item, resolve=akid),
            "tracked": GraphQLField(GraphQLString, resolve=tracked),
            "kid": GraphQLField(item),
            "kids": GraphQLField(GraphQLList(item), resolve=kids),
            # the same list with non-null items: a failing item fails the whole list / stream
            "strict": GraphQLField(GraphQLList(GraphQLNonNull(item)), resolve=kids),
            "flag": GraphQLField(GraphQLBoolean),
        },
    )

    def sub_source(_root, info, **_args):
        w = info.context
        s = Src(w, w.sub_spec, "subscription")
        w.sub_source = s
        return s.make()

    query = GraphQLObjectType(
        "Query",
        {"item": GraphQLField(item), "other": GraphQLField(item), "kids": GraphQLField(GraphQLList(item), resolve=kids),
         "strict": GraphQLField(GraphQLList(GraphQLNonNull(item)), resolve=kids)},
    )
    sub = GraphQLObjectType(
        "Subscription",
        {"ev": GraphQLField(item, args={"x": GraphQLArgument(GraphQLInt)}, subscribe=sub_source, resolve=lambda p, _i, **_a: p)},
    )
    _SCHEMA = GraphQLSchema(
        query=query,
        subscription=sub,
        directives=[*specified_directives, GraphQLDeferDirective, GraphQLStreamDirective],
    )
    return _SCHEMA


# ----------------------------------------------------------------------------- generators

LEAVES = ["id", "name", "nn", "hang", "boom", "tracked", "flag", "name", "id"]


MAX_INCREMENTAL_NESTING = 9  # effectively unbounded: selections are at most 4 deep


_ALIAS = [0]


def gen_selection(rng, depth, incremental, nesting=0):
    if depth == 0:
        _ALIAS[0] = 0
    n = rng.randint(1, 4)
    out = []
    inc = incremental and nesting < MAX_INCREMENTAL_NESTING
    for _ in range(n):
        r = rng.random()
        if depth < 2 and r < 0.18:
            out.append("kid " + gen_selection(rng, depth + 1, incremental, nesting))
        elif depth < 2 and r < 0.40:
            st = ""
            if inc and rng.random() < 0.75:
                st = f" @stream(initialCount: {rng.choice([0, 0, 1, 2])})"
            lst = "strict" if rng.random() < 0.3 else "kids"
            out.append(f"{lst}{st} " + gen_selection(rng, depth + 1, incremental, nesting + (1 if st else 0)))
        elif inc and depth < 3 and r < 0.62:
            out.append("... @defer " + gen_selection(rng, depth + 1, incremental, nesting + 1))
        elif r < 0.66:
            out.append("boomNN")
        else:
            out.append(rng.choice(LEAVES))
    # document-wide unique aliases: no two field nodes are ever merged (differing @stream/@defer on
    # merged fields would be an invalid document)
    res = []
    for s in out:
        head = s.split(" ")[0]
        if head.startswith("..."):
            res.append(s)
            continue
        _ALIAS[0] += 1
        res.append(f"{head}{_ALIAS[0]}: {s}")
    return "{ " + " ".join(res) + " }"


def gen_item(rng, depth, hang_ok, fail_ok):
    it = {"id": rng.randint(0, 99), "name": f"n{rng.randint(0, 9)}", "d": rng.randint(0, 4)}
    if rng.random() < 0.1:
        it["nn"] = None
    if hang_ok and rng.random() < 0.25:
        it["hang"] = True
    if fail_ok and rng.random() < 0.2:
        it["boom"] = True
    if rng.random() < 0.3:
        it["track"] = rng.randint(0, 6)
    if depth < 2:
        if rng.random() < 0.7:
            it["kid"] = gen_item(rng, depth + 1, hang_ok, fail_ok) if rng.random() < 0.9 else None
        if rng.random() < 0.8:
            n = rng.randint(0, 4)
            items = [gen_item(rng, depth + 1, hang_ok, fail_ok) for _ in range(n)]
            if depth == 0 and rng.random() < 0.04:  # more items than the stream queue buffers
                items = [{"id": j, "name": f"b{j}", "d": rng.randint(0, 2), **({"hang": True} if hang_ok and j % 50 == 7 else {})} for j in range(rng.randint(101, 140))]
            if rng.random() < 0.65:
                spec = {"items": items, "kind": rng.choice(["agen", "agen", "cls", "cls_noaclose"]), "delay": rng.choice([0, 1, 2, 2, 4, 6])}
                if rng.random() < 0.4:
                    spec["cleanup"] = rng.randint(1, 6)
                if fail_ok and rng.random() < 0.3:
                    spec["raise_at"] = rng.randint(0, n)
                if hang_ok and rng.random() < 0.2:
                    spec["hang_at"] = rng.randint(0, n)
                it["kids"] = {"$src": spec}
            else:
                it["kids"] = items
    return it


def gen_request(rng, family):
    """A request (document + data) for the family.  Hanging parts wait on the world's gate: an
    unstopped run opens it once everything else is done, a stopped run never does."""
    # never both: work that is settled in the background after a sibling failed would hang by the
    # resolver's own choice, which no stop is required to cancel
    hang_ok = rng.random() < 0.55
    fail_ok = (not hang_ok) and rng.random() < 0.8
    stop_kind = "none"
    req = {"family": family, "early": rng.random() < 0.5}
    if rng.random() < 0.10:
        # two stops in a row: a non-null field fails and has its sibling list cancelled, whose source needs a while
        # to release its resource; while that close is running a second failure one level up (or, for incremental
        # requests, the consumer's stop) cancels the selection set that is waiting for it
        def slow_source():
            return {"$src": {"items": [{"id": 1}, {"id": 2}], "kind": rng.choice(["agen", "cls"]), "delay": rng.randint(4, 8),
                             "cleanup": rng.randint(3, 8)}}

        inner = {"id": 2, "d": rng.randint(0, 2), "boom": True, "kids": slow_source()}
        outer = {"id": 1, "d": rng.randint(2, 6), "boom": rng.random() < 0.7, "kid": inner, "kids": slow_source()}
        sel = "{ boomNN1: boomNN kid2: kid { boomNN3: boomNN kids4: kids { id5: id } } kids6: kids { id7: id } }"
        if family == "subscription":
            req["doc"] = "subscription { ev " + sel + " }"
            req["sub"] = {"items": [outer, dict(outer, id=3)], "kind": "agen", "delay": 0}
            req["data"] = None
        elif family == "incremental":
            req["doc"] = "{ item { id8: id ... @defer { name9: name } ... @defer " + sel + " } }"
            req["data"] = {"item": outer}
        else:
            req["doc"] = "{ item " + sel + " }"
            req["data"] = {"item": outer}
        return req
    if family == "subscription":
        req["doc"] = "subscription { ev " + gen_selection(rng, 0, False) + " }"
        n = rng.randint(0, 4)
        spec = {"items": [gen_item(rng, 0, hang_ok, fail_ok) for _ in range(n)], "kind": rng.choice(["agen", "agen", "cls", "cls_noaclose"]), "delay": rng.randint(0, 2)}
        if rng.random() < 0.4:
            spec["cleanup"] = rng.randint(1, 3)
        if stop_kind == "none" and rng.random() < 0.5:
            spec["raise_at"] = rng.randint(0, n)
        if hang_ok and rng.random() < 0.3:
            spec["hang_at"] = rng.randint(0, n)
        req["sub"] = spec
        req["data"] = None
    elif family == "incremental" and rng.random() < 0.04:
        # back-pressure: more outstanding items than the stream item queue buffers (100); the head
        # item never settles by itself, so nothing is drained until a stop cancels it
        n = rng.randint(101, 125)
        items = [{"id": j, "name": f"b{j}", "d": rng.randint(0, 1), "hang": True} for j in range(n)]
        req["doc"] = "{ kids @stream(initialCount: 0) { id1: id hang2: hang" + rng.choice(["", " name3: name"]) + " } }"
        req["data"] = {"kids": items if rng.random() < 0.5 else {"$src": {"items": items, "kind": rng.choice(["agen", "cls"]), "delay": 0}}}
    elif family == "incremental" and rng.random() < 0.08:
        # a stream item that fails (or not) after the nested streams of the item were set up
        lst, lst2 = (rng.choice(["kids", "strict"]) for _ in range(2))
        fail = rng.choice(["boomNN2: boomNN", "nn2: nn", "boom2: boom", "boomNN2: boomNN"])
        req["doc"] = (
            "{ %s @stream(initialCount: %d) { id1: id %s n3: %s @stream(initialCount: %d) { id4: id name5: name } } }"
            % (lst, rng.choice([0, 1]), fail, lst2, rng.choice([1, 1, 2]))
        )
        items = []
        for j in range(rng.randint(2, 4)):
            it = {"id": j, "d": rng.randint(2, 6),
                  "kids": {"$src": {"items": [{"id": 10 * j + i, "name": "x", "d": rng.randint(0, 2)} for i in range(rng.randint(2, 3))],
                                    "kind": rng.choice(["agen", "cls"]), "delay": rng.randint(0, 1)}}}
            if rng.random() < 0.4:
                it["boom"] = True
            if rng.random() < 0.3:
                it["nn"] = None
            items.append(it)
        req["data"] = {"kids": items if rng.random() < 0.5 else {"$src": {"items": items, "kind": rng.choice(["agen", "cls"]), "delay": rng.randint(0, 1)}}}
    else:
        inc = family == "incremental"
        sel = gen_selection(rng, 0, inc)
        root = rng.choice(["item", "item", "both", "kids"])
        if root == "item":
            req["doc"] = "{ item " + sel + " }"
        elif root == "both":
            req["doc"] = "{ item " + sel + " other " + gen_selection(rng, 1, inc) + " }"
        else:
            st = f" @stream(initialCount: {rng.choice([0, 1])})" if inc else ""
            if st:
                sel = gen_selection(rng, 0, inc, 1)
            req["doc"] = "{ " + ("strict" if rng.random() < 0.3 else "kids") + st + " " + sel + " }"
        data = {"item": gen_item(rng, 0, hang_ok, fail_ok), "other": gen_item(rng, 1, hang_ok, fail_ok)}
        data["kids"] = gen_item(rng, 0, hang_ok, fail_ok).get("kids", [])
        req["data"] = data
    return req


def gen_special(rng, kind, family):
    """Two shapes that need cooperating parts to show a stop-time leak (no consumer stop involved: the stop is a
    resolver failure).
    'nested-background': a synchronous non-null failure next to an awaitable sibling hands the sibling to the
      executor's background settling; when that sibling resolves, the same happens again one level down, so work is
      registered from inside work that is already being settled (the hook must still wait for all of it).
    'shared-failure': two overlapping deferred fragments share a failing non-null field; each has its own slow field
      and its own started @stream source.  All delivery groups fail, the payload stream ends regularly - and the slow
      siblings and the started sources must still be settled / closed."""
    req = {"family": family, "early": rng.random() < 0.5, "special": kind}

    def src(n=2):
        return {"$src": {"items": [{"id": i, "name": "x", "d": rng.randint(0, 2)} for i in range(n)], "kind": rng.choice(["agen", "cls"]),
                         "delay": rng.randint(0, 3), **({"cleanup": rng.randint(1, 4)} if rng.random() < 0.5 else {})}}

    if kind == "nested-background":
        depth = rng.choice([2, 2, 3])
        node = {"id": depth, "d": rng.randint(3, 9), "boom": True, "name": "deep", "kids": src()}
        sel = "{ slow1: name b2: boomSyncNN" + rng.choice(["", " kids3: kids { id4: id }"]) + " }"
        a = 10
        for lvl in range(depth - 1, 0, -1):
            node = {"id": lvl, "d": rng.randint(0, 3), "ad": rng.randint(1, 4), "boom": True, "kid": node, "name": "n"}
            sel = "{ k%d: akid %s %s b%d: boomSyncNN }" % (a, sel, rng.choice(["", "n%d: name" % (a + 1)]), a + 2)
            a += 10
        top = {"id": 0, "d": 0, "ad": rng.randint(1, 3), "kid": node, "boom": rng.random() < 0.8}
        sel = "{ k%d: akid %s b%d: boomSyncNN }" % (a, sel, a + 2)
        if family == "subscription":
            req["doc"] = "subscription { ev " + sel + " }"
            req["sub"] = {"items": [top, dict(top, id=9)], "kind": "agen", "delay": 0}
            req["data"] = None
        elif family == "incremental":
            req["doc"] = "{ item { id1: id ... @defer " + sel + " } }"
            req["data"] = {"item": top}
        else:
            req["doc"] = "{ item " + sel + " }"
            req["data"] = {"item": top}
        return req
    # shared-failure (incremental only)
    req["family"] = "incremental"
    n = rng.choice([2, 2, 3])
    spreads = []
    for i in range(n):
        lbl = "ABC"[i]
        body = "sh: boomNN slow%s: kid { n%s: name }" % (lbl, lbl)
        if rng.random() < 0.8:
            body += " l%s: kids @stream(initialCount: %d) { id%s: id }" % (lbl, rng.choice([0, 1, 1]), lbl)
        # inline fragments: the harness computes a field's enclosing construct from the selection-set nesting
        spreads.append('... @defer(label: "%s") { %s }' % (lbl, body))
    req["doc"] = "{ item { id0: id " + " ".join(spreads) + " } }"
    boom = rng.random() < 0.85
    kid = {"id": 2, "d": rng.randint(4, 10), "name": "slow"}
    if boom and rng.random() < 0.5:
        # the slow siblings never finish by themselves (they wait for something outside): once the shared field has
        # failed and the stream has ended, only a cancellation by the execution can settle them - the harness does
        # not release them in this scenario
        req["doc"] = req["doc"].replace(": name }", ": hang }")
        kid["hang"] = True
        req["never_release"] = True
    req["data"] = {"item": {"id": 1, "d": rng.randint(0, 2), "boom": boom, "kid": kid, "kids": src(3)}}
    return req


# ----------------------------------------------------------------------------- runner


class Hang(Exception):
    pass


async def settle(loop, rounds=None):
    if rounds is not None:
        for _ in range(rounds):
            await asyncio.sleep(0)
        return
    for _ in range(MAX_ROUNDS):
        await asyncio.sleep(0)
        if not loop._ready:  # noqa: SLF001
            await asyncio.sleep(0)
            if not loop._ready:  # noqa: SLF001
                return
    raise Hang


def _exc_name(e, reason):
    from graphql.execution import AbortedGraphQLExecutionError

    if e is reason:
        return "reason"
    if isinstance(e, AbortedGraphQLExecutionError):
        return "aborted(reason)" if e.reason is reason or (reason is None and e.reason is not None) else "aborted(other)"
    if isinstance(e, asyncio.CancelledError):
        return "CancelledError"
    if isinstance(e, StopAsyncIteration):
        return "StopAsyncIteration"
    if isinstance(e, SourceError):
        return "SourceError"
    if reason is not None and not isinstance(reason, BaseException) and isinstance(e, TypeError):
        return "reason"  # non-exception reasons are reported as an unexpected error value
    if reason is None and type(e).__name__ == "AbortError":
        return "reason"
    return type(e).__name__


async def _run(sc, loop):
    from graphql import parse
    from graphql.execution import ExecutionHooks, ExecutionResult, experimental_execute_incrementally, subscribe
    from graphql.pyutils import AbortController

    schema = build_schema()
    world = World(loop)
    stop = sc["stop"]
    kind = stop["kind"]
    obs = {"released": True, "events": [], "payloads": 0, "hang": None, "stream_started": False}
    controller = AbortController() if kind.startswith("abort") or sc.get("with_signal") else None
    reason_spec = stop.get("reason", "exc")
    reason = {"exc": AbortReason("stop"), "none": None, "str": "because"}[reason_spec]
    reason_seen = reason if reason_spec != "none" else None
    document = parse(sc["doc"])
    world.set_document(document)
    kwargs = {"context_value": world, "enable_early_execution": sc["early"], "hooks": ExecutionHooks(async_work_finished=world.hook)}
    if controller is not None:
        kwargs["abort_signal"] = controller.signal

    def note(what):
        obs["events"].append(what)

    def abort_now():
        controller.abort(reason)
        note("abort")

    def outcome(task):
        try:
            task.result()
            return "ok"
        except BaseException as e:  # noqa: BLE001
            if reason_spec == "none" and controller is not None and controller.signal.aborted:
                return _exc_name(e, controller.signal.reason)
            return _exc_name(e, reason_seen if reason_spec != "none" else None)

    async def waited(task, what):
        """Settle, then the task must be done: the caller is released."""
        await settle(loop)
        if not task.done() and what == "initial result" and kind != "abort_initial" and not world.gate0.is_set():
            world.gate0.set()  # no stop yet: what hangs in the initial phase is let go
            await settle(loop)
        if not task.done():
            obs["released"] = False
            obs["hang"] = what
            task.cancel()
            await settle(loop, 3)
            return None
        return outcome(task)

    # ---- start the execution
    family = sc["family"]
    try:
        if family == "subscription":
            world.sub_spec = sc["sub"]
            res = subscribe(schema, document, **kwargs)
        else:
            res = experimental_execute_incrementally(schema, document, root_value=sc["data"], **kwargs)
    except BaseException as e:  # noqa: BLE001
        note(f"call-raised:{_exc_name(e, reason_seen)}")
        res = None
    stream = None
    if res is not None and hasattr(res, "__await__"):
        task = asyncio.ensure_future(res)
        if kind == "abort_initial":
            await settle(loop, stop.get("rounds", 0))
            if not task.done():
                abort_now()
        r = await waited(task, "initial result")
        note(f"initial:{r}")
        res = task.result() if r == "ok" else None
    elif kind == "abort_initial" and controller is not None:
        abort_now()
    world.initial_phase = False
    if isinstance(res, ExecutionResult):
        obs["errors_seen"] = bool(res.errors)
    if res is not None and not isinstance(res, ExecutionResult):
        stream = res if family == "subscription" else getattr(res, "subsequent_results", None)
        if family != "subscription":
            obs["has_next"] = bool(res.initial_result.has_next)
            obs["errors_seen"] = bool(res.initial_result.errors)
    if stream is not None and hasattr(stream, "__anext__"):
        k = stop.get("after", 0)
        finished = False
        gap = stop.get("gap") if kind != "none" else None  # stop this many loop iterations after the last payload

        async def pull_once(rounds=None):
            """One pull; returns outcome string or None when still pending after `rounds`."""
            nonlocal finished
            t = asyncio.ensure_future(stream.__anext__())
            if rounds is not None:
                await settle(loop, rounds)
                if rounds > 0:
                    obs["stream_started"] = True
                if not t.done():
                    return t, None
            elif gap is not None:
                # step until the pull returns without draining the loop: what the execution has in
                # flight behind the delivered payload stays in flight
                idle = 0
                for _ in range(MAX_ROUNDS):
                    if t.done():
                        break
                    await asyncio.sleep(0)
                    idle = idle + 1 if not loop._ready else 0  # noqa: SLF001
                    if idle >= 2:
                        break
                obs["stream_started"] = True
                if not t.done():
                    return t, None
            else:
                await settle(loop)
                obs["stream_started"] = True
                if not t.done() and kind == "none" and not sc.get("never_release"):
                    for g in (world.gate0, world.gate):  # unstopped run: let the hanging parts go
                        g.set()
                    await settle(loop)
                if not t.done():
                    return t, None
            o = outcome(t)
            if o == "ok":
                obs["payloads"] += 1
                if family != "subscription":
                    r = t.result()
                    if any(getattr(x, "errors", None) for x in (r.incremental or [])) or any(getattr(x, "errors", None) for x in (r.completed or [])):
                        obs["errors_seen"] = True
            else:
                finished = True
            note(f"pull:{o}")
            return t, o

        delivered = 0
        pending_pull = None
        while not finished and (kind == "none" or delivered < k):
            t, o = await pull_once()
            if o is None:
                if kind == "none":
                    obs["released"] = False
                    obs["hang"] = "pull never completes although nothing is held back"
                    t.cancel()
                    await settle(loop, 3)
                    finished = True
                else:
                    # fewer payloads than asked for can be delivered before the hanging part: stop here
                    pending_pull = t
                    break
            else:
                delivered += 1 if o == "ok" else 0
        obs["delivered_before_stop"] = delivered
        if gap is not None and not finished and pending_pull is None:
            await settle(loop, gap)
        if kind != "none" and not finished:
            if kind == "aclose":
                if pending_pull is not None:
                    pending_pull.cancel()
                    note("cancel-pull")
                    o = await waited(pending_pull, "cancelled pull")
                    note(f"pull:{o}")
                t = asyncio.ensure_future(stream.aclose())
                note(f"aclose:{await waited(t, 'aclose')}")
            elif kind == "cancel_pull":
                if pending_pull is None:
                    pending_pull, o = await pull_once(stop.get("rounds", 1))
                    if o is not None:
                        pending_pull = None
                if pending_pull is not None:
                    pending_pull.cancel()
                    note("cancel-pull")
                    o = await waited(pending_pull, "cancelled pull")
                    note(f"pull:{o}")
                t = asyncio.ensure_future(stream.aclose())
                note(f"aclose:{await waited(t, 'aclose')}")
            elif kind in ("abort", "abort_initial"):
                # (abort_initial whose initial result arrived before the abort took effect: the consumer
                # holds a stream, pulls once more and closes it like any consumer that aborted)
                if kind == "abort_initial":
                    if not controller.signal.aborted:
                        abort_now()
                elif pending_pull is None and stop.get("pending", True):
                    pending_pull, o = await pull_once(stop.get("rounds", 1))
                    if o is not None:
                        pending_pull = None
                if not controller.signal.aborted:
                    abort_now()
                if pending_pull is not None:
                    o = await waited(pending_pull, "pull pending at abort")
                    note(f"pull:{o}")
                else:
                    t, o = await pull_once()
                    if o is None:
                        obs["released"] = False
                        obs["hang"] = "pull after abort"
                        t.cancel()
                        await settle(loop, 3)
                t = asyncio.ensure_future(stream.aclose())
                note(f"aclose:{await waited(t, 'aclose')}")
    # ---- quiescence
    try:
        await settle(loop)
        if kind == "none" and not sc.get("never_release"):
            for g in (world.gate0, world.gate):
                g.set()
            await settle(loop)
    except Hang:
        obs["hang"] = "loop never becomes idle"
    me = asyncio.current_task()
    left = [t for t in asyncio.all_tasks(loop) if t is not me and not t.done()]
    obs["tasks_left"] = len(left)
    obs["tasks_left_names"] = sorted({getattr(t.get_coro(), "__qualname__", "?") for t in left})[:6]
    obs["running_left"] = world.running
    obs["running_left_depths"] = sorted(d for d, _ in world.running_depths)
    obs["tracked_left"] = sum(1 for f in world.tracked if not f.done())
    obs["sources"] = [
        {"role": s.role, "kind": s.kind, "depth": s.depth, "streamed": s.streamed, "encl": s.encl, "started": bool(s.started), "closed": s.closed_count(), "acloses": s.acloses,
         "ended": s.ended, "raised": s.raised, "in_anext": s.in_anext, "yielded": s.yielded,
         "cleanup_interrupted": s.cleanup_interrupted}
        for s in world.sources
    ]
    obs["hook"] = world.hook_calls
    obs["gate_opened"] = world.gate.is_set()
    for t in left:
        t.cancel()
    for g in (world.gate, world.gate0):
        g.set()
    await settle(loop, 5)
    return obs


def run_scenario(sc):
    loop = asyncio.new_event_loop()
    try:
        asyncio.set_event_loop(loop)
        loop.set_exception_handler(lambda _l, _c: None)
        try:
            return loop.run_until_complete(_run(sc, loop))
        except Hang:
            return {"hang": "watchdog", "released": False, "events": [], "tasks_left": None, "sources": [], "hook": [], "payloads": 0}
    finally:
        try:
            for t in asyncio.all_tasks(loop):
                t.cancel()
            loop.run_until_complete(asyncio.sleep(0))
            loop.run_until_complete(loop.shutdown_asyncgens())
        except Exception:  # noqa: BLE001
            pass
        asyncio.set_event_loop(None)
        loop.close()


# ----------------------------------------------------------------------------- scenario families


def expand_stops(rng, req, payloads, per_request):
    """All stop points of a request: before the first payload, after each delivered payload, and
    with a pull pending; every stop kind; a sample of `per_request` of them is returned."""
    fam = req["family"]
    stops = []
    for k in range(payloads + 1):
        stops.append({"kind": "aclose", "after": k})
        for rounds in (0, 1, 3):
            stops.append({"kind": "cancel_pull", "after": k, "rounds": rounds})
            for reason in ("exc", "none", "str"):
                stops.append({"kind": "abort", "after": k, "rounds": rounds, "pending": True, "reason": reason})
        stops.append({"kind": "abort", "after": k, "pending": False, "reason": "exc"})
        if k > 0:  # a second stop while the execution is still busy behind the delivered payload
            for gap in (0, 1, 2, 3, 5, 8):
                stops.append({"kind": "aclose", "after": k, "gap": gap})
            stops.append({"kind": "abort", "after": k, "pending": False, "reason": "exc", "gap": rng.choice([0, 1, 2, 4])})
    for rounds in (0, 1, 2, 4, 7):
        stops.append({"kind": "abort_initial", "rounds": rounds, "reason": rng.choice(["exc", "none", "str"])})
    if fam == "query":
        stops = [s for s in stops if s["kind"] == "abort_initial"]
    rng.shuffle(stops)
    return stops[:per_request]
