"""C03 property oracle on the implementation: only relations the property states.

  * same `data` as fully synchronous execution, same set of nulled positions
  * well-formed response (no null at a non-null position; every error path ends at or below a
    null in data; data null only if an error reached the root)
  * mutation root fields strictly serial (events of the harness)
"""
from __future__ import annotations

import json

from tools.c03_loop import FIELDS, field_of


def longest_existing_prefix(data, path):
    """Longest prefix of `path` that is a position of `data` (the root position always exists)."""
    cur = data
    out = []
    for key in path:
        if isinstance(cur, dict) and key in cur:
            cur = cur[key]
        elif isinstance(cur, list) and isinstance(key, int) and 0 <= key < len(cur):
            cur = cur[key]
        else:
            break
        out.append(key)
    return out, cur


def nulled_positions(data, errors):
    s = set()
    for p in errors:
        q, _ = longest_existing_prefix(data, p or [])
        s.add(json.dumps(q))
    return sorted(s)


def position_types(path):
    """Nullability of every position along a response path: list of bools (non-null?)."""
    out = []
    cur_field = None
    for key in path:
        if isinstance(key, int):
            out.append(FIELDS[cur_field][2])
        else:
            cur_field = field_of(key)
            if cur_field not in FIELDS:
                return None
            out.append(FIELDS[cur_field][0])
    return out


def null_at_non_null(data):
    """Paths of nulls sitting at non-null positions (checked against the schema's field table)."""
    bad = []

    def obj(d, path):
        for rk, v in d.items():
            f = field_of(rk)
            if f not in FIELDS:
                bad.append(path + [rk, "<unknown field>"])
                continue
            onn, is_list, inn, base = FIELDS[f]
            if v is None:
                if onn:
                    bad.append(path + [rk])
                continue
            if is_list:
                if not isinstance(v, list):
                    bad.append(path + [rk, "<not a list>"])
                    continue
                for n, it in enumerate(v):
                    if it is None:
                        if inn:
                            bad.append(path + [rk, n])
                    elif base != "String":
                        if isinstance(it, dict):
                            obj(it, path + [rk, n])
                        else:
                            bad.append(path + [rk, n, "<not an object>"])
            elif base != "String":
                if isinstance(v, dict):
                    obj(v, path + [rk])
                else:
                    bad.append(path + [rk, "<not an object>"])

    if isinstance(data, dict):
        obj(data, [])
    return bad


def well_formed(res):
    """List of (fingerprint, what, detail) for a canonical result {"data","errors"}."""
    out = []
    data, errors = res["data"], res["errors"]
    bad = null_at_non_null(data)
    if bad:
        out.append(("null-at-non-null", "null at a non-null position", bad[:3]))
    for p in errors:
        if p is None:
            if data is not None:
                out.append(("error-path-not-null", "error without path but data is not null", p))
            continue
        q, cur = longest_existing_prefix(data, p)
        if cur is not None:
            out.append(("error-path-not-null", "error path does not end at or below a null in data", p))
    if data is None:
        ok = False
        for p in errors:
            if p is None:
                ok = True
                continue
            nn = position_types(p)
            if nn is not None and all(nn):
                ok = True
        if not ok:
            out.append(("data-null-without-root-error", "data is null but no error reached the root", errors[:3]))
    return out


def is_abandoned(data, path):
    """The position (or one above it) is null in the final data: work there was abandoned."""
    q, cur = longest_existing_prefix(data, path)
    return cur is None


def mutation_serial(case, events, data, root_order):
    """Root fields start in document order; when root field j starts, nothing of an earlier
    root subtree is pending or happens later, except abandoned work below a nulled position."""
    out = []
    starts = [(n, e[1][0]) for n, e in enumerate(events) if e[0] == "S" and len(e[1]) == 1]
    order = [rk for _, rk in starts]
    if len(set(order)) != len(order):
        out.append(("mutation-root-twice", "a root field was invoked twice", order))
    want = [rk for rk in root_order if rk in order]
    if order != want:
        out.append(("mutation-order", "root fields not started in document order", {"started": order, "document": root_order}))
    start_at = {rk: n for n, rk in starts}
    # pending handles per time
    created = {}
    settled = {}
    for n, e in enumerate(events):
        if e[0] == "H":
            created[e[1]] = (n, e[3])
        elif e[0] in ("R", "C"):
            settled.setdefault(e[1], n)
    for j, (nj, rkj) in enumerate(starts):
        earlier = {rk for _, rk in starts[:j]}
        # still pending handles of earlier subtrees
        for seq, (nc, path) in created.items():
            if nc < nj and settled.get(seq, 10**9) > nj and path and path[0] in earlier:
                if not is_abandoned(data, path):
                    out.append(("mutation-overlap", f"root field {rkj} started while an awaitable of {path[0]} was pending", {"pending": path, "started": rkj}))
        for n in range(nj + 1, len(events)):
            e = events[n]
            if e[0] in ("S", "I", "Y"):
                path = e[1]
            elif e[0] in ("H", "R"):
                path = e[3]
            else:
                continue
            if path and path[0] in earlier and not is_abandoned(data, path):
                out.append(("mutation-overlap", f"event in subtree {path[0]} after root field {rkj} started", {"event": list(e), "started": rkj}))
    return out[:5]
