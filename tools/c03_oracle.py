"""C03 property oracle on the implementation: only relations the property states.

  * same `data` as fully synchronous execution, same set of nulled positions
  * well-formed response (no null at a non-null position; every error path ends at or below a
    null in data; data null only if an error reached the root)
  * mutation root fields strictly serial (events of the harness)
"""
from __future__ import annotations

import json

from tools.c03_loop import FIELDS, field_of


def longest_existing_prefix(data, path):
    """Longest prefix of `path` that is a position of `data` (the root position always exists)."""
    cur = data
    out = []
    for key in path:
        if isinstance(cur, dict) and key in cur:
            cur = cur[key]
        elif isinstance(cur, list) and isinstance(key, int) and 0 <= key < len(cur):
            cur = cur[key]
        else:
            break
        out.append(key)
    return out, cur


def nulled_positions(data, errors):
    s = set()
    for p in errors:
        q, _ = longest_existing_prefix(data, p or [])
        s.add(json.dumps(q))
    return sorted(s)


def position_types(path):
    """Nullability of every position along a response path: list of bools (non-null?)."""
    out = []
    cur_field = None
    for key in path:
        if isinstance(key, int):
            out.append(FIELDS[cur_field][2])
        else:
            cur_field = field_of(key)
            if cur_field not in FIELDS:
                return None
            out.append(FIELDS[cur_field][0])
    return out


def null_at_non_null(data):
    """Paths of nulls sitting at non-null positions (checked against the schema's field table)."""
    bad = []

    def obj(d, path):
        for rk, v in d.items():
            f = field_of(rk)
            if f not in FIELDS:
                bad.append(path + [rk, "<unknown field>"])
                continue
            onn, is_list, inn, base = FIELDS[f]
            if v is None:
                if onn:
                    bad.append(path + [rk])
                continue
            if is_list:
                if not isinstance(v, list):
                    bad.append(path + [rk, "<not a list>"])
                    continue
                for n, it in enumerate(v):
                    if it is None:
                        if inn:
                            bad.append(path + [rk, n])
                    elif base != "String":
                        if isinstance(it, dict):
                            obj(it, path + [rk, n])
                        else:
                            bad.append(path + [rk, n, "<not an object>"])
            elif base != "String":
                if isinstance(v, dict):
                    obj(v, path + [rk])
                else:
                    bad.append(path + [rk, "<not an object>"])

    if isinstance(data, dict):
        obj(data, [])
    return bad


def well_formed(res):
    """List of (fingerprint, what, detail) for a canonical result {"data","errors"}."""
    out = []
    data, errors = res["data"], res["errors"]
    bad = null_at_non_null(data)
    if bad:
        out.append(("null-at-non-null", "null at a non-null position", bad[:3]))
    for p in errors:
        if p is None:
            if data is not None:
                out.append(("error-path-not-null", "error without path but data is not null", p))
            continue
        q, cur = longest_existing_prefix(data, p)
        if cur is not None:
            out.append(("error-path-not-null", "error path does not end at or below a null in data", p))
    if data is None:
        ok = False
        for p in errors:
            if p is None:
                ok = True
                continue
            nn = position_types(p)
            if nn is not None and all(nn):
                ok = True
        if not ok:
            out.append(("data-null-without-root-error", "data is null but no error reached the root", errors[:3]))
    return out


def is_abandoned(data, path):
    """The position (or one above it) is null in the final data: work there was abandoned."""
    q, cur = longest_existing_prefix(data, path)
    return cur is None


# When True, work that the executor has abandoned without cancelling it (awaitables of a
# selection set that was nulled by a *synchronous* error are left to `settle_in_background`; they
# stay pending until the environment completes them) also counts as a violation of "the whole
# subtree completed".  On the pinned tree this happens (see ASSUMPTIONS of checks/c03.py); it is
# listed in known_findings.json under the fingerprint `mutation-overlap-background` and also counted
# in the evidence (`serial_background_overlaps`).
STRICT_BACKGROUND = True
NESTED_FP = "mutation-overlap:nested-gather-returns-before-cancelled-children-settle"


def mutation_serial(case, events, data, root_order):
    """Strict reading of the serial clause: root fields start in document order, and when root
    field j starts, every resolver coroutine / awaitable of every earlier root subtree has
    finished - normally, by raising, or by a cancellation whose unwinding (`finally`, awaited
    cleanup) has run to the end - and nothing of an earlier subtree happens afterwards.

    Returns (violations, background) where `background` lists the overlaps that consist only of
    abandoned, never cancelled work below a position that is null in the response."""
    out, background = [], []
    starts = [(n, e[1][0]) for n, e in enumerate(events) if e[0] == "S" and len(e[1]) == 1]
    order = [rk for _, rk in starts]
    if len(set(order)) != len(order):
        out.append(("mutation-root-twice", "a root field was invoked twice", order))
    want = [rk for rk in root_order if rk in order]
    if order != want:
        out.append(("mutation-order", "root fields not started in document order", {"started": order, "document": root_order}))
    info = {}
    for n, e in enumerate(events):
        if e[0] == "H":
            info[e[1]] = {"created": n, "path": e[3], "kind": e[4]}
        elif e[0] in ("R", "C", "B", "X", "E"):
            info[e[1]].setdefault(e[0], n)
    inf = 10**9

    def discarded_predicate(h, nj):
        """An awaitable is_type_of result that type resolution did not wait for (the default type
        resolver found a synchronously matching type and only tracks the others): the executor
        has called is_type_of for the same position and an already asked type again - the check
        of the resolved type in complete_object_value - while this result was still pending."""
        if h["kind"] != "ito":
            return False
        asked = set()
        for n in range(h["created"] + 1, min(nj, h.get("R", inf), h.get("C", inf), len(events))):
            e = events[n]
            if e[0] == "I" and e[1] == h["path"]:
                if e[2] in asked or e[2] == h.get("type"):
                    return True
                asked.add(e[2])
        return False

    def finished_at(h2):
        if "B" in h2:
            return h2.get("E", inf)
        return min(h2.get("R", inf), h2.get("C", inf))

    def nested_gather(seq, h, nj):
        """The late cancelled awaitable sits below a NESTED gather: gather_with_cancel cancels its
        awaitables in one synchronous burst (consecutive C events); the gather that failed is at
        the common prefix of the awaitables completed in the same tick (one of them triggered the
        failure) and of the burst.
        If the late one shares its direct-child subtree of that gather with another awaitable of
        the burst that HAD finished in time, the inner gather of that subtree returned after its
        first cancelled child (asyncio.gather does, and `except Exception` does not see the
        CancelledError), which is the known defect; otherwise the failing gather itself did not
        wait for its own direct child (generic mutation-overlap)."""
        c = h.get("C")
        if c is None:
            return False
        lo = hi = c
        while lo - 1 >= 0 and events[lo - 1][0] == "C":
            lo -= 1
        while hi + 1 < len(events) and events[hi + 1][0] == "C":
            hi += 1
        burst = [events[n][1] for n in range(lo, hi + 1)]
        paths = [info[b]["path"] for b in burst]
        # the completions of the same tick: one of them triggered the failure
        for n in range(lo - 1, -1, -1):
            if events[n][0] == "T":
                break
            if events[n][0] == "R":
                paths.append(events[n][3])
        common = list(paths[0])
        for p in paths[1:]:
            k = 0
            while k < len(common) and k < len(p) and common[k] == p[k]:
                k += 1
            common = common[:k]
        path = h["path"]
        if len(path) <= len(common):
            return False
        sub = path[: len(common) + 1]
        for b in burst:
            if b != seq and info[b]["path"][: len(sub)] == sub and finished_at(info[b]) < nj:
                return True
        return False

    for n, e in enumerate(events):
        # the type a predicate handle was asked for: the I event right before its creation
        if e[0] == "H" and e[4] == "ito" and n > 0 and events[n - 1][0] == "I":
            info[e[1]]["type"] = events[n - 1][2]
    for j, (nj, rkj) in enumerate(starts):
        earlier = {rk for _, rk in starts[:j]}
        for seq, h in info.items():
            path = h["path"]
            if h["created"] > nj or not path or path[0] not in earlier:
                continue
            if "B" in h and h["B"] < nj:
                finished = h.get("E", inf)  # a resolver coroutine has finished when its body has
            else:
                finished = min(h.get("R", inf), h.get("C", inf))
            if finished < nj:
                continue
            cancel_at = min(h.get("C", inf), h.get("X", inf))
            cancelled = cancel_at < nj
            detail = {"awaitable": path, "kind": h["kind"], "started": rkj, "cancelled_before": cancelled}
            # its root field had completed before it was cancelled (a later root field was already
            # running): it was abandoned work then, cancelled later by a failing gather INSIDE the
            # abandoned region - the background finding, not a gather that does not wait
            owner = order.index(path[0]) if path[0] in order else -1
            abandoned_first = cancelled and is_abandoned(data, path) and any(
                nk < cancel_at for nk, rkk in starts[owner + 1 : j]
            )
            if abandoned_first:
                background.append(detail)
            elif cancelled and nested_gather(seq, h, nj):
                out.append((NESTED_FP, f"root field {rkj} started before a cancelled resolver below a nested gather of root field {path[0]} had finished unwinding (a sibling in the same nested gather had finished)", detail))
            elif cancelled:
                out.append(("mutation-overlap", f"root field {rkj} started before a cancelled resolver of root field {path[0]} had finished unwinding", detail))
            elif is_abandoned(data, path) or discarded_predicate(h, nj):
                background.append(detail)
            else:
                out.append(("mutation-overlap", f"root field {rkj} started while a resolver of root field {path[0]} was still running", detail))
        for n in range(nj + 1, len(events)):
            e = events[n]
            if e[0] in ("S", "I", "Y"):
                path = e[1]
            elif e[0] in ("H", "B"):
                path = e[3]
            else:
                continue
            if path and path[0] in earlier:
                detail = {"event": list(e), "started": rkj}
                if is_abandoned(data, path):
                    background.append(detail)
                else:
                    out.append(("mutation-overlap", f"new work in the subtree of root field {path[0]} after root field {rkj} started", detail))
    if STRICT_BACKGROUND and background:
        out.append(("mutation-overlap-background", "a root field started while abandoned (never cancelled) work of an earlier root field was pending", background[:3]))
    kept, count = [], {}
    for item in out:
        count[item[0]] = count.get(item[0], 0) + 1
        if count[item[0]] <= 3:
            kept.append(item)
    return kept, background
