import json, sys, glob
import jsonschema
m = json.load(open('/verif/MANIFEST.json'))
jsonschema.validate(m, json.load(open('/root/.vp/MANIFEST.schema.json')))
es = json.load(open('/root/.vp/EVIDENCE.schema.json'))
for c in m['checks']:
    try:
        jsonschema.validate(json.load(open('/verif/' + c['evidence_file'])), es)
    except Exception as e:
        print('EVIDENCE INVALID', c['property_id'], str(e)[:300])
print('manifest ok;', len(m['checks']), 'checks')
