import json, sys, glob, os
V=os.path.dirname(os.path.dirname(os.path.abspath(__file__)))
import jsonschema
m = json.load(open(V+'/MANIFEST.json'))
jsonschema.validate(m, json.load(open('/root/.vp/MANIFEST.schema.json')))
es = json.load(open('/root/.vp/EVIDENCE.schema.json'))
for c in m['checks']:
    try:
        jsonschema.validate(json.load(open(V+'/' + c['evidence_file'])), es)
    except Exception as e:
        print('EVIDENCE INVALID', c['property_id'], str(e)[:300])
print('manifest ok;', len(m['checks']), 'checks')
