"""C12 — document generators (executable documents against a schema, SDL documents).

Three families, all driven by one `random.Random`:
  * `ExecGen(schema, rng, p)`: type-directed executable documents; `p` is the per-choice probability of
    injecting a mistake (p = 0: valid by construction, p ~ 0.08: near-valid mutants).
  * `grammar_random(rng)`: grammar-directed documents that ignore the schema (names from a pool that
    overlaps the schemas), including type-system definitions and extensions.
  * `sdl_document(rng, p)`: type-system documents for `validate_sdl`.
Only text is produced; the checks parse it with the implementation's parser.
"""
from __future__ import annotations

SCHEMA_A = '''
interface Mammal { mother: Mammal father: Mammal }
interface Pet { name(surname: Boolean): String }
interface Canine implements Mammal { name(surname: Boolean): String mother: Canine father: Canine }
enum DogCommand { SIT HEEL DOWN }
scalar GeoPoint
type Dog implements Pet & Mammal & Canine {
  name(surname: Boolean): String
  nickname: String
  barkVolume: Int
  barks: Boolean
  doesKnowCommand(dogCommand: DogCommand): Boolean
  isHouseTrained(atOtherHomes: Boolean = true): Boolean
  isAtLocation(x: Int, y: Int): Boolean
  distanceFrom(loc: GeoPoint): Float
  mother: Dog
  father: Dog
}
type Cat implements Pet { name(surname: Boolean): String nickname: String meows: Boolean meowsVolume: Int furColor: FurColor }
union CatOrDog = Cat | Dog
type Human { name(surname: Boolean): String pets: [Pet] relatives: [Human]! }
enum FurColor { BROWN BLACK TAN SPOTTED NO_FUR UNKNOWN }
input ComplexInput { requiredField: Boolean! nonNullField: Boolean! = false intField: Int stringField: String booleanField: Boolean stringListField: [String] nested: ComplexInput }
input OneOfInput @oneOf { stringField: String intField: Int }
type ComplicatedArgs {
  intArgField(intArg: Int): String
  nonNullIntArgField(nonNullIntArg: Int!): String
  stringArgField(stringArg: String): String
  booleanArgField(booleanArg: Boolean): String
  enumArgField(enumArg: FurColor): String
  floatArgField(floatArg: Float): String
  idArgField(idArg: ID): String
  stringListArgField(stringListArg: [String]): String
  stringListNonNullArgField(stringListNonNullArg: [String!]): String
  complexArgField(complexArg: ComplexInput): String
  oneOfArgField(oneOfArg: OneOfInput): String
  multipleReqs(req1: Int!, req2: Int!): String
  nonNullFieldWithDefault(arg: Int! = 0): String
  multipleOpts(opt1: Int = 0, opt2: Int = 0): String
  multipleOptAndReq(req1: Int!, req2: Int!, opt1: Int = 0, opt2: Int = 0): String
}
type QueryRoot {
  human(id: ID): Human
  dog: Dog
  cat: Cat
  pet: Pet
  catOrDog: CatOrDog
  complicatedArgs: ComplicatedArgs
  humans(first: Int): [Human]
}
type MutationRoot { renameDog(name: String!): Dog addHuman(input: ComplexInput): Human }
type SubscriptionRoot { newDog: Dog humanAdded(id: ID): Human pets: [Pet] }
schema { query: QueryRoot mutation: MutationRoot subscription: SubscriptionRoot }
directive @onField on FIELD
directive @onQuery(tag: String) on QUERY
directive @onFragment(level: Int! = 1) repeatable on FRAGMENT_SPREAD | INLINE_FRAGMENT | FRAGMENT_DEFINITION
directive @onVar on VARIABLE_DEFINITION
directive @defer(if: Boolean! = true, label: String) on FRAGMENT_SPREAD | INLINE_FRAGMENT
directive @stream(if: Boolean! = true, label: String, initialCount: Int = 0) on FIELD
'''

SCHEMA_B = '''
type Query { book(id: ID!): Book books(genre: Genre, tags: [String!]): [Book!]! author(name: String = "x"): Author node(id: ID!): Node search(q: Filter!): [Result] }
interface Node { id: ID! }
type Book implements Node { id: ID! title: String! author: Author genre: Genre related(limit: Int = 3): [Book] }
type Author implements Node { id: ID! name: String books: [Book!] born: Int }
union Result = Book | Author
enum Genre { FICTION SCIENCE POETRY }
input Filter { text: String! genre: Genre range: Range years: [Int!] }
input Range { lo: Int = 0 hi: Int }
directive @defer(if: Boolean! = true, label: String) on FRAGMENT_SPREAD | INLINE_FRAGMENT
directive @stream(if: Boolean! = true, label: String, initialCount: Int = 0) on FIELD
directive @tag(name: String!) repeatable on FIELD | QUERY | FRAGMENT_DEFINITION
'''

SCHEMA_C = '''
type Query { a: Int b(x: Int): String c: Query list: [Query] }
'''

SCHEMAS = [SCHEMA_A, SCHEMA_B, SCHEMA_C]

NAME_POOL = ["a", "b", "c", "name", "dog", "Dog", "Cat", "Pet", "id", "x", "if", "Query", "Book", "title",
             "F", "G", "on", "query", "type", "Int", "String", "skip", "include", "defer", "stream", "label",
             "fields", "__schema", "__type", "__typename", "types", "Filter", "genre", "true", "null"]


class ExecGen:
    def __init__(self, schema, rng, p=0.0, frag_args=False):
        from graphql import type as T

        self.T = T
        self.schema = schema
        self.rng = rng
        self.p = p
        self.frag_args = frag_args
        self.var_counter = 0
        self.label_counter = 1
        self.no_defer = False
        self.alias_counter = 0
        self.frags = []  # (name, type)
        self.vars = None  # current operation variable list: [(name, typestr)]
        self.used_vars = None
        self.injected = []
        self.composites = [t for t in schema.type_map.values() if T.is_composite_type(t) and not t.name.startswith("__")]
        self.input_types = [t for t in schema.type_map.values() if T.is_input_type(t) and not t.name.startswith("__")]
        self.all_field_names = sorted({f for t in self.composites if not T.is_union_type(t) for f in t.fields})

    # ---------------------------------------------------------------- helpers
    def err(self, tag):
        if self.p and self.rng.random() < self.p:
            self.injected.append(tag)
            return True
        return False

    def name(self):
        return self.rng.choice(NAME_POOL)

    # ---------------------------------------------------------------- values
    def value(self, typ, depth=0, const=False, nonnull=False):
        T, rng = self.T, self.rng
        if self.err("wrong-value"):
            return rng.choice(['"str"', "1", "1.5", "true", "null", "FOO", "[1, \"a\"]", "{zz: 1}", "[[1]]", "BROWN", "$nope"][: 10 if const else 11])
        if not const and not nonnull and self.vars is not None and depth < 2 and rng.random() < 0.3:
            return self.variable_for(typ)
        if T.is_non_null_type(typ):
            return self.value(typ.of_type, depth, const, nonnull=True)
        if not nonnull and rng.random() < 0.07:
            return "null"
        if T.is_list_type(typ):
            if rng.random() < 0.2:
                return self.value(typ.of_type, depth + 1, True)  # list coercion of a single item (never a variable)
            return "[" + ", ".join(self.value(typ.of_type, depth + 1, const) for _ in range(rng.randint(0, 3))) + "]"
        if T.is_enum_type(typ):
            return rng.choice(list(typ.values))
        if T.is_input_object_type(typ):
            fields = []
            items = list(typ.fields.items())
            if getattr(typ, "is_one_of", False):
                k, f = rng.choice(items)
                chosen = [(k, f)] if not self.err("oneof-two") else items[:2]
            else:
                chosen = [(k, f) for k, f in items if (T.is_required_input_field(f) and not self.err("missing-input-field")) or (rng.random() < 0.4 and depth < 3)]
            for k, f in chosen:
                if T.is_input_object_type(T.get_named_type(f.type)) and depth >= 2:
                    continue
                fields.append(f"{k}: {self.value(f.type, depth + 1, const)}")
                if self.err("dup-input-field"):
                    fields.append(f"{k}: {self.value(f.type, depth + 1, const)}")
            if self.err("unknown-input-field"):
                fields.append("bogus: 1")
            return "{" + ", ".join(fields) + "}"
        n = typ.name
        if n == "Int":
            return str(rng.choice([0, 1, -7, 42, 2147483647, 2147483648]) if self.err("big-int") else rng.randint(-5, 99))
        if n == "Float":
            return rng.choice(["1.5", "-0.25", "3", "1e3"])
        if n == "String":
            return rng.choice(['"a"', '""', '"hello world"', '"""block\n  text"""', '"\\u00e9\\n"'])
        if n == "Boolean":
            return rng.choice(["true", "false"])
        if n == "ID":
            return rng.choice(['"id1"', "7"])
        return rng.choice(['"custom"', "1", "{k: [1, 2]}", "ENUMISH"])  # custom scalar: anything

    def variable_for(self, typ):
        """Use (and define) a variable of a type allowed at a position of type `typ`."""
        rng = self.rng
        tstr = str(typ)
        if self.err("undefined-var"):
            return "$undef" + str(rng.randint(0, 2))
        if self.err("var-wrong-type"):
            tstr = rng.choice(["Int", "String", "[Int]", "Boolean!", "ID"])
        elif not tstr.endswith("!") and rng.random() < 0.3:
            tstr += "!"  # stricter is allowed
        for n, t in self.vars:
            if t == tstr and rng.random() < 0.6:
                self.used_vars.add(n)
                return "$" + n
        n = f"v{len(self.vars)}"
        self.vars.append((n, tstr))
        self.used_vars.add(n)
        return "$" + n

    # ---------------------------------------------------------------- directives
    def directives(self, loc, field_type=None, root=False, subscription=False):
        rng = self.rng
        out = []
        if loc in ("FIELD", "FRAGMENT_SPREAD", "INLINE_FRAGMENT") and rng.random() < 0.15:
            d = rng.choice(["skip", "include"])
            out.append(f"@{d}(if: {self.value(self.T.GraphQLNonNull(self.T.GraphQLBoolean))})")
            if self.err("dup-directive"):
                out.append(f"@{d}(if: true)")
        if loc in ("FRAGMENT_SPREAD", "INLINE_FRAGMENT") and self.schema.get_directive("defer") and rng.random() < 0.2 and (not self.no_defer or self.err("defer-misuse")):
            args = []
            if rng.random() < 0.6:
                self.label_counter += 1
                lab = f'"L{self.label_counter}"' if not self.err("dup-label") else '"L1"'
                if self.err("label-var"):
                    lab = "$lab"
                args.append(f"label: {lab}")
            if rng.random() < 0.3:
                args.append(f"if: {rng.choice(['true', 'false'])}")
            out.append("@defer" + (f"({', '.join(args)})" if args else ""))
        if loc == "FIELD" and self.schema.get_directive("stream") and field_type is not None:
            is_list = self.T.is_list_type(self.T.get_nullable_type(field_type))
            if (is_list and rng.random() < 0.3 and (not self.no_defer or self.err("defer-misuse"))) or self.err("stream-nonlist"):
                args = [f"initialCount: {rng.randint(0, 3)}"] if rng.random() < 0.6 else []
                if rng.random() < 0.5:
                    self.label_counter += 1
                    args.append(f'label: "S{self.label_counter}"' if not self.err("dup-label") else 'label: "L1"')
                out.append("@stream" + (f"({', '.join(args)})" if args else ""))
        if self.err("unknown-directive"):
            out.append("@nonexistent(x: 1)")
        if self.err("misplaced-directive"):
            out.append(rng.choice(["@onField", "@onQuery", "@deprecated", "@specifiedBy(url: \"u\")", "@onVar", "@tag(name: \"t\")"]))
        for d in self.schema.directives:
            if d.name in ("skip", "include", "defer", "stream", "deprecated", "specifiedBy", "oneOf"):
                continue
            if loc in [l.name for l in d.locations] and rng.random() < 0.12:
                out.append("@" + d.name + self.arguments(d.args))
                if d.is_repeatable and rng.random() < 0.3:
                    out.append("@" + d.name + self.arguments(d.args))
        return "".join(" " + d for d in out)

    def arguments(self, args):
        T, rng = self.T, self.rng
        parts = []
        for n, a in args.items():
            required = T.is_required_argument(a)
            if (required and not self.err("missing-arg")) or (not required and rng.random() < 0.5):
                an = n if not self.err("wrong-arg-name") else n + "X"
                parts.append(f"{an}: {self.value(a.type)}")
                if self.err("dup-arg"):
                    parts.append(f"{n}: {self.value(a.type)}")
        if self.err("extra-arg"):
            parts.append("unknownArg: 3")
        rng.shuffle(parts)
        return "(" + ", ".join(parts) + ")" if parts else ""

    # ---------------------------------------------------------------- selections
    def selection_set(self, typ, depth, root=False, subscription=False):
        T, rng = self.T, self.rng
        sels = []
        n = 1 if subscription and not self.err("multi-sub-root") else rng.randint(1, 3 if depth < 2 else 2)
        for _ in range(n):
            r = rng.random()
            if r < 0.62 or subscription or depth >= 4:
                sels.append(self.field(typ, depth, root))
            elif r < 0.8:
                sels.append(self.inline_fragment(typ, depth))
            else:
                sels.append(self.spread(typ))
        if self.err("conflict") and not subscription:
            sels.append(rng.choice(["same: __typename", "x: __typename"]))
            fs = self.fields_of(typ)
            if fs:
                k = rng.choice(sorted(fs))
                sels.append(f"same: {k}" + (" { __typename }" if T.is_composite_type(T.get_named_type(fs[k].type)) else ""))
        return "{ " + " ".join(sels) + " }"

    def fields_of(self, typ):
        T = self.T
        if T.is_object_type(typ) or T.is_interface_type(typ):
            return typ.fields
        return {}

    def field(self, typ, depth, root=False):
        T, rng = self.T, self.rng
        fs = self.fields_of(typ)
        if self.err("wrong-field") or not fs:
            if not fs and not self.p:
                return "__typename"
            nm = rng.choice(self.all_field_names + ["nope", "__typename"])
            f = fs.get(nm)
        elif rng.random() < 0.08:
            return rng.choice(["__typename", "tn: __typename"])
        else:
            nm = rng.choice(sorted(fs))
            f = fs[nm]
        args = self.arguments(f.args) if f else ("(x: 1)" if rng.random() < 0.3 else "")
        alias = ""
        if self.err("alias-clash"):
            alias = rng.choice(["al", "x", "same"]) + ": "
        alias_at = None
        dirs = self.directives("FIELD", f.type if f else None, root)
        if not alias and (args or "@stream" in dirs or rng.random() < 0.1):
            self.alias_counter += 1
            alias = f"k{self.alias_counter}: "
        sub = ""
        named = T.get_named_type(f.type) if f else None
        if named is not None and T.is_composite_type(named):
            if depth < 4 and not self.err("missing-subselection"):
                sub = " " + self.selection_set(named, depth + 1)
            elif depth >= 4:
                sub = " { __typename }"
        elif self.err("subselection-on-leaf") or (f is None and rng.random() < 0.3):
            sub = " { a }"
        return f"{alias}{nm}{args}{dirs}{sub}"

    def possible(self, typ):
        T = self.T
        if T.is_abstract_type(typ):
            return list(self.schema.get_possible_types(typ))
        return [typ] if T.is_object_type(typ) else []

    def overlapping(self, typ):
        poss = set(self.possible(typ))
        return [c for c in self.composites if poss & set(self.possible(c))]

    def inline_fragment(self, typ, depth):
        rng = self.rng
        if rng.random() < 0.25:
            cond, t = "", typ
        else:
            t = rng.choice(self.overlapping(typ) or [typ]) if not self.err("impossible-spread") else rng.choice(self.composites)
            cond = f" on {t.name}"
            if self.err("frag-on-noncomposite"):
                cond = " on " + rng.choice(["Int", "FurColor", "ComplexInput", "Nope", "Genre"])
        return f"...{cond}{self.directives('INLINE_FRAGMENT')} " + self.selection_set(t, depth + 1)

    def spread(self, typ):
        rng = self.rng
        cands = [n for n, t in self.frags if t in self.overlapping(typ)]
        if self.err("unknown-fragment") or not self.frags:
            if not self.p:
                return "__typename"
            return "...UnknownFrag"
        if self.err("impossible-spread"):
            nm = rng.choice(self.frags)[0]
        elif cands:
            nm = rng.choice(cands)
        else:
            return "__typename"
        self.spread_names.add(nm)
        return f"...{nm}{self.directives('FRAGMENT_SPREAD')}"

    # ---------------------------------------------------------------- definitions
    def document(self):
        T, rng = self.T, self.rng
        nfr = rng.choice([0, 0, 1, 2, 3, 4])
        self.frags = []
        for i in range(nfr):
            t = rng.choice(self.composites)
            nm = f"F{i}" if not (i and self.err("dup-fragment-name")) else "F0"
            self.frags.append((nm, t))
        self.spread_names = set()
        roots = [("query", self.schema.query_type)]
        if self.schema.mutation_type:
            roots.append(("mutation", self.schema.mutation_type))
        if self.schema.subscription_type:
            roots.append(("subscription", self.schema.subscription_type))
        nops = rng.choice([1, 1, 1, 2, 3])
        defs = []
        ops = []
        for i in range(nops):
            kind, rt = rng.choice(roots) if rng.random() < 0.4 else roots[0]
            if self.err("unknown-operation-type"):
                kind = rng.choice(["mutation", "subscription"])
                rt = {"mutation": self.schema.mutation_type, "subscription": self.schema.subscription_type}[kind] or self.schema.query_type
            self.vars, self.used_vars = [], set()
            self.no_defer = kind != "query"
            body = self.selection_set(rt, 0, root=True, subscription=(kind == "subscription"))
            opdirs = self.directives({"query": "QUERY", "mutation": "MUTATION", "subscription": "SUBSCRIPTION"}[kind])
            if self.err("unused-var"):
                self.vars.append((f"unused{i}", "Int"))
            if self.err("dup-var") and self.vars:
                self.vars.append(self.vars[0])
            if self.err("var-non-input"):
                self.vars.append((f"bad{i}", rng.choice([c.name for c in self.composites])))
                self.used_vars.add(f"bad{i}")
            vdefs = []
            for n, t in self.vars:
                dflt = ""
                if rng.random() < 0.25:
                    try:
                        from graphql import parse_type, type_from_ast

                        ty = type_from_ast(self.schema, parse_type(t))
                        saved, self.vars = self.vars, None
                        dflt = " = " + (self.value(ty, 1, const=True) if ty is not None and T.is_input_type(ty) else "1")
                        self.vars = saved
                    except Exception:  # noqa: BLE001
                        self.vars = saved
                vd = " @onVar" if self.schema.get_directive("onVar") and rng.random() < 0.1 else ""
                vdefs.append(f"${n}: {t}{dflt}{vd}")
            vtxt = "(" + ", ".join(vdefs) + ")" if vdefs else ""
            if nops == 1 and not vdefs and not opdirs and rng.random() < 0.4 and kind == "query":
                ops.append(["", "", body, i])
            else:
                nm = f"Op{i}" if not (i and self.err("dup-operation-name")) else "Op0"
                if self.err("anonymous-with-others"):
                    nm = "!"
                elif nops == 1 and rng.random() < 0.3:
                    nm = ""
                ops.append([kind, nm, f"{vtxt}{opdirs} {body}", i])
        self.vars = None
        # fragments: spread bodies may reference each other (cycles only when injected)
        for idx, (nm, t) in enumerate(self.frags):
            saved = self.frags
            if not self.err("fragment-cycle"):
                self.frags = self.frags[idx + 1:]
            cond = t.name if not self.err("frag-on-noncomposite") else rng.choice(["Int", "Nope", "ComplexInput"])
            self.no_defer = t in (self.schema.mutation_type, self.schema.subscription_type) or self.schema.subscription_type is not None and rng.random() < 0.5
            vtxt = ""
            if self.frag_args and rng.random() < 0.5:
                self.vars, self.used_vars = [], set()
            body = self.selection_set(t, 1)
            if self.frag_args and self.vars is not None:
                if self.err("unused-var"):
                    self.vars.append(("unusedf", "Int"))
                vtxt = "(" + ", ".join(f"${n}: {ty}" for n, ty in self.vars) + ")" if self.vars else ""
                self.vars = None
            self.frags = saved
            defs.append(f"fragment {nm}{vtxt} on {cond}{self.directives('FRAGMENT_DEFINITION')} {body}")
            if nm not in self.spread_names and not self.err("unused-fragment") and defs:
                # make it used: add a spread to the first operation when type-compatible is not required here
                pass
        # use every unused fragment from a fresh query (keeps "valid" documents valid)
        unused = [(n, t) for n, t in self.frags if n not in self.spread_names]
        if unused and not self.err("unused-fragment"):
            parts = []
            for n, t in unused:
                parts.append(self.path_to(t, f"...{n}"))
            parts = [p for p in parts if p is not None]
            if parts:
                ops.append(["query", "Uses", " { " + " ".join(parts) + " }", 99])
        for kind, nm, rest, i in ops:
            if nm == "!":
                nm = ""
            elif len(ops) > 1 and not nm:
                kind, nm = kind or "query", f"Op{i}"
            defs.append(rest if not kind else f"{kind} {nm}{rest}")
        if self.err("type-definition-in-executable"):
            defs.append(rng.choice(["type Extra { a: Int }", "extend type Dog { z: Int }", "schema { query: Q }", "directive @dd on FIELD", '"""desc""" scalar S']))
        if self.err("introspection-depth"):
            defs.append("query Deep { __schema { types { fields { type { fields { type { fields { name } } } } } } } }")
        rng.shuffle(defs)
        return "\n".join(defs)

    def path_to(self, target, leaf, limit=4):
        """A selection path from the query root to a position where `...Frag on target` is possible."""
        T = self.T
        seen = set()
        frontier = [(self.schema.query_type, [])]
        for _ in range(limit):
            nxt = []
            for typ, path in frontier:
                if typ in seen:
                    continue
                seen.add(typ)
                if target in self.overlapping(typ):
                    txt = leaf
                    for f in reversed(path):
                        txt = f + " { " + txt + " }"
                    return txt
                for fname, f in self.fields_of(typ).items():
                    named = T.get_named_type(f.type)
                    if T.is_composite_type(named) and not any(T.is_required_argument(a) for a in f.args.values()):
                        nxt.append((named, [*path, fname]))
                for pt in self.possible(typ) if T.is_abstract_type(typ) else []:
                    nxt.append((pt, [*path, f"... on {pt.name}"]))
            frontier = nxt
        return None


def many_errors(rng, n):
    """A document with about n independent errors (for the default limit of validate())."""
    kind = rng.choice(["fields", "vars", "frags"])
    if kind == "fields":
        return "{ " + " ".join(f"nope{i}" for i in range(n)) + " }"
    if kind == "vars":
        return "query Q(" + ", ".join(f"$u{i}: Int" for i in range(n)) + ") { __typename }"
    return "{ __typename }\n" + "\n".join(f"fragment U{i} on Nope{i} {{ a }}" for i in range(n // 2))


# ------------------------------------------------------------------------------- grammar-random


def grammar_random(rng, sdl_share=0.25):
    def name():
        return rng.choice(NAME_POOL)

    def value(d=0, const=False):
        r = rng.random()
        if d > 2:
            r *= 0.7
        if r < 0.12 and not const:
            return "$" + name()
        if r < 0.24:
            return str(rng.randint(-3, 30))
        if r < 0.3:
            return rng.choice(["1.5", "0.0", "2e2"])
        if r < 0.42:
            return rng.choice(['"s"', '""', '"""b"""', '"\\""'])
        if r < 0.5:
            return rng.choice(["true", "false"])
        if r < 0.56:
            return "null"
        if r < 0.7:
            return rng.choice(["FOO", "BROWN", "SIT", name()]).replace("true", "T").replace("null", "N")
        if r < 0.85:
            return "[" + " ".join(value(d + 1, const) for _ in range(rng.randint(0, 3))) + "]"
        return "{" + " ".join(f"{name()}: {value(d + 1, const)}" for _ in range(rng.randint(0, 3))) + "}"

    def args(const=False):
        if rng.random() < 0.6:
            return ""
        return "(" + ", ".join(f"{name()}: {value(0, const)}" for _ in range(rng.randint(1, 3))) + ")"

    def directives(const=False):
        return "".join(f" @{name()}{args(const)}" for _ in range(rng.choice([0, 0, 0, 1, 1, 2])))

    def typeref(d=0):
        r = rng.random()
        if r < 0.6 or d > 2:
            t = name()
        else:
            t = "[" + typeref(d + 1) + "]"
        return t + ("!" if rng.random() < 0.25 else "")

    def selset(d=0):
        sels = []
        for _ in range(rng.randint(1, 3 if d < 3 else 1)):
            r = rng.random()
            if r < 0.65 or d > 4:
                alias = f"{name()}: " if rng.random() < 0.15 else ""
                sub = " " + selset(d + 1) if rng.random() < 0.35 and d < 5 else ""
                sels.append(f"{alias}{name()}{args()}{directives()}{sub}")
            elif r < 0.82:
                fname = name()
                if fname == "on":
                    fname = "onn"
                sels.append(f"...{fname}{directives()}")
            else:
                cond = f" on {name()}" if rng.random() < 0.7 else ""
                sels.append(f"...{cond}{directives()} {selset(d + 1)}")
        return "{ " + " ".join(sels) + " }"

    def vardefs():
        if rng.random() < 0.6:
            return ""
        out = []
        for _ in range(rng.randint(1, 3)):
            dflt = f" = {value(0, True)}" if rng.random() < 0.3 else ""
            out.append(f"${name()}: {typeref()}{dflt}{directives(True)}")
        return "(" + ", ".join(out) + ")"

    def fielddefs():
        out = []
        for _ in range(rng.randint(1, 3)):
            a = ""
            if rng.random() < 0.3:
                a = "(" + ", ".join(f"{name()}: {typeref()}" + (f" = {value(0, True)}" if rng.random() < 0.3 else "") for _ in range(rng.randint(1, 2))) + ")"
            out.append(f"{name()}{a}: {typeref()}{directives(True)}")
        return "{ " + " ".join(out) + " }"

    defs = []
    for _ in range(rng.randint(1, 4)):
        r = rng.random()
        if r < sdl_share:
            k = rng.randint(0, 9)
            n = name()
            if k == 0:
                defs.append(f"type {n}{directives(True)} {fielddefs()}")
            elif k == 1:
                defs.append(f"extend type {n} {fielddefs()}")
            elif k == 2:
                defs.append(f"enum {n} {{ {' '.join(rng.choice(['A', 'B', 'C', 'A']) for _ in range(rng.randint(1, 3)))} }}")
            elif k == 3:
                defs.append(f"input {n} {{ {' '.join(f'{name()}: {typeref()}' for _ in range(rng.randint(1, 3)))} }}")
            elif k == 4:
                defs.append(f"scalar {n}{directives(True)}")
            elif k == 5:
                defs.append(f"union {n} = {' | '.join(name() for _ in range(rng.randint(1, 3)))}")
            elif k == 6:
                defs.append(f"directive @{n}{'(' + name() + ': ' + typeref() + ')' if rng.random() < 0.4 else ''} on {rng.choice(['FIELD', 'QUERY', 'OBJECT', 'FIELD_DEFINITION | ENUM'])}")
            elif k == 7:
                defs.append(f"schema{directives(True)} {{ query: {name()} {rng.choice(['', 'mutation: ' + name(), 'query: ' + name()])} }}")
            elif k == 8:
                defs.append(f"interface {n} {fielddefs()}")
            else:
                defs.append(f"extend schema @{name()}")
        elif r < sdl_share + 0.45:
            k = rng.random()
            if k < 0.3:
                defs.append(selset())
            else:
                op = rng.choice(["query", "query", "mutation", "subscription"])
                nm = name() if rng.random() < 0.7 else ""
                defs.append(f"{op} {nm}{vardefs()}{directives()} {selset()}")
        else:
            fname = name()
            if fname == "on":
                fname = "onn"
            defs.append(f"fragment {fname} on {name()}{directives()} {selset()}")
    return "\n".join(defs)


# ------------------------------------------------------------------------------- SDL documents

SDL_BASE_B = SCHEMA_B


def sdl_document(rng, p=0.1, extending=False):
    """A type-system document (optionally extensions of SCHEMA_B's types)."""
    injected = []

    def err(tag):
        if p and rng.random() < p:
            injected.append(tag)
            return True
        return False

    scalars = ["Int", "String", "Boolean", "ID", "Float"]
    existing = ["Book", "Author", "Genre", "Filter", "Node", "Result", "Query"] if extending else []
    ntypes = rng.randint(1, 5)
    names = [f"T{i}" for i in range(ntypes)]
    kinds = {}
    for n in names:
        kinds[n] = rng.choice(["type", "type", "interface", "enum", "input", "union", "scalar"])
    out_types = [n for n in names if kinds[n] in ("type", "interface", "enum", "union", "scalar")] + scalars + (["Book", "Author", "Genre"] if extending else [])
    in_types = [n for n in names if kinds[n] in ("enum", "input", "scalar")] + scalars + (["Genre", "Filter"] if extending else [])
    obj_types = [n for n in names if kinds[n] == "type"] + (["Book", "Author"] if extending else [])
    dirs_defined = ["d0", "d1"]

    def tref(pool):
        t = rng.choice(pool) if not err("unknown-type") else rng.choice(["Nope", "Missing", "Strin"])
        r = rng.random()
        if r < 0.2:
            t = f"[{t}]"
        if rng.random() < 0.25:
            t += "!"
        return t

    def dirs(loc):
        ds = []
        if rng.random() < 0.2:
            ds.append("@d0" + ("(a: 1)" if not err("missing-directive-arg") else ""))
            if err("dup-directive"):
                ds.append("@d0(a: 2)")
        if rng.random() < 0.15:
            ds.append("@d1" + rng.choice(["", "(b: \"x\")", "(b: \"x\", b: \"y\")" if err("dup-arg") else "", "(zz: 1)" if err("unknown-directive-arg") else ""]))
            if rng.random() < 0.3:
                ds.append("@d1")
        if rng.random() < 0.08:
            ds.append('@deprecated(reason: "r")')
        if err("unknown-directive"):
            ds.append("@nodir")
        return "".join(" " + d for d in ds)

    def desc():
        return rng.choice(["", "", "", '"d" ', '"""block\ndesc""" '])

    def argdefs():
        if rng.random() < 0.6:
            return ""
        xs = [f"{desc()}arg{i}: {tref(in_types)}" + (" = 1" if rng.random() < 0.2 else "") + dirs("ARGUMENT_DEFINITION") for i in range(rng.randint(1, 3))]
        if err("dup-arg-def"):
            xs.append(f"arg0: Int")
        return "(" + ", ".join(xs) + ")"

    def fields(pool, with_args=True):
        xs = [f"{desc()}f{i}{argdefs() if with_args else ''}: {tref(pool)}" + (" = {a: 1, a: 2}" if not with_args and err("dup-input-field") else "") + dirs("FIELD_DEFINITION") for i in range(rng.randint(1, 4))]
        if err("dup-field"):
            xs.append(f"f0: {tref(pool)}")
        return "{ " + " ".join(xs) + " }"

    defs = []
    defs.append("directive @d0(a: Int!) on OBJECT | FIELD_DEFINITION | ENUM | ENUM_VALUE | SCALAR | ARGUMENT_DEFINITION | INPUT_OBJECT | INPUT_FIELD_DEFINITION | INTERFACE | UNION | SCHEMA")
    defs.append("directive @d1(b: String) repeatable on OBJECT | FIELD_DEFINITION | ENUM | SCALAR | INTERFACE | UNION | INPUT_OBJECT | SCHEMA | ARGUMENT_DEFINITION | INPUT_FIELD_DEFINITION | ENUM_VALUE")
    if err("dup-directive-def"):
        defs.append("directive @d0 on FIELD")
    if err("redefine-specified-directive"):
        defs.append("directive @skip on FIELD")
    for n in names:
        k = kinds[n]
        d = desc()
        if k == "type":
            impl = ""
            ifs = [m for m in names if kinds[m] == "interface"]
            if ifs and rng.random() < 0.4:
                impl = " implements " + " & ".join(rng.sample(ifs, rng.randint(1, len(ifs))))
            defs.append(f"{d}type {n}{impl}{dirs('OBJECT')} {fields(out_types)}")
        elif k == "interface":
            defs.append(f"{d}interface {n}{dirs('INTERFACE')} {fields(out_types)}")
        elif k == "enum":
            vals = [f"{desc()}V{i}{dirs('ENUM_VALUE')}" for i in range(rng.randint(1, 4))]
            if err("dup-enum-value"):
                vals.append("V0")
            defs.append(f"{d}enum {n}{dirs('ENUM')} {{ {' '.join(vals)} }}")
        elif k == "input":
            defs.append(f"{d}input {n}{dirs('INPUT_OBJECT')} {fields(in_types, with_args=False)}")
        elif k == "union":
            members = rng.sample(obj_types, min(len(obj_types), rng.randint(1, 2))) if obj_types else ["Nope"]
            if err("unknown-type"):
                members.append("Missing")
            defs.append(f"{d}union {n}{dirs('UNION')} = {' | '.join(members)}")
        else:
            defs.append(f"{d}scalar {n}{dirs('SCALAR')}")
        if err("dup-type"):
            defs.append(f"scalar {n}")
    # extensions
    for _ in range(rng.choice([0, 0, 1, 2])):
        cands = [n for n in names if kinds[n] == "type"] + (["Book", "Author"] if extending else [])
        if err("extend-undefined"):
            defs.append(f"extend type Undefined{rng.randint(0, 2)} {{ z: Int }}")
        elif err("extend-wrong-kind") and names:
            n = rng.choice(names + existing)
            defs.append(f"extend {rng.choice(['type', 'enum', 'input', 'union', 'scalar', 'interface'])} {n} @d1")
        elif cands:
            n = rng.choice(cands)
            defs.append(f"extend type {n} {{ ext{rng.randint(0, 1)}{argdefs()}: {tref(out_types)} }}")
    if not extending and rng.random() < 0.6:
        q = rng.choice(obj_types) if obj_types else "Nope"
        ops = [f"query: {q}"]
        if rng.random() < 0.3 and obj_types:
            ops.append(f"mutation: {rng.choice(obj_types)}")
        if err("dup-operation-type"):
            ops.append(f"query: {q}")
        defs.append(f"{desc()}schema{dirs('SCHEMA')} {{ {' '.join(ops)} }}")
        if err("dup-schema"):
            defs.append(f"schema {{ query: {q} }}")
    elif extending and rng.random() < 0.4:
        defs.append(rng.choice(["extend schema @d1", "schema { query: Query }", "extend schema { mutation: Book }", "extend schema { query: Book }"]))
    rng.shuffle(defs)
    return "\n".join(defs), injected
