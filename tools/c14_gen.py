"""Generators and serialisation for the C14 check (overlapping fields can be merged).

A case is a dict {"sdl": str, "query": str, "noloc": bool}.  Everything random derives from the
`random.Random` handed in.
"""
from __future__ import annotations

import itertools

LEAF_TYPES = ["Int", "String", "Int!", "[Int]", "[Int!]", "[String]", "E", "ID", "[[Int]]", "[Int]!"]
ARGS_SDL = "(x: Int, y: String, o: Inp, l: [Int], e: E)"
FIELD_NAMES = ["a", "b", "c", "d"]
COMP_FIELD_NAMES = ["n", "m", "k"]
RESP_NAMES = ["a", "b", "x", "n", "r", "q"]

PRELUDE = """
enum E { P Q }
input Inp { a: Int, b: String, c: Inp, a1: Int, a10: Int, a2: Int, l: [Inp] }
"""


def gen_schema(rng):
    """Random SDL: objects O1..Ok, interfaces I1..Ij, a union, list/non-null wrapped leaves."""
    n_obj = rng.randint(2, 4)
    n_if = rng.randint(0, 2)
    objs = [f"O{i + 1}" for i in range(n_obj)]
    ifs = [f"I{i + 1}" for i in range(n_if)]
    comps = objs + ifs + ["U"]
    out = [PRELUDE]

    def comp_ty():
        t = rng.choice(comps)
        return rng.choice(["%s", "%s", "[%s]", "%s!", "[%s!]!", "[[%s]]"]) % t

    def fields(must=()):
        fs = dict(must)
        for f in FIELD_NAMES:
            if f not in fs and rng.random() < 0.8:
                fs[f] = rng.choice(LEAF_TYPES)
        for f in COMP_FIELD_NAMES:
            if f not in fs and rng.random() < 0.7:
                fs[f] = comp_ty()
        if not fs:
            fs["a"] = "Int"
        return fs

    if_fields = {}
    for i in ifs:
        if_fields[i] = fields()
        body = " ".join(f"{f}{ARGS_SDL}: {t}" for f, t in if_fields[i].items())
        out.append(f"interface {i} {{ {body} }}")
    for o in objs:
        impl = [i for i in ifs if rng.random() < 0.5]
        must = {}
        for i in impl:
            for f, t in if_fields[i].items():
                must.setdefault(f, t)
        fs = fields(must.items())
        body = " ".join(f"{f}{ARGS_SDL}: {t}" for f, t in fs.items())
        imp = (" implements " + " & ".join(impl)) if impl else ""
        out.append(f"type {o}{imp} {{ {body} }}")
    members = rng.sample(objs, rng.randint(1, len(objs)))
    out.append("union U = " + " | ".join(members))
    roots = " ".join(f"{c.lower()}{ARGS_SDL}: {c}" for c in comps)
    out.append(f"type Query {{ {roots} a: Int b: String }}")
    return "\n".join(out)


FIXED_SDL = (
    PRELUDE
    + """
interface I1 { a%(A)s: Int n%(A)s: I1 }
type O1 implements I1 { a%(A)s: Int b%(A)s: String c%(A)s: [Int] n%(A)s: O1 m%(A)s: O2 k%(A)s: [O1] }
type O2 implements I1 { a%(A)s: Int b%(A)s: Int! c%(A)s: [Int!] n%(A)s: O2 m%(A)s: O1 k%(A)s: [O2!] }
type O3 { a%(A)s: String b%(A)s: String c%(A)s: [[Int]] n%(A)s: O1 m%(A)s: U k%(A)s: O3! }
union U = O1 | O2 | O3
type Query { o1%(A)s: O1 o2%(A)s: O2 o3%(A)s: O3 i1%(A)s: I1 u%(A)s: U a: Int b: String }
"""
    % {"A": ARGS_SDL}
)


def schema_info(sdl):
    """name -> (kind, {field: (type string, named type, is composite)}) via the real library."""
    from graphql import build_schema, get_named_type, is_composite_type

    schema = build_schema(sdl, assume_valid=True)
    info = {}
    for name, t in schema.type_map.items():
        if name.startswith("__"):
            continue
        k = _kind(t)
        fs = {}
        if k in "oi":
            for f, fd in t.fields.items():
                nt = get_named_type(fd.type)
                fs[f] = (str(fd.type), nt.name, is_composite_type(nt), "[" in str(fd.type))
        info[name] = (k, fs)
    return schema, info


def _kind(t):
    from graphql import is_interface_type, is_object_type, is_union_type

    if is_object_type(t):
        return "o"
    if is_interface_type(t):
        return "i"
    if is_union_type(t):
        return "u"
    return "x"


VALUES = ["1", "2", "$v", "$w", '"s"', '"s t"', "P", "null", "true", "1.5", "[1, 2]", "[2, 1]", "[$v]"]
OBJ_KEYS = ["a", "b", "a1", "a10", "a2"]


def gen_value(rng, depth=0):
    r = rng.random()
    if r < 0.55 or depth > 2:
        return rng.choice(VALUES)
    if r < 0.7:
        return "[" + ", ".join(gen_value(rng, depth + 1) for _ in range(rng.randint(0, 2))) + "]"
    keys = rng.sample(OBJ_KEYS, rng.randint(1, 3))
    return "{" + ", ".join(f"{k}: {gen_value(rng, depth + 1)}" for k in keys) + "}"


def permute_value(rng, text):
    """Re-parse a value and print it with object keys shuffled at every level (same meaning)."""
    from graphql.language import ListValueNode, ObjectValueNode, parse_value, print_ast

    def go(v):
        if isinstance(v, ObjectValueNode):
            fs = [(f.name.value, go(f.value)) for f in v.fields]
            rng.shuffle(fs)
            return "{" + ", ".join(f"{k}: {t}" for k, t in fs) + "}"
        if isinstance(v, ListValueNode):
            return "[" + ", ".join(go(x) for x in v.values) + "]"
        return print_ast(v)

    return go(parse_value(text))


class DocGen:
    def __init__(self, rng, info, n_frags, arg_pool=None):
        self.rng = rng
        self.info = info
        self.comps = [n for n, (k, _) in info.items() if k in "oiu"]
        self.frag_names = [f"F{i + 1}" for i in range(n_frags)]
        # a small pool of argument lists so equal / permuted / different ones all occur
        self.arg_pool = arg_pool or self._mk_arg_pool()
        self.field_args = {}
        self.field_stream = {}
        self.alias_of = {}
        # probability of deviating from the document-wide consistent choice (source of conflicts)
        self.p_dev = rng.choice([0.0, 0.0, 0.03, 0.1])

    def _mk_arg_pool(self):
        rng = self.rng
        pool = [""]
        for _ in range(4):
            names = rng.sample(["x", "y", "o", "l"], rng.randint(1, 2))
            vals = [(n, gen_value(rng)) for n in names]
            pool.append(vals)
            # same arguments in another order / with object keys permuted
            v2 = [(n, permute_value(rng, v)) for n, v in vals]
            rng.shuffle(v2)
            pool.append(v2)
        return pool

    def _subset_args(self, a):
        """the same arguments plus / minus one (same prefix, different length)"""
        rng = self.rng
        if len(a) > 1 and rng.random() < 0.5:
            return a[:-1]
        extra = [n for n in ["x", "y", "o", "l", "e"] if n not in [k for k, _ in a]]
        return a + [(rng.choice(extra), rng.choice(VALUES))]

    def args(self, name):
        """Arguments for field `name`: mostly the document-wide choice for that field (either of the
        two equivalent spellings), sometimes something else."""
        rng = self.rng
        if name not in self.field_args:
            self.field_args[name] = rng.choice([0, 0, 0, 1, 2, 3, 4])
        k = self.field_args[name]
        if rng.random() < self.p_dev:
            k = rng.choice([0, 1, 2, 3, 4])
        if k == 0:
            return "" if rng.random() > self.p_dev else "(x: 1)"
        a = self.arg_pool[2 * k - 1 + rng.randint(0, 1)]
        if rng.random() < self.p_dev:
            a = self._subset_args(list(a))
        return "(" + ", ".join(f"{n}: {v}" for n, v in a) + ")"

    STREAMS = ["", " @stream", " @stream(initialCount: 1)", " @stream(initialCount: 2)",
               ' @stream(label: "l", initialCount: 1)', ' @stream(initialCount: 1, label: "l")',
               " @skip(if: $v) @stream"]

    def stream(self, name, is_list):
        rng = self.rng
        if name not in self.field_stream:
            self.field_stream[name] = rng.choice([0, 0, 0, 0, 1, 2, 4]) if is_list else 0
        k = self.field_stream[name]
        if rng.random() < self.p_dev * (1.0 if is_list else 0.2):
            k = rng.randrange(len(self.STREAMS))
        if k in (4, 5):
            k = rng.choice([4, 5])  # equivalent spellings
        return self.STREAMS[k]

    def sel_set(self, parent, depth):
        rng = self.rng
        n = rng.choice([1, 1, 2, 2, 3])
        return "{ " + " ".join(self.selection(parent, depth) for _ in range(n)) + " }"

    def selection(self, parent, depth):
        rng = self.rng
        r = rng.random()
        kind, fields = self.info.get(parent, ("x", {}))
        if r < 0.15 and self.frag_names:
            return "..." + rng.choice(self.frag_names + (["Undefined"] if rng.random() < 0.05 else []))
        if r < 0.33 and depth < 3:
            tc = rng.choice(self.comps) if rng.random() < 0.85 else None
            if tc is None:
                return "... " + self.sel_set(parent, depth + 1)
            return f"... on {tc} " + self.sel_set(tc, depth + 1)
        # a field
        if fields and rng.random() < 0.95:
            name = rng.choice(list(fields))
            ty, named, is_comp, is_list = fields[name]
        else:
            name = rng.choice(["__typename", "__typename", "zz"])
            ty, named, is_comp, is_list = ("", None, False, False)
        alias = ""
        if rng.random() < 0.35:
            # mostly a consistent alias -> field assignment, sometimes a colliding one
            if rng.random() < self.p_dev or not self.alias_of:
                al = rng.choice(RESP_NAMES)
                self.alias_of.setdefault(al, name)
            else:
                cands = [a for a, f in self.alias_of.items() if f == name]
                al = rng.choice(cands) if cands else None
                if al is None:
                    al = rng.choice(RESP_NAMES)
                    if self.alias_of.setdefault(al, name) != name and rng.random() > self.p_dev:
                        al = None
            if al is not None and al != name:
                alias = al + ": "
        out = alias + name + self.args(name) + self.stream(name, is_list)
        if is_comp and depth < 3:
            out += " " + self.sel_set(named, depth + 1)
        elif is_comp:
            out += " { __typename }"
        return out

    def document(self):
        rng = self.rng
        parts = []
        n_ops = rng.choice([1, 1, 1, 2])
        for i in range(n_ops):
            parts.append(f"query Q{i} " + self.sel_set("Query", 0))
        for f in self.frag_names:
            tc = rng.choice(self.comps + ["Query"])
            parts.append(f"fragment {f} on {tc} " + self.sel_set(tc, 1))
        rng.shuffle(parts)
        return "\n".join(parts)


def gen_random_case(rng, sdl=None, info=None):
    if sdl is None:
        sdl = FIXED_SDL if rng.random() < 0.4 else gen_schema(rng)
        _, info = schema_info(sdl)
    g = DocGen(rng, info, rng.choice([0, 1, 2, 2, 3, 3, 4, 5]))
    return {"sdl": sdl, "query": g.document(), "noloc": rng.random() < 0.3}


# ---------------------------------------------------------------- targeted family: two contexts


def gen_two_context_case(rng):
    """The same two fragments compared once under mutually exclusive parents (different object
    types) and once under overlapping parents, in either visiting order, with bodies that conflict
    only when the parents overlap (different field / different arguments), always (shape), or
    never.  Optionally reached through further (possibly cyclic) fragments."""
    bodies = [
        "x: a", "x: b", "x: c", "x: a(x: 1)", "x: a(x: 2)", "x: a(o: {a: 1, b: \"s\"})",
        "x: a(o: {b: \"s\", a: 1})", "x: n { y: a }", "x: n { y: b }", "x: m { y: a }",
        "x: n { ...F3 }", "...F3", "...F4", "x: k { y: a }", "x: k @stream { y: a }", "x: __typename",
    ]
    def body():
        return " ".join(rng.sample(bodies, rng.choice([1, 1, 2])))
    f1, f2, f3, f4 = body(), body(), body(), body()
    excl = rng.choice([
        "u { ... on O1 { r: n { ...F1 } } ... on O2 { r: n { ...F2 } } }",
        "u { ... on O1 { r: n { ...F2 } } ... on O2 { r: n { ...F1 } } }",
        "u { ... on O1 { r: n { x: a ...F1 } } ... on O2 { r: n { ...F1 } } }",
        "u { ... on O1 { r: n { ...F2 } } ... on O2 { r: n { x: b ...F2 } } }",
        "u { ... on O1 { r: n { x: a ...F1 } } ... on O2 { r: n { ...F2 } } }",
    ])
    over = rng.choice([
        "o1 { r: n { ...F1 } r: n { ...F2 } }",
        "o1 { r: n { ...F2 } r: n { ...F1 } }",
        "o1 { n { ...F1 ...F2 } }",
        "o1 { r: n { ...F1 } r: n { x: a } }",
        "o1 { r: n { x: a } r: n { ...F2 } }",
        "o1 { r: n { x: b ...F1 } r: n { ...F2 } }",
        "i1 { ... on O1 { r: n { ...F1 } } ... on I1 { r: n { ...F2 } } }",
    ])
    blocks = [excl, over]
    if rng.random() < 0.5:
        blocks.reverse()
    if rng.random() < 0.3:
        blocks = [f"w{i}: {b}" if not b.startswith("w") else b for i, b in enumerate(blocks)]
    tcs = [rng.choice(["O1", "O2", "I1", "U"]) for _ in range(4)]
    q = "{ " + " ".join(blocks) + " }\n" + "\n".join(
        f"fragment F{i + 1} on {tcs[i]} {{ {b} }}" for i, b in enumerate([f1, f2, f3, f4])
    )
    return {"sdl": FIXED_SDL, "query": q, "noloc": rng.random() < 0.3}


# ---------------------------------------------------------------- exhaustive fragment graphs

EXH_SDL = (
    """
type O1 { a: Int b: Int s: String n: O1 m: O2 }
type O2 { a: Int b: String s: String n: O2 m: O1 }
union U = O1 | O2
type Query { n: O1 u: U }
"""
)


def exhaustive_space(n_frags, max_items, roots):
    """All documents `root` + fragments F1..Fn on O1 whose bodies are 1..max_items distinct items
    out of: `x: a`, `x: b`, `x: s`, `...Fj`, `x: n { ...Fj }`, `... on O2 { x: b }` (j = 1..n)."""
    items = ["x: a", "x: b", "x: s"]
    items += [f"...F{j + 1}" for j in range(n_frags)]
    items += [f"x: n {{ ...F{j + 1} }}" for j in range(n_frags)]
    items += ["... on O2 { x: b }"]
    bodies = []
    for k in range(1, max_items + 1):
        for comb in itertools.combinations(items, k):
            bodies.append(" ".join(comb))
    for root in roots:
        for choice in itertools.product(bodies, repeat=n_frags):
            q = root + "\n" + "\n".join(
                f"fragment F{i + 1} on O1 {{ {b} }}" for i, b in enumerate(choice)
            )
            yield {"sdl": EXH_SDL, "query": q, "noloc": False}


EXH_ROOTS_SMALL = [
    "{ n { r: n { ...F1 } r: n { x: b } } }",
    "{ n { r: n { x: b } r: n { ...F1 } } }",
    "{ u { ... on O1 { r: n { x: a ...F1 } } ... on O2 { r: m { ...F1 } } } }",
    "{ u { ... on O1 { r: n { ...F1 } } ... on O2 { r: m { x: a ...F1 } } } }",
]

EXH_ROOTS = [
    "{ n { ...F1 } }",
    "{ u { ... on O1 { r: n { ...F1 } } ... on O2 { r: m { ...F2 } } } n { r: n { ...F1 } r: n { ...F2 } } }",
    "{ n { r: n { ...F1 } r: n { ...F2 } } u { ... on O1 { r: n { ...F1 } } ... on O2 { r: m { ...F2 } } } }",
]


# ---------------------------------------------------------------- serialisation (line protocol)


def _hex(s):
    return s.encode("utf-8", "surrogatepass").hex() or "00"


def ser_type(t):
    from graphql import is_leaf_type, is_list_type, is_non_null_type

    if is_list_type(t):
        return "L " + ser_type(t.of_type)
    if is_non_null_type(t):
        return "N " + ser_type(t.of_type)
    return ("l:" if is_leaf_type(t) else "c:") + t.name


def ser_schema(schema):
    toks = []
    n = 0
    for name, t in schema.type_map.items():
        if name.startswith("__"):
            continue
        n += 1
        k = _kind(t)
        fs = list(t.fields.items()) if k in "oi" else []
        toks.append(f"{name} {k} {len(fs)}")
        for f, fd in fs:
            toks.append(f"{f} {ser_type(fd.type)}")
    return f"S {n} " + " ".join(toks)


class DocSer:
    """Serialise a DocumentNode; remembers id(field node) -> serial."""

    def __init__(self, schema):
        self.schema = schema
        self.next = 1
        self.node_ids = {}
        self.n_fields = 0
        self.n_spreads = 0
        self.n_inline = 0
        self.n_args = 0
        self.n_stream = 0
        self.max_depth = 0

    def fresh(self):
        i = self.next
        self.next += 1
        return i

    def value(self, v):
        from graphql.language import ListValueNode, ObjectValueNode, VariableNode, print_ast

        if isinstance(v, VariableNode):
            return "v:" + _hex("$" + v.name.value)
        if isinstance(v, ListValueNode):
            return f"[ {len(v.values)} " + " ".join(self.value(x) for x in v.values)
        if isinstance(v, ObjectValueNode):
            return f"{{ {len(v.fields)} " + " ".join(
                f"{f.name.value} {self.value(f.value)}" for f in v.fields
            )
        return "v:" + _hex(print_ast(v))

    def args(self, args):
        args = args or ()
        return f"{len(args)} " + " ".join(f"{a.name.value} {self.value(a.value)}" for a in args)

    def selset(self, ss, depth):
        sid = self.fresh()
        return f"{sid} {len(ss.selections)} " + " ".join(self.sel(s, depth) for s in ss.selections)

    def sel(self, s, depth):
        from graphql.language import FieldNode, FragmentSpreadNode, InlineFragmentNode

        if isinstance(s, FieldNode):
            fid = self.fresh()
            self.node_ids[id(s)] = fid
            self.n_fields += 1
            self.max_depth = max(self.max_depth, depth + 1)
            if s.arguments:
                self.n_args += 1
            stream = None
            for dn in s.directives or ():
                if dn.name.value == "stream":
                    stream = dn
                    break
            if stream is not None:
                self.n_stream += 1
            st = "-" if stream is None else "+ " + self.args(stream.arguments)
            sub = "0" if s.selection_set is None else "1 " + self.selset(s.selection_set, depth + 1)
            al = s.alias.value if s.alias else "-"
            return f"f {fid} {al} {s.name.value} {self.args(s.arguments)} {st} {sub}"
        if isinstance(s, InlineFragmentNode):
            self.n_inline += 1
            tc = s.type_condition.name.value if s.type_condition else "-"
            return f"i {tc} " + self.selset(s.selection_set, depth)
        if isinstance(s, FragmentSpreadNode):
            self.n_spreads += 1
            return f"s {s.name.value}"
        raise TypeError(s)

    def doc(self, doc):
        from graphql.language import FragmentDefinitionNode, OperationDefinitionNode

        out = []
        for df in doc.definitions:
            if isinstance(df, OperationDefinitionNode):
                root = self.schema.get_root_type(df.operation)
                out.append(f"O {root.name if root is not None else '-'} " + self.selset(df.selection_set, 0))
            elif isinstance(df, FragmentDefinitionNode):
                out.append(
                    f"F {df.name.value} {df.type_condition.name.value} " + self.selset(df.selection_set, 0)
                )
        return f"D {len(out)} " + " ".join(out)
