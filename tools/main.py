import importlib
import sys

from tools import fw


def main():
    if len(sys.argv) < 2:
        print("usage: check Cxx [--tier quick|thorough] [--replay file]")
        return 2
    prop = sys.argv[1].upper()
    try:
        mod = importlib.import_module(f"checks.{prop.lower()}")
    except ModuleNotFoundError as e:
        print(f"INFRA: no check module for {prop}: {e}")
        return 2
    return fw.run_property(mod, sys.argv[2:])


if __name__ == "__main__":
    sys.exit(main())
