"""C13 — documents whose response keys collide under parent types of every kind.

The family exercises the clause of FieldsInSetCanMerge that `Valid.specMergeable`
(lean/Gql/Exec/ValidMerge.lean) and OverlappingFieldsCanBeMergedRule must agree on: two fields with
one response key have to be the same field with the same arguments unless their parent types are
*different object types*.  Parents here are an object type, another object type, an interface both
implement, a union of both, and nestings of these; validate() decides which documents are
acceptable, the check compares the accepted ones with the Lean predicate and executes them.
"""
from __future__ import annotations

from tools import c02_gen as G

T, L = G.T, G.L


def iface_context_info():
    def f(name, t, args=()):
        return {"name": name, "type": t, "args": [{"name": a, "type": at, "default": d} for a, at, d in args]}

    shared = lambda: [  # noqa: E731  (identical definitions on the interface and on both objects)
        f("id", T("ID")), f("name", T("String")), f("val", T("Int")), f("peer", T("Node")),
        f("n", T("Int"), [("arg", T("Int"), None)]), f("tags", L(T("String"))),
    ]
    types = {
        "Node": {"kind": "iface", "ifaces": [], "fields": shared()},
        "A": {"kind": "object", "ifaces": ["Node"], "fields": shared() + [f("onlyA", T("String")), f("other", T("B"))]},
        "B": {"kind": "object", "ifaces": ["Node"], "fields": shared() + [f("onlyB", T("Int")), f("other", T("A"))]},
        "U": {"kind": "union", "members": ["A", "B"]},
        "Query": {"kind": "object", "ifaces": [], "fields": [
            f("node", T("Node")), f("a", T("A")), f("b", T("B")), f("u", T("U")), f("nodes", L(T("Node")))]},
    }
    return {"types": types, "order": list(types), "query": "Query", "mutation": None}


LEAVES = ["id", "name", "val", "n", "n(arg: 1)", "n(arg: 2)", "tags", "__typename", "onlyA", "onlyB"]
SUBS = ["peer { x: id }", "peer { x: name }", "peer { ... on A { x: id } }", "peer { ... on B { x: val } }",
        "other { x: id }", "other { x: val }", "peer { x: id y: name }"]
SCOPES = ["", "... on A", "... on B", "... on Node", "... on U", "... on Node { ... on A", "... on Node { ... on B",
          "... on U { ... on B", "... on A { ... on Node"]


def _scoped(scope, body):
    if not scope:
        return body
    return scope + " { " + body + " }" * scope.count("{") + " }"


def gen_iface_context_document(rng):
    """`{ CTX { SCOPE1 { x: F1 } SCOPE2 { x: F2 } } }`, sometimes one side through a named fragment."""
    ctx = rng.choice(["node", "node", "a", "b", "u", "nodes", "a { peer", "node { other"])
    pool = LEAVES + SUBS
    f1 = rng.choice(pool)
    f2 = f1 if rng.random() < 0.3 else rng.choice(pool)
    s1, s2 = rng.choice(SCOPES), rng.choice(SCOPES)
    one, two = _scoped(s1, "x: " + f1), _scoped(s2, "x: " + f2)
    frags = ""
    if rng.random() < 0.3:
        cond = rng.choice(["A", "B", "Node", "U"])
        inner = two
        two = "...F1"
        frags = f" fragment F1 on {cond} {{ {inner} }}"
    if rng.random() < 0.3:
        one, two = two, one
    body = ctx + " { " + one + " " + two + " }" + " }" * ctx.count("{")
    return "{ " + body + " }" + frags
