"""Grammar-directed generator for C08.

Every production returns `(tree, tokens)`:
  * `tree`   – `("Cls", {field: value})` / list / str / bool / None; `wire(tree)` is the wire format of
               lean/Gql/Syntax/Ast.lean, `tools.astwire.from_wire` builds the real graphql node from it;
  * `tokens` – the token sequence of one concrete source text for the same tree: plain strings for
               punctuators / names / numbers, `("S", value, block)` for string literals (rendered with a
               random raw form by `render`).
The trees are exactly of the shape the parser produces (`WF`): `None` vs `()` as the parser yields them,
non-Const classes, valid names and numbers, enum values other than true/false/null, string values made of
Unicode scalar values, block string values that a block string literal can denote.
"""
from __future__ import annotations

FIELD_ORDER = {}  # filled lazily from the dataclasses (wire field order = declaration order)

# ------------------------------------------------------------------------------------------ strings

HOT = [
    "\r", "\n", "\r\n", "\x0b", "\x0c", "\x1c", "\x1d", "\x1e", "\x85", "\u2028", "\u2029", '"', '""', '"""',
    '""""', "\\", "\\\\", '\\"""', '\\"', " ", "  ", "\t", "\n\n", " \n", "\n ", "\x00", "\x07", "\x08", "\x7f", "\x9f",
    "\xa0", "\ufeff", "#", ",", "'", "/", "é", "😀", "\U0010ffff", "\ud7ff", "\ue000", "\uffff", "u{", "\\u",
]
PLAIN = "abcxyz 0129_-.:{}()[]$@!&|=…"


def rand_scalar(rng):
    r = rng.random()
    if r < 0.4:
        return chr(rng.randrange(0x20, 0x7F))
    if r < 0.55:
        return chr(rng.randrange(0, 0x100))
    if r < 0.8:
        c = rng.randrange(0, 0xD800 + 0x2000 - 0x800)
        return chr(c if c < 0xD800 else c + 0x800)
    c = rng.randrange(0x10000, 0x110000)
    return chr(c)


def rand_string(rng, maxlen=12, long_p=0.04):
    """Arbitrary string of Unicode scalar values, weighted to the hot spots."""
    if rng.random() < long_p:
        # long single/multi line values (block string width 70, line wrapping at 80)
        n = rng.choice([69, 70, 71, 72, 79, 80, 81, 90, 120])
        s = "".join(rng.choice("abc d") for _ in range(n))
        if rng.random() < 0.3:
            s = s[: n // 2] + rng.choice(["\n", '"', " ", "\\"]) + s[n // 2 :]
        if rng.random() < 0.3:
            s = rng.choice([" ", "\t", '"', ""]) + s + rng.choice(['"', "\\", " ", ""])
        return s
    n = rng.choice([0, 1, 1, 2, 2, 3, 3, 4, 5, 6, 8, maxlen])
    out = []
    for _ in range(n):
        r = rng.random()
        if r < 0.5:
            out.append(rng.choice(HOT))
        elif r < 0.85:
            out.append(rng.choice(PLAIN))
        else:
            out.append(rand_scalar(rng))
    return "".join(out)


def rand_block_value(rng, is_rep, maxlen=12):
    """A string accepted by `is_rep` (BlockRepresentable, evaluated by the caller), obtained by
    repairing a random string."""
    for _ in range(8):
        s = rand_string(rng, maxlen)
        if is_rep(s):
            return s
        s2 = s.replace("\r", "\n")
        lines = s2.split("\n")
        while lines and not lines[0].strip(" \t"):
            lines.pop(0)
        while lines and not lines[-1].strip(" \t"):
            lines.pop()
        if len(lines) > 1 and all((not ln.strip(" \t")) or ln[0] in " \t" for ln in lines):
            lines[rng.randrange(len(lines))] = "x" + rng.choice(["", " ", '"'])
        s3 = "\n".join(lines)
        if is_rep(s3):
            return s3
    return "a"


def py_block_representable(s: str) -> bool:
    """Python transcription of the Lean predicate `BlockRepresentable` (used only to *generate*;
    the check compares it with the Lean predicate through the driver on every string it uses)."""
    if s == "":
        return True
    if "\r" in s:
        return False
    lines = s.split("\n")

    def nonblank(ln):
        return ln.strip(" \t") != ""

    if not nonblank(lines[0]) or not nonblank(lines[-1]):
        return False
    if len(lines) == 1:
        return True
    return any(nonblank(ln) and ln[0] not in " \t" for ln in lines)


# ------------------------------------------------------------------------------------------ raw forms

_SIMPLE_ESC = {'"': '\\"', "\\": "\\\\", "\b": "\\b", "\f": "\\f", "\n": "\\n", "\r": "\\r", "\t": "\\t", "/": "\\/"}


def raw_quoted(rng, value: str) -> str:
    out = ['"']
    for ch in value:
        o = ord(ch)
        must = ch in '"\\\n\r'
        r = rng.random()
        if not must and r < 0.8:
            out.append(ch)
        elif ch in _SIMPLE_ESC and r < 0.9:
            out.append(_SIMPLE_ESC[ch])
        elif o > 0xFFFF:
            if rng.random() < 0.5:
                o2 = o - 0x10000
                out.append("\\u%04X\\u%04x" % (0xD800 + (o2 >> 10), 0xDC00 + (o2 & 0x3FF)))
            else:
                out.append("\\u{%X}" % o)
        elif rng.random() < 0.5:
            out.append("\\u%04X" % o if rng.random() < 0.5 else "\\u%04x" % o)
        else:
            out.append("\\u{%x}" % o if rng.random() < 0.5 else "\\u{%06X}" % o)
    out.append('"')
    return "".join(out)


def raw_block(rng, value: str) -> str:
    """A block string literal denoting `value` (which must be block-representable)."""
    nl = lambda: rng.choice(["\n", "\n", "\r\n", "\r"])  # noqa: E731
    ws = lambda: "".join(rng.choice(" \t") for _ in range(rng.choice([0, 0, 1, 2, 5])))  # noqa: E731
    if value == "":
        pieces = ['"""']
        for _ in range(rng.choice([0, 0, 1, 2])):
            pieces += [ws(), nl()]
        return _no_crlf_merge(pieces + [ws(), '"""'])
    lines = value.split("\n")
    k = rng.choice([0, 0, 1, 2, 4, 7])
    ind = "".join(rng.choice("  \t") for _ in range(k))
    esc = [ln.replace('"""', '\\"""') for ln in lines]

    def nonblank(ln):
        return ln.strip(" \t") != ""

    inline_ok = len(lines) == 1 or any(nonblank(ln) and ln[0] not in " \t" for ln in lines[1:])
    own_line_ok = any(nonblank(ln) and ln[0] not in " \t" for ln in lines)
    out = ['"""']
    if inline_ok and (not own_line_ok or rng.random() < 0.4):
        out.append(esc[0])
        for ln in esc[1:]:
            out.append(nl())
            out.append(ind + ln if (ln or rng.random() < 0.5) else "")
    else:
        for _ in range(rng.choice([1, 1, 2, 3])):
            out.append(ws())
            out.append(nl())
        for i, ln in enumerate(esc):
            if i:
                out.append(nl())
            out.append(ind + ln if (ln or rng.random() < 0.5) else "")
    last = lines[-1]
    needs_nl = last.endswith('"') or last.endswith("\\")
    if needs_nl or rng.random() < 0.5:
        for _ in range(rng.choice([1, 1, 2])):
            out.append(nl())
            out.append(ws())
    out.append('"""')
    return _no_crlf_merge(out)


def _no_crlf_merge(pieces):
    """Join pieces; a piece ending in CR followed by one starting with LF would merge into a single
    CR LF terminator, so such an LF is turned into CR."""
    res = []
    for piece in pieces:
        if piece == "":
            continue
        if res and res[-1].endswith("\r") and piece.startswith("\n"):
            piece = "\r" + piece[1:]
        res.append(piece)
    return "".join(res)


def rand_comment(rng):
    n = rng.choice([0, 1, 3, 8])
    s = "".join(rng.choice(PLAIN + '"\\#\x0c\x85\u2028é😀') for _ in range(n))
    return "#" + s + rng.choice(["\n", "\r\n", "\r"])


PUNCT = {"!", "$", "&", "(", ")", "...", ":", "=", "@", "[", "]", "{", "|", "}"}


def render(rng, tokens, style=None) -> str:
    """Concrete source text for a token list with random ignored characters between tokens."""
    style = style if style is not None else rng.choice(["min", "space", "mixed", "mixed", "noisy"])
    out = []
    prev = None
    for tok in tokens:
        text = tok if isinstance(tok, str) else (raw_block(rng, tok[1]) if tok[2] else raw_quoted(rng, tok[1]))
        if prev is not None:
            need = not (prev in PUNCT or (isinstance(tok, str) and tok in PUNCT))
            if isinstance(tok, str) and tok == "..." and prev not in PUNCT:
                need = True  # a number directly followed by `...` would lex as a malformed float
            if style == "min":
                sep = " " if need else ""
            elif style == "space":
                sep = " "
            else:
                choices = [" ", " ", "\n", ",", "\t", ", ", "\r\n", "\r", "  ", "\n  "]
                if style == "noisy":
                    choices += ["\ufeff", " " + rand_comment(rng), ",,", rand_comment(rng)]
                if not need:
                    choices += ["", ""]
                sep = rng.choice(choices)
            out.append(sep)
        out.append(text)
        prev = tok if isinstance(tok, str) else "<str>"
    if style in ("mixed", "noisy") and rng.random() < 0.3:
        out.append(rng.choice(["\n", " ", rand_comment(rng)]))
    if style == "noisy" and rng.random() < 0.3:
        out.insert(0, rng.choice(["\ufeff", rand_comment(rng), "\n", " ,"]))
    return "".join(out)


# ------------------------------------------------------------------------------------------ wire


def wire(v) -> str:
    if v is None:
        return "~"
    if v is True:
        return "#t"
    if v is False:
        return "#f"
    if isinstance(v, str):
        return "s:" + ",".join(str(ord(c)) for c in v)
    if isinstance(v, list):
        return "[" + "".join(" " + wire(x) for x in v) + " ]"
    cls, fields = v
    return "( " + cls + "".join(f" {k} {wire(x)}" for k, x in fields.items()) + " )"


def N(cls, **fields):
    return (cls, fields)


# ------------------------------------------------------------------------------------------ grammar

NAMES = [
    "a", "b", "f", "x", "id", "name", "on", "true", "false", "null", "query", "mutation", "subscription",
    "fragment", "type", "extend", "implements", "repeatable", "schema", "input", "enum", "union", "interface",
    "scalar", "directive", "A", "B", "T", "Foo", "_", "_0", "__typename", "a1", "e", "E", "u",
    "someVeryLongNameToFillTheLine", "anotherQuiteLongIdentifier_0123456789",
]
LOCATIONS = [
    "QUERY", "MUTATION", "SUBSCRIPTION", "FIELD", "FRAGMENT_DEFINITION", "FRAGMENT_SPREAD", "INLINE_FRAGMENT",
    "VARIABLE_DEFINITION", "SCHEMA", "SCALAR", "OBJECT", "FIELD_DEFINITION", "ARGUMENT_DEFINITION", "INTERFACE",
    "UNION", "ENUM", "ENUM_VALUE", "INPUT_OBJECT", "INPUT_FIELD_DEFINITION",
]
INTS = ["0", "1", "-1", "42", "-0", "1234567890123456789012345678901234567890", "9", "-70"]
FLOATS = ["0.0", "1.5", "-1.5e10", "1E5", "1e+5", "1e-5", "0e0", "-0.0E-0", "123.456e789", "3.14159"]


class Gen:
    def __init__(self, rng, frag_args=False, dir_on_dir=False, budget=40, is_rep=py_block_representable):
        self.rng = rng
        self.frag_args = frag_args
        self.dir_on_dir = dir_on_dir
        self.budget = budget
        self.is_rep = is_rep
        self.strings = []  # (value, block) of every string literal generated
        self.kinds = set()

    # -- helpers
    def p(self, x):
        return self.rng.random() < x

    def spend(self, n=1):
        self.budget -= n
        return self.budget > 0

    def count(self, lo, hi):
        if self.budget <= 0:
            return lo
        return self.rng.randint(lo, hi)

    def name(self, exclude=()):
        while True:
            n = self.rng.choice(NAMES)
            if n not in exclude:
                return n

    def name_node(self, exclude=()):
        n = self.name(exclude)
        return N("NameNode", value=n), [n]

    def node(self, cls, **fields):
        self.kinds.add(cls)
        return N(cls, **fields)

    # -- values
    def string(self, block=None):
        if block is None:
            block = self.p(0.4)
        v = rand_block_value(self.rng, self.is_rep) if block else rand_string(self.rng)
        self.strings.append((v, block))
        return self.node("StringValueNode", value=v, block=block), [("S", v, block)]

    def value(self, const, depth=0):
        self.spend()
        r = self.rng.random()
        if depth > 3 or self.budget <= 0:
            r = r * 0.8
        if r < 0.12 and not const:
            n, t = self.name_node()
            return self.node("VariableNode", name=n), ["$"] + t
        if r < 0.24:
            v = self.rng.choice(INTS)
            return self.node("IntValueNode", value=v), [v]
        if r < 0.34:
            v = self.rng.choice(FLOATS)
            return self.node("FloatValueNode", value=v), [v]
        if r < 0.56:
            return self.string()
        if r < 0.62:
            b = self.p(0.5)
            return self.node("BooleanValueNode", value=b), ["true" if b else "false"]
        if r < 0.66:
            return self.node("NullValueNode"), ["null"]
        if r < 0.8:
            v = self.name(("true", "false", "null"))
            return self.node("EnumValueNode", value=v), [v]
        if r < 0.9:
            items = [self.value(const, depth + 1) for _ in range(self.rng.choice([0, 1, 2, 3, 9]))]
            toks = ["["]
            for _, t in items:
                toks += t
            return self.node("ListValueNode", values=[x for x, _ in items]), toks + ["]"]
        fields, toks = [], ["{"]
        for _ in range(self.rng.choice([0, 1, 2, 3, 7])):
            n, nt = self.name_node()
            v, vt = self.value(const, depth + 1)
            fields.append(self.node("ObjectFieldNode", name=n, value=v))
            toks += nt + [":"] + vt
        return self.node("ObjectValueNode", fields=fields), toks + ["}"]

    def type_ref(self, depth=0):
        r = self.rng.random()
        if r < 0.5 or depth > 3:
            n, t = self.name_node()
            ty, toks = self.node("NamedTypeNode", name=n), t
        else:
            inner, it = self.type_ref(depth + 1)
            ty, toks = self.node("ListTypeNode", type=inner), ["["] + it + ["]"]
        if self.p(0.35):
            return self.node("NonNullTypeNode", type=ty), toks + ["!"]
        return ty, toks

    def named_type(self):
        n, t = self.name_node()
        return self.node("NamedTypeNode", name=n), t

    def arguments(self, const, cls="ArgumentNode", p=0.4):
        if not self.p(p):
            return None, []
        args, toks = [], ["("]
        for _ in range(self.count(1, self.rng.choice([1, 2, 3, 6]))):
            n, nt = self.name_node()
            v, vt = self.value(const)
            args.append(self.node(cls, name=n, value=v))
            toks += nt + [":"] + vt
        return args, toks + [")"]

    def directives(self, const, p=0.3):
        if not self.p(p):
            return None, []
        ds, toks = [], []
        for _ in range(self.count(1, 3)):
            n, nt = self.name_node()
            a, at = self.arguments(const)
            ds.append(self.node("DirectiveNode", name=n, arguments=a))
            toks += ["@"] + nt + at
        return ds, toks

    def description(self, p=0.3):
        if not self.p(p):
            return None, []
        return self.string()

    # -- executable
    def selection_set(self, depth=0):
        sels, toks = [], ["{"]
        for _ in range(self.count(1, 3 if depth else 4)):
            s, t = self.selection(depth)
            sels.append(s)
            toks += t
        return self.node("SelectionSetNode", selections=sels), toks + ["}"]

    def selection(self, depth):
        self.spend()
        r = self.rng.random()
        if r < 0.7:
            alias, at = (self.name_node() if self.p(0.25) else (None, []))
            n, nt = self.name_node()
            args, argt = self.arguments(False)
            ds, dt = self.directives(False)
            ss, st = (self.selection_set(depth + 1) if depth < 4 and self.budget > 0 and self.p(0.35) else (None, []))
            toks = (at + [":"] if alias else []) + nt + argt + dt + st
            return self.node("FieldNode", alias=alias, name=n, arguments=args, directives=ds, selection_set=ss), toks
        if r < 0.85:
            n, nt = self.name_node(("on",))
            if self.frag_args:
                args, argt = self.arguments(False, "FragmentArgumentNode", 0.5)
            else:
                args, argt = None, []
            ds, dt = self.directives(False)
            return self.node("FragmentSpreadNode", name=n, arguments=args, directives=ds), ["..."] + nt + argt + dt
        tc, tt = (self.named_type() if self.p(0.6) else (None, []))
        ds, dt = self.directives(False)
        ss, st = self.selection_set(depth + 1)
        toks = ["..."] + (["on"] + tt if tc else []) + dt + st
        return self.node("InlineFragmentNode", type_condition=tc, directives=ds, selection_set=ss), toks

    def variable_definitions(self, p=0.4):
        if not self.p(p):
            return None, []
        vds, toks = [], ["("]
        for _ in range(self.count(1, 3)):
            desc, dt = self.description(0.15)
            n, nt = self.name_node()
            ty, tyt = self.type_ref()
            dv, dvt = (self.value(True) if self.p(0.4) else (None, []))
            ds, dst = self.directives(True, 0.2)
            vds.append(
                self.node(
                    "VariableDefinitionNode",
                    description=desc,
                    variable=self.node("VariableNode", name=n),
                    type=ty,
                    default_value=dv,
                    directives=ds,
                )
            )
            toks += dt + ["$"] + nt + [":"] + tyt + (["="] + dvt if dv else []) + dst
        return vds, toks + [")"]

    def operation(self):
        if self.p(0.25):
            ss, st = self.selection_set()
            return (
                self.node(
                    "OperationDefinitionNode", operation="query", description=None, name=None,
                    variable_definitions=None, directives=None, selection_set=ss,
                ),
                st,
            )
        desc, dt = self.description(0.2)
        op = self.rng.choice(["query", "mutation", "subscription"])
        n, nt = (self.name_node() if self.p(0.6) else (None, []))
        vds, vt = self.variable_definitions()
        ds, dst = self.directives(False)
        ss, st = self.selection_set()
        node = self.node(
            "OperationDefinitionNode", operation=op, description=desc, name=n,
            variable_definitions=vds, directives=ds, selection_set=ss,
        )
        toks = dt + [op] + nt + vt + dst + st
        if op == "query" and not (desc or n or vds or ds):
            pass  # `query { ... }` parses to the same tree as the shorthand
        return node, toks

    def fragment_definition(self):
        desc, dt = self.description(0.2)
        n, nt = self.name_node(("on",))
        if self.frag_args:
            vds, vt = self.variable_definitions(0.5)
        else:
            vds, vt = [], []
        tc, tt = self.named_type()
        ds, dst = self.directives(False)
        ss, st = self.selection_set()
        node = self.node(
            "FragmentDefinitionNode", description=desc, name=n, variable_definitions=vds,
            type_condition=tc, directives=ds, selection_set=ss,
        )
        return node, dt + ["fragment"] + nt + vt + ["on"] + tt + dst + st

    # -- type system
    def input_value_def(self):
        desc, dt = self.description(0.25)
        n, nt = self.name_node()
        ty, tyt = self.type_ref()
        dv, dvt = (self.value(True) if self.p(0.35) else (None, []))
        ds, dst = self.directives(True, 0.2)
        node = self.node("InputValueDefinitionNode", description=desc, name=n, type=ty, default_value=dv, directives=ds)
        return node, dt + nt + [":"] + tyt + (["="] + dvt if dv else []) + dst

    def argument_defs(self, p=0.4):
        if not self.p(p):
            return None, []
        items, toks = [], ["("]
        for _ in range(self.count(1, self.rng.choice([1, 2, 3, 5]))):
            x, t = self.input_value_def()
            items.append(x)
            toks += t
        return items, toks + [")"]

    def field_def(self):
        desc, dt = self.description(0.25)
        n, nt = self.name_node()
        args, at = self.argument_defs()
        ty, tyt = self.type_ref()
        ds, dst = self.directives(True, 0.2)
        node = self.node("FieldDefinitionNode", description=desc, name=n, arguments=args, type=ty, directives=ds)
        return node, dt + nt + at + [":"] + tyt + dst

    def braced(self, item, p=0.7, lo=1, hi=3):
        if not self.p(p):
            return None, []
        items, toks = [], ["{"]
        for _ in range(self.count(lo, hi)):
            x, t = item()
            items.append(x)
            toks += t
        return items, toks + ["}"]

    def implements(self, p=0.4):
        if not self.p(p):
            return None, []
        items, toks = [], ["implements"]
        if self.p(0.2):
            toks.append("&")
        for i in range(self.count(1, 3)):
            x, t = self.named_type()
            items.append(x)
            toks += (["&"] if i else []) + t
        return items, toks

    def union_members(self, p=0.7):
        if not self.p(p):
            return None, []
        items, toks = [], ["="]
        if self.p(0.3):
            toks.append("|")
        for i in range(self.count(1, 3)):
            x, t = self.named_type()
            items.append(x)
            toks += (["|"] if i else []) + t
        return items, toks

    def op_type_def(self):
        op = self.rng.choice(["query", "mutation", "subscription"])
        ty, tt = self.named_type()
        return self.node("OperationTypeDefinitionNode", operation=op, type=ty), [op, ":"] + tt

    def enum_value_def(self):
        desc, dt = self.description(0.25)
        n, nt = self.name_node(("true", "false", "null"))
        ds, dst = self.directives(True, 0.2)
        return self.node("EnumValueDefinitionNode", description=desc, name=n, directives=ds), dt + nt + dst

    def type_system_definition(self):
        self.spend(3)
        kind = self.rng.choice(["schema", "scalar", "type", "interface", "union", "enum", "input", "directive"])
        desc, dt = self.description(0.4)
        if kind == "schema":
            ds, dst = self.directives(True)
            ots, ott = self.braced(self.op_type_def, 1.0)
            return self.node("SchemaDefinitionNode", description=desc, directives=ds, operation_types=ots), dt + ["schema"] + dst + ott
        if kind == "directive":
            n, nt = self.name_node()
            args, at = self.argument_defs()
            if self.dir_on_dir:
                ds, dst = self.directives(True, 0.5)
            else:
                ds, dst = None, []
            rep = self.p(0.3)
            locs, lt = [], []
            if self.p(0.3):
                lt.append("|")
            for i in range(self.count(1, 4)):
                loc = self.rng.choice(LOCATIONS)
                locs.append(self.node("NameNode", value=loc))
                lt += (["|"] if i else []) + [loc]
            node = self.node(
                "DirectiveDefinitionNode", description=desc, name=n, arguments=args, directives=ds,
                repeatable=rep, locations=locs,
            )
            return node, dt + ["directive", "@"] + nt + at + dst + (["repeatable"] if rep else []) + ["on"] + lt
        n, nt = self.name_node()
        if kind == "scalar":
            ds, dst = self.directives(True)
            return self.node("ScalarTypeDefinitionNode", description=desc, name=n, directives=ds), dt + ["scalar"] + nt + dst
        if kind in ("type", "interface"):
            ifs, it = self.implements()
            ds, dst = self.directives(True)
            fs, ft = self.braced(self.field_def)
            cls = "ObjectTypeDefinitionNode" if kind == "type" else "InterfaceTypeDefinitionNode"
            return (
                self.node(cls, description=desc, name=n, interfaces=ifs, directives=ds, fields=fs),
                dt + [kind] + nt + it + dst + ft,
            )
        if kind == "union":
            ds, dst = self.directives(True)
            ms, mt = self.union_members()
            return self.node("UnionTypeDefinitionNode", description=desc, name=n, directives=ds, types=ms), dt + ["union"] + nt + dst + mt
        if kind == "enum":
            ds, dst = self.directives(True)
            vs, vt = self.braced(self.enum_value_def)
            return self.node("EnumTypeDefinitionNode", description=desc, name=n, directives=ds, values=vs), dt + ["enum"] + nt + dst + vt
        ds, dst = self.directives(True)
        fs, ft = self.braced(self.input_value_def)
        return self.node("InputObjectTypeDefinitionNode", description=desc, name=n, directives=ds, fields=fs), dt + ["input"] + nt + dst + ft

    def type_system_extension(self):
        self.spend(3)
        kinds = ["schema", "scalar", "type", "interface", "union", "enum", "input"]
        if self.dir_on_dir:
            kinds.append("directive")
        kind = self.rng.choice(kinds)
        for _ in range(20):
            if kind == "schema":
                ds, dst = self.directives(True, 0.5)
                ots, ott = self.braced(self.op_type_def, 0.6)
                if ds or ots:
                    return self.node("SchemaExtensionNode", directives=ds, operation_types=ots), ["extend", "schema"] + dst + ott
                continue
            n, nt = self.name_node()
            if kind == "directive":
                ds, dst = self.directives(True, 1.0)
                return self.node("DirectiveExtensionNode", name=n, directives=ds), ["extend", "directive", "@"] + nt + dst
            if kind == "scalar":
                ds, dst = self.directives(True, 1.0)
                return self.node("ScalarTypeExtensionNode", name=n, directives=ds), ["extend", "scalar"] + nt + dst
            if kind in ("type", "interface"):
                ifs, it = self.implements()
                ds, dst = self.directives(True)
                fs, ft = self.braced(self.field_def, 0.5)
                if ifs or ds or fs:
                    cls = "ObjectTypeExtensionNode" if kind == "type" else "InterfaceTypeExtensionNode"
                    return self.node(cls, name=n, interfaces=ifs, directives=ds, fields=fs), ["extend", kind] + nt + it + dst + ft
                continue
            if kind == "union":
                ds, dst = self.directives(True)
                ms, mt = self.union_members(0.6)
                if ds or ms:
                    return self.node("UnionTypeExtensionNode", name=n, directives=ds, types=ms), ["extend", "union"] + nt + dst + mt
                continue
            if kind == "enum":
                ds, dst = self.directives(True)
                vs, vt = self.braced(self.enum_value_def, 0.6)
                if ds or vs:
                    return self.node("EnumTypeExtensionNode", name=n, directives=ds, values=vs), ["extend", "enum"] + nt + dst + vt
                continue
            ds, dst = self.directives(True)
            fs, ft = self.braced(self.input_value_def, 0.6)
            if ds or fs:
                return self.node("InputObjectTypeExtensionNode", name=n, directives=ds, fields=fs), ["extend", "input"] + nt + dst + ft
        n, nt = self.name_node()
        d, dt_ = self.directives(True, 1.0)
        return self.node("ScalarTypeExtensionNode", name=n, directives=d), ["extend", "scalar"] + nt + dt_

    def document(self, flavour):
        defs, toks = [], []
        n = self.rng.choice([1, 1, 2, 3, 4])
        for _ in range(n):
            if flavour == "executable":
                f = self.rng.choice([self.operation, self.operation, self.fragment_definition])
            elif flavour == "sdl":
                f = self.type_system_definition
            elif flavour == "extensions":
                f = self.type_system_extension
            else:
                f = self.rng.choice(
                    [self.operation, self.fragment_definition, self.type_system_definition, self.type_system_extension]
                )
            d, t = f()
            if toks and t and t[0] == "{" and toks[-1] != "}":
                # a shorthand query after a definition that does not end with a block would be read as
                # that definition's block: the source needs the `query` keyword (same tree)
                t = ["query"] + t
                self.kinds.add("<query-keyword-after-open-definition>")
            defs.append(d)
            toks += t
        return self.node("DocumentNode", definitions=defs), toks


FLAVOURS = ["executable", "sdl", "extensions", "mixed"]


def gen_case(rng, idx):
    """One generated case: dict(entry, flags, wire, tokens)."""
    r = rng.random()
    flags = {
        "experimental_fragment_arguments": rng.random() < 0.4,
        "experimental_directives_on_directive_definitions": rng.random() < 0.4,
    }
    g = Gen(
        rng,
        frag_args=flags["experimental_fragment_arguments"],
        dir_on_dir=flags["experimental_directives_on_directive_definitions"],
        budget=rng.choice([8, 20, 40, 80]),
    )
    if r < 0.72:
        flavour = FLAVOURS[idx % 4]
        tree, toks = g.document(flavour)
        entry = "document"
    elif r < 0.82:
        tree, toks = g.value(False)
        entry, flavour = "value", "value"
    elif r < 0.92:
        tree, toks = g.value(True)
        entry, flavour = "const_value", "const_value"
    else:
        tree, toks = g.type_ref()
        entry, flavour = "type", "type"
    return {
        "entry": entry, "flavour": flavour, "flags": flags, "tree": tree, "tokens": toks,
        "strings": g.strings, "kinds": sorted(g.kinds),
    }


# ------------------------------------------------------------------------------------------ non-WF variants


def empty_tuple_variant(rng, tree):
    """Replace some `None` tuples by `[]` (and the parser's `[]` of a fragment definition by None)
    and `block=False` by `None`: trees the parser never produces but that print like their
    normal form.  Returns (variant, changed?)."""
    changed = [False]
    OPT_TUPLES = {
        "arguments", "directives", "variable_definitions", "interfaces", "fields", "types", "values", "operation_types",
    }

    def go(v):
        if isinstance(v, list):
            return [go(x) for x in v]
        if isinstance(v, tuple):
            cls, fields = v
            out = {}
            for k, x in fields.items():
                if x is None and k in OPT_TUPLES and rng.random() < 0.5:
                    # only where the class really has such an optional tuple field
                    out[k] = []
                    changed[0] = True
                elif cls == "FragmentDefinitionNode" and k == "variable_definitions" and x == [] and rng.random() < 0.5:
                    out[k] = None
                    changed[0] = True
                elif cls == "StringValueNode" and k == "block" and x is False and rng.random() < 0.3:
                    out[k] = None
                    changed[0] = True
                else:
                    out[k] = go(x)
            return (cls, out)
        return v

    return go(tree), changed[0]
