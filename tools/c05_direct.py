"""C05 direct correspondence: drive the real WorkQueue + IncrementalPublisher with scripted
computations / stream queues on an event loop controlled from the outside, and produce the
same canonical trace line the Lean driver (`drv_c05 sim`) prints for the same history.

A *case* is a JSON-able dict

  {"groups":  [[g, parent|-1, [key..]], ..],              # label of group g is str(g)
   "tasks":   [[t, [g..], mode, result|None], ..],          # mode: 0 sync ok, 1 sync raise, 2 async,
                                                            #       3 done-future ok, 4 done-future raise
   "streams": [[s, [key..]], ..],                           # label of stream s is str(100+s)
   "work":    work|None,
   "history": [[ev, ..], ..]}                               # one list per tick

  result = {"groups": [g..], "path": [key..], "tag": n, "errs": 0|1, "work": work|None}
  work   = {"g": [..], "t": [..], "s": [..]}
  ev     = ["ts", t, result] | ["tf", t] | ["si", s, [item..], stopped] | ["ss", s] | ["sf", s]
  item   = {"idx": i|-1, "tag": n, "errs": 0|1, "work": work|None}

Keys: odd number 2k+1 = the string key "k<2k+1>", even number 2i = list index i.
"""
from __future__ import annotations

import asyncio


# ------------------------------------------------------------------ encoding for the driver


def enc_many(xs, f=lambda x: [x]):
    out = [len(xs)]
    for x in xs:
        out += f(x)
    return out


def enc_work(w):
    if w is None:
        return [0]
    return [1] + enc_many(w["g"]) + enc_many(w["t"]) + enc_many(w["s"])


def enc_result(r):
    return enc_many(r["groups"]) + enc_many(r["path"]) + [r["tag"], r["errs"]] + enc_work(r["work"])


def enc_item(it):
    return [it["idx"], it["tag"], it["errs"]] + enc_work(it["work"])


def enc_ev(ev):
    k = ev[0]
    if k == "ts":
        return [0, ev[1]] + enc_result(ev[2])
    if k == "tf":
        return [1, ev[1]]
    if k == "si":
        return [2, ev[1]] + enc_many(ev[2], enc_item) + [1 if ev[3] else 0]
    if k == "ss":
        return [3, ev[1]]
    if k == "sf":
        return [4, ev[1]]
    raise ValueError(ev)


def enc_case(case, fuel=400):
    toks = [fuel]
    toks += enc_many(case["groups"], lambda g: [g[0], g[1], g[0]] + enc_many(g[2]))
    toks += enc_many(
        case["tasks"],
        lambda t: [t[0]] + enc_many(t[1]) + [t[2]] + (enc_result(t[3]) if t[2] in (0, 3) else []),
    )
    toks += enc_many(case["streams"], lambda s: [s[0], 100 + s[0]] + enc_many(s[1]))
    toks += enc_work(case["work"])
    toks += enc_many(case["history"], lambda tick: enc_many(tick, enc_ev))
    return "sim " + " ".join(str(x) for x in toks)


# ------------------------------------------------------------------ running the implementation


def key_to_py(k):
    return f"k{k}" if k % 2 else k // 2


def key_from_py(k):
    return int(k[1:]) if isinstance(k, str) else 2 * k


def mk_path(keys):
    from graphql.pyutils import Path

    p = None
    for k in keys:
        p = Path(p, key_to_py(k), None)
    return p


class _Group:
    def __init__(self, gid, path):
        self.gid = gid
        self.parent = None
        self.path = mk_path(path)
        self.label = str(gid)


class _FakeQueue:
    """A stream queue whose batches()/stop/failure are decided by the harness, one future
    per step."""

    def __init__(self, loop):
        self.loop = loop
        self.fut = None
        self.stopped = False
        self.started = False
        self.aborted = 0

    async def batches(self):
        self.started = True
        while True:
            self.fut = self.loop.create_future()
            kind, payload, stopped = await self.fut
            self.fut = None
            if kind == "items":
                if stopped:
                    self.stopped = True
                yield payload
                if stopped:
                    return
            elif kind == "stop":
                self.stopped = True
                return
            else:
                raise payload

    def is_stopped(self):
        return self.stopped

    def abort(self, reason=None):
        self.aborted += 1


class _Stream:
    def __init__(self, sid, path, loop):
        self.sid = sid
        self.path = mk_path(path)
        self.label = str(100 + sid)
        self.queue = _FakeQueue(loop)


class _Ctx:
    abort_signal = None

    def abort_error(self):  # pragma: no cover
        return RuntimeError("aborted")

    async def cancel_incremental_work(self, reason=None):
        return None

    def run_async_work_finished_hook(self):
        return None


class World:
    """The implementation side of one case."""

    def __init__(self, case):
        from graphql.execution.incremental import incremental_publisher as ip
        from graphql.execution.incremental.computation import Computation
        from graphql.execution.incremental.work_queue import WorkQueue, WorkTask

        self.case = case
        self.loop = asyncio.new_event_loop()
        self.groups = {}
        for g, _parent, path in case["groups"]:
            self.groups[g] = _Group(g, path)
        for g, parent, _path in case["groups"]:
            if parent >= 0:
                self.groups[g].parent = self.groups.get(parent) or _Group(parent, [])
        self.streams = {s: _Stream(s, path, self.loop) for s, path in case["streams"]}
        self.task_fut = {}
        self.started = []
        self.tasks = {}
        self.task_ids = {}
        for t, gs, mode, result in case["tasks"]:
            task = WorkTask([self._group(g) for g in gs], Computation(self._fn(t, mode, result)))
            self.tasks[t] = task
        self.batches = []
        world = self

        class Recording(WorkQueue):
            def __init__(self, work=None):
                super().__init__(work)
                world.wq = self

            async def events(self):
                async for batch in super().events():
                    world.batches.append(list(batch))
                    yield batch

        self._ip = ip
        self._saved = ip.WorkQueue
        ip.WorkQueue = Recording
        try:
            res = ip.IncrementalPublisher().build_response({}, None, self._work(case["work"]), _Ctx())
        finally:
            ip.WorkQueue = self._saved
        self.initial = res.initial_result
        self.payloads = []
        self.sub = res.subsequent_results

        async def collect():
            async for p in self.sub:
                self.payloads.append(p)

        self.collector = self.loop.create_task(collect())
        self.seen_batches = 0

    def _group(self, g):
        if g not in self.groups:
            self.groups[g] = _Group(g, [])
        return self.groups[g]

    def _work(self, w):
        from graphql.execution.incremental.work_queue import Work

        if w is None:
            return None
        return Work(
            [self._group(g) for g in w["g"]],
            [self.tasks[t] for t in w["t"]],
            [self.streams[s] for s in w["s"]],
        )

    def _result(self, r):
        from graphql.error import GraphQLError
        from graphql.execution.incremental.incremental_executor import ExecutionGroupValue
        from graphql.execution.incremental.work_queue import WorkResult

        value = ExecutionGroupValue(
            [self._group(g) for g in r["groups"]],
            [key_to_py(k) for k in r["path"]],
            {"tag": r["tag"]},
            [GraphQLError("e")] if r["errs"] else None,
        )
        return WorkResult(value, self._work(r["work"]))

    def _item(self, it):
        from graphql.error import GraphQLError
        from graphql.execution.incremental.incremental_executor import StreamItemValue
        from graphql.execution.incremental.work_queue import WorkResult

        return WorkResult(
            StreamItemValue(it["tag"], [GraphQLError("e")] if it["errs"] else None),
            self._work(it["work"]),
        )

    def _fn(self, t, mode, result):
        def fn():
            self.started.append(t)
            if mode == 0:
                return self._result(result)
            if mode == 1:
                raise RuntimeError("boom")
            fut = self.loop.create_future()
            self.task_fut[t] = fut
            if mode == 3:
                fut.set_result(self._result(result))
            elif mode == 4:
                fut.set_exception(RuntimeError("boom"))
            return fut

        return fn

    # -- stepping

    def quiesce(self):
        loop = self.loop
        for _ in range(10000):
            loop.call_soon(loop.stop)
            loop.run_forever()
            if not loop._ready:  # noqa: SLF001 (harness-owned loop)
                return
        raise RuntimeError("event loop does not quiesce")

    def enabled(self):
        """Moves the environment can make now."""
        acts = []
        for t, fut in self.task_fut.items():
            if not fut.done():
                acts.append(("task", t))
        for s, st in self.streams.items():
            f = st.queue.fut
            if f is not None and not f.done():
                acts.append(("stream", s))
        return acts

    def apply(self, ev):
        k = ev[0]
        if k == "ts":
            self.task_fut[ev[1]].set_result(self._result(ev[2]))
        elif k == "tf":
            self.task_fut[ev[1]].set_exception(RuntimeError("boom"))
        elif k == "si":
            self.streams[ev[1]].queue.fut.set_result(("items", [self._item(i) for i in ev[2]], bool(ev[3])))
        elif k == "ss":
            self.streams[ev[1]].queue.fut.set_result(("stop", None, False))
        elif k == "sf":
            self.streams[ev[1]].queue.fut.set_result(("fail", RuntimeError("boom"), False))
        else:
            raise ValueError(ev)

    def take_batches(self):
        new = self.batches[self.seen_batches :]
        self.seen_batches = len(self.batches)
        return new

    def close(self):
        try:
            if not self.collector.done():
                self.collector.cancel()
                self.quiesce()
            for fut in self.task_fut.values():
                if fut.done() and not fut.cancelled():
                    fut.exception()
        finally:
            self.loop.close()

    # -- canonical rendering (must equal the Lean driver's)

    def _gid(self, g):
        return g.gid

    def show_event(self, ev):
        from graphql.execution.incremental import work_queue as wqm

        nats = lambda xs: "[" + ",".join(str(x) for x in xs) + "]"  # noqa: E731
        if isinstance(ev, wqm.GroupValuesEvent):
            return f"GV {ev.group.gid} {nats([v.data['tag'] for v in ev.values])}"
        if isinstance(ev, wqm.GroupSuccessEvent):
            return f"GS {ev.group.gid} {nats([g.gid for g in ev.new_groups])} {nats([s.sid for s in ev.new_streams])}"
        if isinstance(ev, wqm.GroupFailureEvent):
            return f"GF {ev.group.gid}"
        if isinstance(ev, wqm.StreamValuesEvent):
            return (
                f"SV {ev.stream.sid} {nats([v.item for v in ev.values])} "
                f"{nats([g.gid for g in ev.new_groups])} {nats([s.sid for s in ev.new_streams])}"
            )
        if isinstance(ev, wqm.StreamSuccessEvent):
            return f"SS {ev.stream.sid}"
        if isinstance(ev, wqm.StreamFailureEvent):
            return f"SF {ev.stream.sid}"
        if isinstance(ev, wqm.WorkQueueTerminationEvent):
            return "TERM"
        return f"?{type(ev).__name__}"

    def show_batches(self, bs):
        return " ".join("(" + "; ".join(self.show_event(e) for e in b) + ")" for b in bs)


def nats(xs):
    return "[" + ",".join(str(x) for x in xs) + "]"


def show_payload(p):
    """`p` is an Initial/SubsequentIncrementalExecutionResult of a direct run."""
    pend = " ".join(
        f"{int(x.id)}@{nats([key_from_py(k) for k in x.path])}#{x.label if x.label is not None else '-'}"
        for x in (p.pending or [])
    )
    incs = []
    for e in getattr(p, "incremental", None) or []:
        if hasattr(e, "items"):
            incs.append(f"S{int(e.id)}=" + "[" + ",".join(str(i) for i in e.items) + "]")
        else:
            incs.append(f"D{int(e.id)}{nats([key_from_py(k) for k in (e.sub_path or [])])}={e.data['tag']}")
    comp = " ".join(f"{int(c.id)}" + ("!" if c.errors else "") for c in (getattr(p, "completed", None) or []))
    return "{p:" + pend + " i:" + " ".join(incs) + " c:" + comp + " n:" + ("1" if p.has_next else "0") + "}"


def run_case(case, chooser=None):
    """Run the implementation on `case`.  With `chooser`, the history is produced online:
    `chooser(world)` returns the next tick (list of events) or None to stop, and the case's
    "history" is overwritten with what was done.  Returns the canonical trace line."""
    w = World(case)
    try:
        w.quiesce()
        ticks = [w.show_batches(w.take_batches())]
        init = f"init {nats([g.gid for g in w.wq.initial_groups])} {nats([s.sid for s in w.wq.initial_streams])}"
        if chooser is not None:
            hist = []
            while True:
                tick = chooser(w)
                if not tick:
                    break
                hist.append(tick)
                for ev in tick:
                    w.apply(ev)
                w.quiesce()
                ticks.append(w.show_batches(w.take_batches()))
            case["history"] = hist
        else:
            for tick in case["history"]:
                for ev in tick:
                    w.apply(ev)
                w.quiesce()
                ticks.append(w.show_batches(w.take_batches()))
        payloads = [w.initial] + w.payloads
        pumps = sorted(s for s, st in w.streams.items() if st.queue.started)
        line = (
            init
            + " | "
            + " | ".join(ticks)
            + " || "
            + " ".join(show_payload(p) for p in payloads)
            + f" || started {nats(sorted(w.started))} pumps {nats(pumps)}"
        )
        return line, payloads, w.collector.done()
    finally:
        w.close()


# ------------------------------------------------------------------ generators


def gen_case(rng, max_groups=3, max_tasks=3, max_streams=2, max_items=2, wild=False):
    """A random work graph (no history).  Stream decls carry their scripted items in
    case["_items"][s] and how they end in case["_ending"][s]."""
    st = {"g": 0, "t": 0, "s": 0}
    groups, tasks, streams = [], [], []
    items, ending, outcome = {}, {}, {}
    gpath = {}

    def new_key():
        return rng.choice([1, 3, 5, 0, 2])

    def gen_work(depth, producer_groups, in_graph, item_level=False):
        ng = 0
        if st["g"] < max_groups:
            ng = rng.choice([0, 1, 1, 2] if depth else [1, 1, 2, 2, 3])
            ng = min(ng, max_groups - st["g"])
        new = []
        for _ in range(ng):
            g = st["g"]
            st["g"] += 1
            cands = [-1] + new + ([] if item_level else list(producer_groups))
            if wild and in_graph and rng.random() < 0.3:
                cands += in_graph
            parent = rng.choice(cands) if (depth or new) else -1
            if not depth and rng.random() < 0.5:
                parent = rng.choice([-1] + new)
            base = gpath.get(parent, [new_key()] if rng.random() < 0.5 else [])
            path = list(base) + ([new_key()] if parent >= 0 and rng.random() < 0.6 else [])
            gpath[g] = path
            groups.append([g, parent, path])
            new.append(g)
        avail = new + ([] if item_level else list(producer_groups))
        wt = []
        if avail and st["t"] < max_tasks:
            nt = rng.choice([1, 1, 2, 3] if not depth else [0, 1, 1, 2])
            nt = min(nt, max_tasks - st["t"])
            # make sure new groups tend to be non-empty
            for i in range(nt):
                t = st["t"]
                st["t"] += 1
                k = 1 if len(avail) == 1 or rng.random() < 0.6 else 2
                gs = rng.sample(avail, k)
                if i < len(new) and new[i] not in gs and rng.random() < 0.7:
                    gs[0] = new[i]
                    gs = list(dict.fromkeys(gs))
                if wild and rng.random() < 0.15:
                    gs = gs + [rng.choice(gs)] if rng.random() < 0.5 else gs + [max_groups + 5]
                mode = rng.choice([0, 0, 0, 0, 2, 2, 2, 2, 2, 3, 3, 1, 4])
                tasks.append([t, gs, mode, None])
                wt.append(t)
        ws = []
        if st["s"] < max_streams and rng.random() < (0.45 if not depth else 0.3):
            ns = min(rng.choice([1, 1, 2]), max_streams - st["s"])
            for _ in range(ns):
                s = st["s"]
                st["s"] += 1
                streams.append([s, [new_key()] + ([new_key()] if rng.random() < 0.3 else [])])
                ws.append(s)
        if rng.random() < 0.25:
            rng.shuffle(new)
        work = {"g": list(new), "t": wt, "s": ws}
        # results of the tasks (may nest further work)
        for t in wt:
            rec = tasks[t]
            gs = rec[1]
            vgroups = list(gs)
            others = [g for g in (new + list(producer_groups)) if g not in vgroups]
            if others and rng.random() < 0.3:
                vgroups.append(rng.choice(others))
            base = max((gpath.get(g, []) for g in gs), key=len)
            vpath = list(base) + ([new_key()] if rng.random() < 0.4 else [])
            nested = None
            if depth < 2 and rng.random() < (0.7 if depth == 0 else 0.4):
                nested = gen_work(depth + 1, [g for g in gs if g in gpath], in_graph + new)
            elif rng.random() < 0.1:
                nested = {"g": [], "t": [], "s": []}
            res = {"groups": vgroups, "path": vpath, "tag": 10 + t, "errs": int(rng.random() < 0.2), "work": nested}
            rec[3] = res
            outcome[t] = "ok" if rng.random() < 0.85 else "fail"
        for s in ws:
            n = rng.randint(0, max_items)
            its = []
            for i in range(n):
                nested = None
                if depth < 2 and rng.random() < 0.3:
                    nested = gen_work(depth + 1, [], in_graph + new, item_level=True)
                its.append({"idx": i, "tag": 50 + 10 * s + i, "errs": int(rng.random() < 0.15), "work": nested})
            items[s] = its
            ending[s] = "stop" if rng.random() < 0.7 else "fail"
        return work

    work = gen_work(0, [], [])
    if wild and rng.random() < 0.2:
        work = None
    return {
        "groups": groups,
        "tasks": tasks,
        "streams": streams,
        "work": work,
        "history": [],
        "_items": {str(k): v for k, v in items.items()},
        "_ending": {str(k): v for k, v in ending.items()},
        "_outcome": {str(k): v for k, v in outcome.items()},
    }


def moves(case, world, delivered):
    """All single environment moves enabled in `world` (given what the script still holds)."""
    out = []
    for kind, x in world.enabled():
        if kind == "task":
            rec = case["tasks"][x]
            if case["_outcome"].get(str(x), "ok") == "ok" and rec[3] is not None:
                out.append(["ts", x, rec[3]])
            else:
                out.append(["tf", x])
        else:
            its = case["_items"].get(str(x), [])
            d = delivered.get(x, 0)
            rest = its[d:]
            if rest:
                out.append(["si", x, rest[:1], False])
                if len(rest) == 1:
                    out.append(["si", x, rest[:1], True])
                if len(rest) >= 2:
                    out.append(["si", x, rest[:2], False])
                    if len(rest) == 2:
                        out.append(["si", x, rest[:2], True])
            else:
                out.append(["ss", x] if case["_ending"].get(str(x), "stop") == "stop" else ["sf", x])
    return out


def note_delivery(ev, delivered):
    if ev[0] == "si":
        delivered[ev[1]] = delivered.get(ev[1], 0) + len(ev[2])


def random_chooser(case, rng, max_ticks=40):
    delivered = {}
    state = {"n": 0}

    def choose(world):
        if state["n"] >= max_ticks:
            return None
        state["n"] += 1
        ms = moves(case, world, delivered)
        if not ms:
            return None
        k = 1 if rng.random() < 0.65 else rng.randint(1, 3)
        tick = []
        used = set()
        rng.shuffle(ms)
        for m in ms:
            key = (m[0][0], m[1])  # one move per task / stream per tick
            if key in used:
                continue
            used.add(key)
            tick.append(m)
            note_delivery(m, delivered)
            if len(tick) >= k:
                break
        return tick

    return choose


def scripted_chooser(prefix, case, record):
    """Replay `prefix` (list of ticks), then stop; `record` receives the moves enabled at
    the end (for exhaustive enumeration)."""
    delivered = {}
    state = {"i": 0}

    def choose(world):
        i = state["i"]
        if i < len(prefix):
            state["i"] += 1
            for m in prefix[i]:
                note_delivery(m, delivered)
            return prefix[i]
        record.extend(moves(case, world, delivered))
        return None

    return choose
