"""C12 — T1 extraction: regenerate lean/Gql/Generated/ValidationTables.lean from the working tree.

Read with Python's `ast` module only (nothing is imported from the repository, so a broken tree still
extracts):
  language/ast.py               QUERY_DOCUMENT_KEYS
  validation/validate.py        which key map each `visit(...)` call receives, the comprehension that
                                builds `query_document_keys_to_validate`, the default of `max_errors`
  validation/validation_context.py   the key map of the nested `visit` in `get_variable_usages`
  validation/specified_rules.py ordered rule names of specified_rules / specified_sdl_rules / recommended_rules
  utilities/type_info.py        per `enter_<kind>` / `leave_<kind>` of TypeInfo: stacks appended to /
                                popped, registers assigned / reset to None
"""
from __future__ import annotations

import ast
from pathlib import Path


def _module(path: Path) -> ast.Module:
    return ast.parse(path.read_text())


def _const_tuple(node):
    if isinstance(node, (ast.Tuple, ast.List)):
        return [e.value for e in node.elts if isinstance(e, ast.Constant)]
    raise ValueError("not a tuple of constants")


def query_document_keys(repo: Path):
    mod = _module(repo / "src/graphql/language/ast.py")
    for st in mod.body:
        tgt = None
        if isinstance(st, ast.AnnAssign) and isinstance(st.target, ast.Name):
            tgt, val = st.target.id, st.value
        elif isinstance(st, ast.Assign) and len(st.targets) == 1 and isinstance(st.targets[0], ast.Name):
            tgt, val = st.targets[0].id, st.value
        if tgt == "QUERY_DOCUMENT_KEYS" and isinstance(val, ast.Dict):
            return [(k.value, _const_tuple(v)) for k, v in zip(val.keys, val.values)]
    raise ValueError("QUERY_DOCUMENT_KEYS not found")


def _rule_tuple(mod, name, env):
    for st in mod.body:
        tgt = val = None
        if isinstance(st, ast.AnnAssign) and isinstance(st.target, ast.Name):
            tgt, val = st.target.id, st.value
        elif isinstance(st, ast.Assign) and len(st.targets) == 1 and isinstance(st.targets[0], ast.Name):
            tgt, val = st.targets[0].id, st.value
        if tgt == name:
            out = []
            for e in val.elts:
                if isinstance(e, ast.Starred):
                    out += env[e.value.id]
                else:
                    out.append(e.id)
            return out
    raise ValueError(f"{name} not found")


def rule_lists(repo: Path):
    mod = _module(repo / "src/graphql/validation/specified_rules.py")
    env = {}
    env["recommended_rules"] = _rule_tuple(mod, "recommended_rules", env)
    env["specified_rules"] = _rule_tuple(mod, "specified_rules", env)
    env["specified_sdl_rules"] = _rule_tuple(mod, "specified_sdl_rules", env)
    return env


def _visit_calls(fn: ast.AST):
    """[(number of positional args, name of the 3rd arg or None)] of every `visit(...)` call in fn."""
    out = []
    for n in ast.walk(fn):
        if isinstance(n, ast.Call) and isinstance(n.func, ast.Name) and n.func.id == "visit":
            third = None
            if len(n.args) >= 3:
                third = n.args[2].id if isinstance(n.args[2], ast.Name) else "<expr>"
            for kw in n.keywords:
                if kw.arg == "visitor_keys":
                    third = kw.value.id if isinstance(kw.value, ast.Name) else "<expr>"
            out.append(third)
    return out


def validate_facts(repo: Path):
    mod = _module(repo / "src/graphql/validation/validate.py")
    facts = {"excluded": [], "validate_keys": None, "validate_sdl_keys": None, "max_errors_default": None,
             "filtered_from": None}
    for st in mod.body:
        tgt = val = None
        if isinstance(st, ast.AnnAssign) and isinstance(st.target, ast.Name):
            tgt, val = st.target.id, st.value
        elif isinstance(st, ast.Assign) and len(st.targets) == 1 and isinstance(st.targets[0], ast.Name):
            tgt, val = st.targets[0].id, st.value
        if tgt == "query_document_keys_to_validate" and isinstance(val, ast.DictComp):
            # {kind: tuple(key for key in keys if key != "<excluded>") for kind, keys in QUERY_DOCUMENT_KEYS.items()}
            src = val.generators[0].iter
            if isinstance(src, ast.Call) and isinstance(src.func, ast.Attribute) and isinstance(src.func.value, ast.Name):
                facts["filtered_from"] = src.func.value.id
            for n in ast.walk(val.value):
                if isinstance(n, ast.Compare) and len(n.ops) == 1 and isinstance(n.ops[0], ast.NotEq):
                    for c in [n.left, *n.comparators]:
                        if isinstance(c, ast.Constant) and isinstance(c.value, str):
                            facts["excluded"].append(c.value)
                if isinstance(n, ast.Compare) and len(n.ops) == 1 and isinstance(n.ops[0], ast.NotIn):
                    for c in n.comparators:
                        facts["excluded"] += _const_tuple(c)
        if isinstance(st, ast.FunctionDef) and st.name == "validate":
            calls = _visit_calls(st)
            facts["validate_keys"] = calls[0] if len(calls) == 1 else "<ambiguous>"
            for n in ast.walk(st):
                # if max_errors is None: max_errors = 100
                if isinstance(n, ast.If) and isinstance(n.test, ast.Compare) and isinstance(n.test.left, ast.Name) \
                        and n.test.left.id == "max_errors" and isinstance(n.test.ops[0], ast.Is):
                    for b in n.body:
                        if isinstance(b, ast.Assign) and isinstance(b.value, ast.Constant):
                            facts["max_errors_default"] = b.value.value
        if isinstance(st, ast.FunctionDef) and st.name == "validate_sdl":
            calls = _visit_calls(st)
            facts["validate_sdl_keys"] = (calls[0] or "<default>") if len(calls) == 1 else "<ambiguous>"
    if facts["validate_keys"] is None:
        facts["validate_keys"] = "<default>"
    ctxmod = _module(repo / "src/graphql/validation/validation_context.py")
    nested = "<none>"
    for n in ast.walk(ctxmod):
        if isinstance(n, ast.FunctionDef) and n.name == "get_variable_usages":
            calls = _visit_calls(n)
            nested = (calls[0] or "<default>") if len(calls) == 1 else "<ambiguous>"
    facts["nested_keys"] = nested
    return facts


def type_info_table(repo: Path):
    """rows (kind, pushes, sets, pops, resets) + all stack names (from __init__, in order)."""
    mod = _module(repo / "src/graphql/utilities/type_info.py")
    cls = next(n for n in mod.body if isinstance(n, ast.ClassDef) and n.name == "TypeInfo")
    methods = {}
    aliases = {}
    stack_names = []
    for st in cls.body:
        if isinstance(st, ast.FunctionDef):
            methods[st.name] = st
            if st.name == "__init__":
                for n in ast.walk(st):
                    tgt = None
                    if isinstance(n, ast.AnnAssign):
                        tgt, val = n.target, n.value
                    elif isinstance(n, ast.Assign) and len(n.targets) == 1:
                        tgt, val = n.targets[0], n.value
                    if tgt is not None and isinstance(tgt, ast.Attribute) and isinstance(tgt.value, ast.Name) \
                            and tgt.value.id == "self" and isinstance(val, ast.List) and not val.elts:
                        stack_names.append(tgt.attr)
        elif isinstance(st, ast.Assign) and len(st.targets) == 1 and isinstance(st.targets[0], ast.Name) and isinstance(st.value, ast.Name):
            aliases[st.targets[0].id] = st.value.id

    def resolve(name):
        seen = set()
        while name in aliases and name not in seen:
            seen.add(name)
            name = aliases[name]
        return methods.get(name)

    def effects(fn):
        pushes, sets, pops, resets = [], [], [], []
        for n in ast.walk(fn):
            if isinstance(n, ast.Call) and isinstance(n.func, ast.Attribute) and n.func.attr in ("append", "pop") \
                    and isinstance(n.func.value, ast.Attribute) and isinstance(n.func.value.value, ast.Name) \
                    and n.func.value.value.id == "self":
                (pushes if n.func.attr == "append" else pops).append((n.lineno, n.col_offset, n.func.value.attr))
            if isinstance(n, ast.Delete):
                for t in n.targets:
                    if isinstance(t, ast.Subscript) and isinstance(t.value, ast.Attribute) and isinstance(t.value.value, ast.Name) \
                            and t.value.value.id == "self":
                        pops.append((n.lineno, n.col_offset, t.value.attr))
            if isinstance(n, ast.Assign):
                for t in n.targets:
                    if isinstance(t, ast.Attribute) and isinstance(t.value, ast.Name) and t.value.id == "self":
                        is_none = isinstance(n.value, ast.Constant) and n.value.value is None
                        # `lambda _name: None` is the "no signatures" constant
                        if isinstance(n.value, ast.Lambda) and isinstance(n.value.body, ast.Constant) and n.value.body.value is None:
                            is_none = True
                        (resets if is_none else sets).append((n.lineno, n.col_offset, t.attr))
        srt = lambda xs: [x[2] for x in sorted(xs)]  # noqa: E731
        return srt(pushes), srt(sets), srt(pops), srt(resets)

    names = set(methods) | set(aliases)
    kinds = sorted({n[6:] for n in names if n.startswith("enter_")} | {n[6:] for n in names if n.startswith("leave_")})
    rows = []
    for k in kinds:
        e = resolve("enter_" + k)
        l = resolve("leave_" + k)
        pu, se, _, re_e = effects(e) if e else ([], [], [], [])
        _, se_l, po, re_l = effects(l) if l else ([], [], [], [])
        # a register assigned a non-None value on leave, or reset on enter, is recorded as it is
        rows.append((k, pu, se + ["leave:" + s for s in se_l], po, re_l + ["enter:" + s for s in re_e]))
    return rows, stack_names


def _lstr(xs):
    return "[" + ", ".join('"' + x + '"' for x in xs) + "]"


def render(repo: Path) -> str:
    keys = query_document_keys(repo)
    rules = rule_lists(repo)
    vf = validate_facts(repo)
    rows, stack_names = type_info_table(repo)
    out = []
    out.append("/- GENERATED by tools/c12_extract.py from the working tree of the repository — do not edit. -/")
    out.append("import Gql.Validation.Framework")
    out.append("namespace Gql.Generated")
    out.append("open Gql.Validation")
    out.append("")
    out.append("/-- `QUERY_DOCUMENT_KEYS` of language/ast.py (kind ↦ traversed fields, in order). -/")
    out.append("def queryDocumentKeys : List (String × List String) := [")
    out.append(",\n".join(f'  ("{k}", {_lstr(v)})' for k, v in keys))
    out.append("]")
    out.append("")
    out.append("/-- The strings `query_document_keys_to_validate` filters out of every key tuple (validate.py). -/")
    out.append(f"def validateExcludedKeys : List String := {_lstr(vf['excluded'])}")
    out.append("/-- The map that comprehension filters. -/")
    out.append(f'def validateFilteredFrom : String := "{vf["filtered_from"]}"')
    out.append("/-- Third argument of the `visit` call in `validate()` (`<default>`: none, i.e. QUERY_DOCUMENT_KEYS). -/")
    out.append(f'def validateVisitKeys : String := "{vf["validate_keys"]}"')
    out.append("/-- … in `validate_sdl()`. -/")
    out.append(f'def validateSdlVisitKeys : String := "{vf["validate_sdl_keys"]}"')
    out.append("/-- … of the nested `visit` in `ValidationContext.get_variable_usages`. -/")
    out.append(f'def nestedUsagesVisitKeys : String := "{vf["nested_keys"]}"')
    out.append("/-- `if max_errors is None: max_errors = …` in `validate()`. -/")
    if not isinstance(vf["max_errors_default"], int):
        raise ValueError("validate(): `if max_errors is None: max_errors = <int>` not found (the default limit is a parameter of limit_prefix)")
    out.append(f"def maxErrorsDefault : Nat := {int(vf['max_errors_default'])}")
    out.append("")
    for nm in ("recommended_rules", "specified_rules", "specified_sdl_rules"):
        lean = {"recommended_rules": "recommendedRules", "specified_rules": "specifiedRules", "specified_sdl_rules": "specifiedSdlRules"}[nm]
        out.append(f"/-- `{nm}` of validation/specified_rules.py, in order. -/")
        out.append(f"def {lean} : List String := [")
        out.append(",\n".join(f'  "{r}"' for r in rules[nm]))
        out.append("]")
        out.append("")
    out.append("/-- The list attributes `TypeInfo.__init__` creates empty (the stacks), in order. -/")
    out.append(f"def tiStackNames : List String := {_lstr(stack_names)}")
    out.append("")
    out.append("/-- Per `enter_<kind>`/`leave_<kind>` pair of `TypeInfo`: stacks appended to, registers assigned,")
    out.append("stacks popped (`del s[-1:]` / `.pop()`), registers reset to `None`. -/")
    out.append("def tiTable : TITable := [")
    out.append(",\n".join(f'  ⟨"{k}", {_lstr(pu)}, {_lstr(se)}, {_lstr(po)}, {_lstr(re)}⟩' for k, pu, se, po, re in rows))
    out.append("]")
    out.append("")
    out.append("end Gql.Generated")
    return "\n".join(out) + "\n"


def extract(repo, lean):
    path = Path(lean) / "Gql" / "Generated" / "ValidationTables.lean"
    new = render(Path(repo))
    old = path.read_text() if path.exists() else None
    if old != new:
        path.parent.mkdir(parents=True, exist_ok=True)
        path.write_text(new)
        return [str(path.relative_to(lean))]
    return []
