"""C07 harness: subscription scenarios run against the implementation on a stepped event loop.

Everything here observes the implementation from the outside: the schema's `subscribe`
resolvers hand out harness-controlled source iterators, the consumer is the harness, and the
event loop is advanced with `await sleep(0)` until `loop._ready` is empty (no timers are used
anywhere, so "ready queue empty" means nothing can run until the harness acts).

A scenario is a JSON-serialisable dict (see `gen_scenario`); `run_scenario` returns a JSON-
serialisable observation.  All generation is seeded.
"""
from __future__ import annotations

import asyncio
import json
import random

MAX_ROUNDS = 400  # watchdog per settle: loop iterations without reaching idle => hang

# ----------------------------------------------------------------------------- payload codec


def decode(v):
    """JSON payload -> python value (markers for values JSON cannot carry)."""
    if isinstance(v, dict):
        if "$exc" in v and len(v) == 1:
            return ValueError(v["$exc"])
        return {k: decode(x) for k, x in v.items()}
    if isinstance(v, list):
        return [decode(x) for x in v]
    return v


def _get(src, key):
    return src.get(key) if isinstance(src, dict) else None


def _delay(src):
    d = _get(src, "d")
    return d if isinstance(d, int) and not isinstance(d, bool) and 0 <= d <= 6 else 0


# ----------------------------------------------------------------------------- schema

_SCHEMA = None


def build_schema():
    global _SCHEMA
    if _SCHEMA is not None:
        return _SCHEMA
    from graphql.type import (
        GraphQLArgument,
        GraphQLBoolean,
        GraphQLField,
        GraphQLInt,
        GraphQLList,
        GraphQLNonNull,
        GraphQLObjectType,
        GraphQLSchema,
        GraphQLString,
    )

    def boom(src, _info):
        v = _get(src, "boom")
        if v:
            raise RuntimeError(f"boom {v}")
        return "calm"

    async def slow(src, _info):
        for _ in range(_delay(src)):
            await asyncio.sleep(0)
        return _get(src, "name")

    async def slow_nn(src, _info):
        for _ in range(_delay(src)):
            await asyncio.sleep(0)
        return _get(src, "id")

    async def slow_boom(src, _info):
        for _ in range(_delay(src)):
            await asyncio.sleep(0)
        v = _get(src, "boom")
        if v:
            raise RuntimeError(f"slow boom {v}")
        return "calm"

    def agen(src, _info):
        tags = _get(src, "nums")

        async def it():
            for t in tags if isinstance(tags, list) else []:
                await asyncio.sleep(0)
                if isinstance(t, Exception):
                    raise t
                yield t

        return it()

    def root_tag(info):
        """Everything a resolver can learn from `info` about the execution it runs in."""
        try:
            root = json.dumps(info.root_value, sort_keys=True, default=repr)
        except Exception:  # noqa: BLE001
            root = repr(type(info.root_value))
        op = info.operation.name.value if info.operation.name else "-"
        return f"{root[:80]}|{sorted(getattr(info.variable_values, "coerced", info.variable_values).items())}|{op}|{info.path.as_list()}|{type(info.context).__name__}"

    def info_tag(_src, info):
        return root_tag(info)

    from graphql.type import GraphQLUnionType

    a_type = GraphQLObjectType("A", {"a": GraphQLField(GraphQLString, resolve=info_tag)})
    b_type = GraphQLObjectType("B", {"b": GraphQLField(GraphQLString, resolve=info_tag)})

    def resolve_ab(_value, info, _type):
        # the concrete type depends on the root value of the execution
        return "A" if sum(map(ord, root_tag(info).split("|")[0])) % 2 else "B"

    ab_type = GraphQLUnionType("AB", [a_type, b_type], resolve_type=resolve_ab)

    item = GraphQLObjectType(
        "Item",
        lambda: {
            "infoTag": GraphQLField(GraphQLString, resolve=info_tag),
            "thing": GraphQLField(ab_type, resolve=lambda *_: {}),
            "id": GraphQLField(GraphQLInt),
            "name": GraphQLField(GraphQLString),
            "nn": GraphQLField(GraphQLNonNull(GraphQLString)),
            "boom": GraphQLField(GraphQLString, resolve=boom),
            "boomNN": GraphQLField(GraphQLNonNull(GraphQLString), resolve=boom),
            "slow": GraphQLField(GraphQLString, resolve=slow),
            "slowNN": GraphQLField(GraphQLNonNull(GraphQLInt), resolve=slow_nn),
            "slowBoom": GraphQLField(GraphQLString, resolve=slow_boom),
            "tags": GraphQLField(GraphQLList(GraphQLNonNull(GraphQLString))),
            "nums": GraphQLField(GraphQLList(GraphQLInt), resolve=agen),
            "kids": GraphQLField(GraphQLList(item)),
            "kid": GraphQLField(item),
            "strictKid": GraphQLField(GraphQLNonNull(item)),
            "flag": GraphQLField(GraphQLBoolean),
        },
    )

    def make_source(_root, info, **args):
        return info.context.make_source(info, args)

    def echo(_payload, _info, arg=None, req=None):
        return arg

    def whole(payload, _info):
        return payload

    async def whole_slow(payload, _info):
        for _ in range(_delay(payload)):
            await asyncio.sleep(0)
        return payload

    sub = GraphQLObjectType(
        "Subscription",
        {
            "ev": GraphQLField(
                item,
                args={
                    "arg": GraphQLArgument(GraphQLInt),
                    "req": GraphQLArgument(GraphQLNonNull(GraphQLInt), default_value=1),
                },
                subscribe=make_source,
            ),
            "evNN": GraphQLField(GraphQLNonNull(item), subscribe=make_source),
            "num": GraphQLField(GraphQLInt, subscribe=make_source),
            "echo": GraphQLField(
                GraphQLInt,
                args={"arg": GraphQLArgument(GraphQLInt), "req": GraphQLArgument(GraphQLNonNull(GraphQLInt))},
                resolve=echo,
                subscribe=make_source,
            ),
            "whole": GraphQLField(item, resolve=whole, subscribe=make_source),
            "wholeSlow": GraphQLField(item, resolve=whole_slow, subscribe=make_source),
        },
    )
    query = GraphQLObjectType("Query", {"dummy": GraphQLField(GraphQLString)})
    _SCHEMA = (
        GraphQLSchema(query=query, subscription=sub),
        GraphQLSchema(query=query),  # no subscription type
    )
    return _SCHEMA


# ----------------------------------------------------------------------------- generators

ITEM_LEAVES = ["id", "name", "nn", "boom", "boomNN", "slow", "slowNN", "slowBoom", "tags", "nums", "flag", "infoTag",
               "infoTag", "thing { ... on A { a } ... on B { b } __typename }"]
ITEM_OBJS = ["kids", "kid", "strictKid"]


def gen_item_selection(rng, depth):
    n = rng.randint(1, 4 if depth else 3)
    out = []
    for _ in range(n):
        r = rng.random()
        if depth < 2 and r < 0.22:
            f = rng.choice(ITEM_OBJS)
            sel = f"{f} {gen_item_selection(rng, depth + 1)}"
        elif r < 0.30:
            sel = "... on Item " + gen_item_selection(rng, depth + 1) if depth < 2 else "id"
        elif r < 0.36:
            sel = "...F"
        else:
            sel = rng.choice(ITEM_LEAVES)
        if rng.random() < 0.12 and not sel.startswith("..."):
            sel = f"a{rng.randint(0, 3)}: {sel}"
        if rng.random() < 0.10:
            d = rng.choice(["@skip(if: $b)", "@include(if: $b)", "@include(if: true)", "@skip(if: true)"])
            if sel.startswith("...F"):
                sel = f"...F {d}"
            elif sel.startswith("... on Item"):
                sel = sel.replace("... on Item", f"... on Item {d}", 1)
            elif " {" in sel:
                head, rest = sel.split(" {", 1)
                sel = f"{head} {d} {{{rest}"
            else:
                sel = f"{sel} {d}"
        out.append(sel)
    return "{ " + " ".join(out) + " }"


def gen_document(rng, first=None):
    """(document text, variables, first root field name)."""
    first = first or rng.choices(["ev", "evNN", "num", "echo", "whole", "wholeSlow"], [8, 3, 1, 1, 3, 2])[0]

    def root_field(name):
        if name in ("ev", "evNN", "whole", "wholeSlow"):
            args = ""
            if name == "ev" and rng.random() < 0.4:
                args = rng.choice(["(arg: 1)", "(arg: $a)", "(req: 2)", "(arg: $a, req: $c)"])
            return f"{name}{args} {gen_item_selection(rng, 0)}"
        if name == "echo":
            return rng.choice(["echo(arg: 7, req: 1)", "echo(arg: $a, req: $c)", "echo(req: 0)"])
        return name

    fields = [root_field(first)]
    extra = None
    if rng.random() < 0.2:  # further root fields (not valid per validation, executable all the same)
        extra = rng.choice(["num", "whole", "ev", "echo"])
        f = root_field(extra)
        if extra == first:
            f = "x: " + f
        fields.append(f)
    if rng.random() < 0.3:
        # an aliased root field: the source is the field's (not the response key's) - also when the alias is the
        # name of ANOTHER subscription field
        alias = rng.choice(["msg", "msg", "num", "whole", "ev", "echo", "evNN"])
        if alias not in (first, extra, "x"):
            fields[0] = f"{alias}: {fields[0]}"
    if rng.random() < 0.08:
        fields.insert(rng.randint(0, 1), "__typename")
        if fields[0] == "__typename":
            # the first collected root field decides the source: keep it a real field
            fields[0], fields[1] = fields[1], fields[0]
    doc = "subscription S($a: Int, $b: Boolean = true, $c: Int! = 3) { " + " ".join(fields) + " }"
    doc += " fragment F on Item { id nn fk: kid { name boom } }"
    variables = {}
    if rng.random() < 0.5:
        variables["a"] = rng.choice([None, 0, 5])
    if rng.random() < 0.5:
        variables["b"] = rng.choice([True, False])
    if rng.random() < 0.2:
        variables["c"] = rng.randint(0, 9)
    return doc, variables, first


def gen_item(rng, depth=0):
    r = rng.random()
    if r < 0.06:
        return None
    if r < 0.09:
        return rng.choice([5, "str", [], {"$exc": "item is an error"}])
    it = {}
    if rng.random() < 0.85:
        it["id"] = rng.choice([rng.randint(0, 99), rng.randint(0, 99), None, "abc", 2**40, True])
    if rng.random() < 0.85:
        it["name"] = rng.choice([f"n{rng.randint(0, 50)}", None, 12, {"$exc": "name failed"}])
    if rng.random() < 0.8:
        it["nn"] = rng.choice(["x", "y", "z", "w", None])
    if rng.random() < 0.25:
        it["boom"] = rng.randint(1, 9)
    if rng.random() < 0.7:
        it["d"] = rng.randint(0, 4)
    if rng.random() < 0.4:
        it["tags"] = [rng.choice(["t", "u", None, "v", "v"]) for _ in range(rng.randint(0, 3))] if rng.random() < 0.9 else "notalist"
    if rng.random() < 0.4:
        it["nums"] = [rng.choice([1, 2, None, "q", {"$exc": "num failed"}, 3, 4]) for _ in range(rng.randint(0, 3))]
    if rng.random() < 0.3:
        it["flag"] = rng.choice([True, False, None, 0])
    if depth < 2:
        if rng.random() < 0.5:
            it["kid"] = gen_item(rng, depth + 1)
        if rng.random() < 0.4:
            it["strictKid"] = gen_item(rng, depth + 1)
        if rng.random() < 0.4:
            it["kids"] = [gen_item(rng, depth + 1) for _ in range(rng.randint(0, 3))]
    return it


def gen_payload(rng, first):
    r = rng.random()
    if r < 0.04:
        return rng.choice([None, 7, "s", []])
    if r < 0.10:
        # the event itself is an exception OBJECT (a value like any other: it is the root value of that execution)
        return {"$exc": "the event is an exception instance"}
    if first in ("whole", "wholeSlow"):
        p = gen_item(rng)
        if isinstance(p, dict):
            p["num"] = rng.randint(0, 9)
        return p
    p = {}
    it = gen_item(rng)
    if first == "evNN":
        p["evNN"] = it
    else:
        p["ev"] = it
    if rng.random() < 0.5:
        p["num"] = rng.choice([rng.randint(0, 99), None, "NaN", 3.5])
    if rng.random() < 0.3:
        p["d"] = rng.randint(0, 3)
    return p


CREATE_FAILS = [
    "raises", "raises_async", "raises_gql", "returns_error", "returns_error_async",
    "not_iterable", "not_iterable_async", "sync_iterable", "unknown_field", "arg_literal",
    "arg_missing_var", "arg_required_null", "var_error", "no_subscription_type", "no_operation",
    "all_skipped",
]
SOURCE_KINDS = ["queue", "queue_noaclose", "agen", "agen_async_resolver", "queue_async_resolver"]


def gen_scenario(rng, max_events, tag=""):
    """One scenario.  ~22 % creation failures, the rest working sources ending or raising."""
    sc = {"tag": tag}
    doc, variables, first = gen_document(rng)
    sc.update(doc=doc, variables=variables, first=first)
    if rng.random() < 0.22:
        kind = rng.choice(CREATE_FAILS)
        sc["create"] = kind
        if kind == "unknown_field":
            sc["doc"] = "subscription S { nosuch { id } }"
            sc["variables"] = {}
        elif kind == "arg_literal":
            sc["doc"] = 'subscription S { ev(arg: "str") { id } }'
            sc["variables"] = {}
        elif kind == "arg_missing_var":
            sc["doc"] = "subscription S($r: Int) { ev(req: $r) { id } }"
            sc["variables"] = {"r": None}
        elif kind == "arg_required_null":
            sc["doc"] = "subscription S { echo(arg: 1) }"
            sc["variables"] = {}
        elif kind == "var_error":
            sc["doc"] = "subscription S($a: Int, $z: Boolean!) { ev(arg: $a) { id } }"
            sc["variables"], sc["n_var_errors"] = rng.choice(
                [({"a": "meow", "z": True}, 1), ({"a": 1}, 1), ({"a": [], "z": "no"}, 2)]
            )
        elif kind == "all_skipped":
            sc["doc"] = rng.choice(
                [
                    "subscription S($b: Boolean = true) { ev @skip(if: $b) { id } }",
                    "subscription S { ... @include(if: false) { ev { id } } }",
                    "subscription S { ev @skip(if: true) { id } num @include(if: false) }",
                ]
            )
            sc["variables"] = {}
        elif kind == "no_operation":
            sc["doc"] = "fragment F on Item { id }"
            sc["variables"] = {}
        elif kind == "no_subscription_type":
            sc["doc"] = "subscription S { ev { id } }"  # that schema has no Int/Boolean for variables
            sc["variables"] = {}
        sc["payloads"], sc["term"], sc["plan"], sc["src"] = [], "end", [], "queue"
        return sc
    sc["create"] = "ok"
    n = rng.choice([0, 1, 2, 3]) if rng.random() < 0.35 else rng.randint(0, max_events)
    sc["payloads"] = [gen_payload(rng, first) for _ in range(n)]
    if rng.random() < 0.25 and n:  # repeated payloads: equal responses must still come one per event
        j = rng.randrange(n)
        sc["payloads"][rng.randrange(n)] = sc["payloads"][j]
    sc["term"] = "raise" if rng.random() < 0.45 else "end"
    sc["src"] = rng.choice(SOURCE_KINDS)
    sc["aclose_returns"] = rng.choice([None, True, "closed", 1])
    # plan: wishes applied when legal (see run_scenario); drained afterwards
    style = rng.choice(["producer_first", "consumer_first", "lockstep", "random", "random", "bursty"])
    plan = []
    total = n + 1
    if style == "producer_first":
        plan = [["push", None]] * total + [["pull", None]] * (total + 1)
    elif style == "consumer_first":
        for _ in range(total):
            plan += [["pull", rng.choice([None, 0, 1, 2])], ["push", rng.choice([None, 0, 1])]]
    elif style == "lockstep":
        for _ in range(total):
            plan += [["push", rng.choice([None, 0, 1])], ["pull", rng.choice([None, 0, 1, 2, 3])]]
    elif style == "bursty":
        left = total
        while left > 0:
            b = rng.randint(1, 4)
            plan += [["push", rng.choice([0, 0, 1, None])] for _ in range(min(b, left))]
            left -= b
            plan += [["pull", rng.choice([0, 1, 2, None])] for _ in range(rng.randint(1, 4))]
    else:
        for _ in range(3 * total + 2):
            plan.append([rng.choice(["push", "pull", "pull", "tick"]), rng.choice([None, 0, 1, 2, 3, 5])])
    if rng.random() < 0.15:
        plan.insert(rng.randint(0, len(plan)), ["close", None])
    sc["plan"] = plan
    return sc


# ----------------------------------------------------------------------------- sources


class SourceExc(Exception):
    """The exception the harness source raises mid-stream."""


class QueueSource:
    """Async iterator fed by the harness; `__anext__` on an empty queue blocks until a push."""

    def __init__(self, items):
        self.pending = list(items)  # ("ev", payload) | ("stop",) | ("fail", exc)
        self.queue = []
        self.waiter = None
        self.acloses = 0
        self.anexts = 0

    def push(self):
        if not self.pending:
            return False
        self.queue.append(self.pending.pop(0))
        if self.waiter is not None and not self.waiter.done():
            self.waiter.set_result(None)
        return True

    def __aiter__(self):
        return self

    async def __anext__(self):
        self.anexts += 1
        while not self.queue:
            self.waiter = asyncio.get_running_loop().create_future()
            await self.waiter
            self.waiter = None
        item = self.queue.pop(0)
        if item[0] == "ev":
            return item[1]
        if item[0] == "stop":
            raise StopAsyncIteration
        raise item[1]

    aclose_returns = None

    async def aclose(self):
        self.acloses += 1
        return self.aclose_returns  # whatever a custom iterator's aclose() returns must not matter


class QueueSourceNoAclose:
    """The same without an `aclose` method (plain AsyncIterator protocol)."""

    def __init__(self, items):
        self._q = QueueSource(items)
        self.pending = self._q.pending

    acloses = 0

    def push(self):
        return self._q.push()

    def __aiter__(self):
        return self

    def __anext__(self):
        return self._q.__anext__()


class Ctx:
    """context_value: hands the scenario's source (or its failure) to the subscribe resolver."""

    def __init__(self, sc, items):
        self.sc = sc
        self.items = items
        self.source = None
        self.calls = 0

    def make_source(self, info, _args):
        self.calls += 1
        create = self.sc["create"]
        kind = self.sc.get("src", "queue")
        if create == "raises":
            raise RuntimeError("subscribe resolver failed")
        if create == "raises_gql":
            from graphql.error import GraphQLError

            raise GraphQLError("subscribe resolver failed (GraphQLError)")
        if create == "raises_async":

            async def fail():
                await asyncio.sleep(0)
                raise RuntimeError("subscribe resolver failed (async)")

            return fail()
        if create == "returns_error":
            return TypeError("returned error")
        if create == "returns_error_async":

            async def ret():
                await asyncio.sleep(0)
                return TypeError("returned error (async)")

            return ret()
        if create == "not_iterable":
            return "not an iterator"
        if create == "not_iterable_async":

            async def ret2():
                return 17

            return ret2()
        if create == "sync_iterable":
            return iter([1, 2, 3])
        # working source
        if kind in ("queue", "queue_async_resolver"):
            self.source = QueueSource(self.items)
            self.source.aclose_returns = self.sc.get("aclose_returns")
            out = self.source
        elif kind == "queue_noaclose":
            self.source = QueueSourceNoAclose(self.items)
            out = self.source
        else:
            q = QueueSource(self.items)
            self.source = q

            async def gen():
                while True:
                    try:
                        v = await q.__anext__()
                    except StopAsyncIteration:
                        return
                    yield v

            out = gen()
        if kind.endswith("async_resolver"):

            async def later():
                await asyncio.sleep(0)
                return out

            return later()
        return out


# ----------------------------------------------------------------------------- canonical forms


def canon_result(res):
    """ExecutionResult -> comparable JSON text (data and formatted errors, both ordered)."""
    errs = None
    if res.errors is not None:
        errs = []
        for e in res.errors:
            f = e.formatted
            errs.append(
                {
                    "message": f.get("message"),
                    "path": f.get("path"),
                    "locations": f.get("locations"),
                }
            )
    return json.dumps({"data": res.data, "errors": errs}, sort_keys=False, default=repr)


class Hang(Exception):
    pass


async def settle(loop, rounds=None):
    """Let the loop run: `rounds` iterations, or (None) until nothing is ready any more."""
    if rounds is not None:
        for _ in range(rounds):
            await asyncio.sleep(0)
        return
    for _ in range(MAX_ROUNDS):
        await asyncio.sleep(0)
        if not loop._ready:  # noqa: SLF001
            await asyncio.sleep(0)
            if not loop._ready:  # noqa: SLF001
                return
    raise Hang


# ----------------------------------------------------------------------------- scenario runner


async def _run(sc, loop):
    from graphql import parse
    from graphql.execution import ExecutionResult, execute, subscribe
    from graphql.execution.executor_throwing_on_incremental import ExecutorThrowingOnIncremental

    schema, schema_nosub = build_schema()
    obs = {"refs": [], "outcomes": [], "ops": [], "kind": None}
    payloads = [decode(p) for p in sc["payloads"]]
    exc = SourceExc("source failed")
    items = [("ev", p) for p in payloads] + [("fail", exc) if sc["term"] == "raise" else ("stop",)]
    ctx = Ctx(sc, items)
    document = parse(sc["doc"])
    the_schema = schema_nosub if sc["create"] == "no_subscription_type" else schema

    # reference: the implementation's own execute() of the same operation with event i as root value
    if sc["create"] == "ok":
        for p in payloads:
            r = execute(
                the_schema, document, root_value=p, context_value=ctx,
                variable_values=sc["variables"], executor_class=ExecutorThrowingOnIncremental,
            )
            if asyncio.iscoroutine(r) or asyncio.isfuture(r) or hasattr(r, "__await__"):
                r = await r
            obs["refs"].append(canon_result(r))

    try:
        res = subscribe(the_schema, document, context_value=ctx, variable_values=sc["variables"])
        if hasattr(res, "__await__"):
            obs["awaitable"] = True
            res = await res
    except Exception as e:  # noqa: BLE001
        obs["kind"] = "raise"
        obs["raised"] = type(e).__name__
        return obs
    if isinstance(res, ExecutionResult):
        obs["kind"] = "result"
        obs["result"] = canon_result(res)
        obs["data_is_none"] = res.data is None
        obs["n_errors"] = len(res.errors or [])
        return obs
    if not hasattr(res, "__anext__"):
        obs["kind"] = "other"
        obs["repr"] = type(res).__name__
        return obs
    obs["kind"] = "iter"
    stream = res
    src = ctx.source
    held = []  # the response objects, kept by the consumer until the stream has been drained
    pull = None  # outstanding consumer task
    finished = False  # consumer saw end/exception, or closed
    closed = False

    def collect():
        nonlocal pull, finished
        if pull is not None and pull.done():
            try:
                r = pull.result()
                obs["outcomes"].append(["resp", canon_result(r)])
                held.append(r)
            except StopAsyncIteration:
                obs["outcomes"].append(["done"])
                finished = True
            except SourceExc as e:
                obs["outcomes"].append(["exc", "same" if e is exc else "other-instance"])
                finished = True
            except Exception as e:  # noqa: BLE001
                obs["outcomes"].append(["exc", type(e).__name__])
                finished = True
            pull = None

    async def do(op, rounds):
        nonlocal pull, finished, closed
        if op == "push":
            if src is not None and src.pending:
                src.push()
                obs["ops"].append("P")
        elif op == "pull":
            if pull is None:
                pull = asyncio.ensure_future(stream.__anext__())
                obs["ops"].append("L")
        elif op == "close":
            if pull is None and not closed and not finished:
                obs["ops"].append("C")
                closed = True
                await stream.aclose()
                finished = True
        await settle(loop, rounds)
        collect()

    extra_pulls = 0
    for op, rounds in sc["plan"]:
        if finished and op == "pull":
            if extra_pulls >= 2:
                continue
            extra_pulls += 1
        await do(op, rounds)
    # drain: the consumer keeps pulling until the stream terminates, the producer delivers the rest
    guard = 0
    while not finished:
        guard += 1
        if guard > 4 * len(items) + 20:
            raise Hang
        await do("pull", None)
        if finished:
            break
        if pull is not None:
            if src is not None and src.pending:
                await do("push", None)
            else:
                raise Hang  # consumer blocked, source has delivered everything
    if pull is not None:
        await settle(loop, None)
        collect()
    # one pull after termination: a finished stream stays finished
    await do("pull", None)
    obs["held_final"] = [canon_result(r) for r in held]  # the same responses, looked at again at the end
    obs["src_acloses"] = getattr(src, "acloses", None)
    obs["subscribe_calls"] = ctx.calls
    return obs


def run_scenario(sc):
    """Run one scenario on a fresh event loop.  Returns the observation dict."""
    loop = asyncio.new_event_loop()
    try:
        asyncio.set_event_loop(loop)
        try:
            return loop.run_until_complete(_run(sc, loop))
        except Hang:
            return {"kind": "hang", "refs": [], "outcomes": [], "ops": []}
    finally:
        try:
            for t in asyncio.all_tasks(loop):
                t.cancel()
            loop.run_until_complete(asyncio.sleep(0))
            loop.run_until_complete(loop.shutdown_asyncgens())
        except Exception:  # noqa: BLE001
            pass
        asyncio.set_event_loop(None)
        loop.close()
