"""Type-directed generators for C02 / C13: schema, documents, variables, data graphs.

Everything is derived from the `random.Random` passed in.  Structures are plain JSON-able
Python values so that a case can be stored in a replay file / the corpus.

Types      ("n", name, nn) | ("l", T, nn)                         nn: bool (non-null marker)
Literals   ("var", n) | ("i", int) | ("fl", halves) | ("s", str) | ("b", bool) | ("null",)
           | ("e", name) | ("l", [lit]) | ("o", [(name, lit)])
Selections ("field", alias|None, name, [(arg, lit)], [dir], [sel]) | ("inline", cond|None, [dir], [sel])
           | ("spread", name, [dir])            dir = (name, [(arg, lit)])
Data       {"k": "null"} | {"k": "leaf", "t": "int|float|str|bool", "v": ...(float: halves)}
           | {"k": "raise", "tag": n} | {"k": "list", "items": [...]}
           | {"k": "obj", "tn": None | str | {"bad": True}, "entries": [[field, guard|None, node]]}
"""
from __future__ import annotations

SCALARS = ["Int", "Float", "String", "Boolean", "ID"]
STR_POOL = ["", "a", "hi", "RED", "x-y", "12", "-3", "007", "1.5", "2.0", "true", "é", "\U0001F600", "GREEN"]
INT_POOL = [0, 1, -1, 2, 7, 42, -5, 2147483647, -2147483648, 2147483648, -2147483649, 100000]


# ----------------------------------------------------------------------------- types


def T(name, nn=False):
    return ("n", name, bool(nn))


def L(t, nn=False):
    return ("l", t, bool(nn))


def base_name(t):
    return t[1] if t[0] == "n" else base_name(t[1])


def type_text(t):
    s = t[1] if t[0] == "n" else "[" + type_text(t[1]) + "]"
    return s + ("!" if t[2] else "")


def type_sx(t):
    if t[0] == "n":
        return f"(n {t[1]} {1 if t[2] else 0})"
    return f"(l {type_sx(t[1])} {1 if t[2] else 0})"


def nullable(t):
    return (t[0], t[1], False)


def tt(t):
    """JSON round trip turns tuples into lists; normalise."""
    if t[0] == "n":
        return ("n", t[1], bool(t[2]))
    return ("l", tt(t[1]), bool(t[2]))


# ----------------------------------------------------------------------------- literals


def cps(s):
    return " ".join(str(ord(c)) for c in s)


def sx_str(s):
    return "(s " + cps(s) + ")" if s else "(s)"


def halves_text(h):
    a = abs(h)
    return ("-" if h < 0 else "") + str(a // 2) + (".0" if a % 2 == 0 else ".5")


def lit_text(v):
    k = v[0]
    if k == "var":
        return "$" + v[1]
    if k == "i":
        return str(v[1])
    if k == "fl":
        return halves_text(v[1])
    if k == "s":
        import json

        return json.dumps(v[1], ensure_ascii=True) if all(ord(c) < 0x10000 for c in v[1]) else '"' + v[1] + '"'
    if k == "b":
        return "true" if v[1] else "false"
    if k == "null":
        return "null"
    if k == "e":
        return v[1]
    if k == "l":
        return "[" + ", ".join(lit_text(x) for x in v[1]) + "]"
    if k == "o":
        return "{" + ", ".join(f"{n}: {lit_text(x)}" for n, x in v[1]) + "}"
    raise ValueError(v)


def lit_sx(v):
    k = v[0]
    if k == "var":
        return f"(var {v[1]})"
    if k == "i":
        return f"(i {v[1]})"
    if k == "fl":
        return f"(fl {v[1]})"
    if k == "s":
        return sx_str(v[1])
    if k == "b":
        return f"(b {1 if v[1] else 0})"
    if k == "null":
        return "null"
    if k == "e":
        return f"(e {v[1]})"
    if k == "l":
        return "(l" + "".join(" " + lit_sx(x) for x in v[1]) + ")"
    if k == "o":
        return "(o" + "".join(f" ({n} {lit_sx(x)})" for n, x in v[1]) + ")"
    raise ValueError(v)


# ----------------------------------------------------------------------------- schema


def gen_schema(rng, profile="c02"):
    """Returns info = {"types": {name: typedef}, "order": [names], "query": "Query", "mutation": name|None}.
    profile "c13": more list / input-object / oneOf arguments (positions inside literals matter there)."""
    enum_vals = rng.sample(["RED", "GREEN", "BLUE", "NONE", "true_", "A1"], rng.randint(2, 4))
    types = {}
    order = []

    def add(name, d):
        types[name] = d
        order.append(name)

    add("Color", {"kind": "enum", "values": enum_vals})
    has_inp2 = rng.random() < 0.6
    if has_inp2:
        add(
            "Inp2",
            {
                "kind": "input",
                "fields": [
                    {"name": "x", "type": T("Int", rng.random() < 0.5), "default": None},
                    {"name": "y", "type": T("Boolean"), "default": ("b", False) if rng.random() < 0.6 else None},
                ],
            },
        )
    inp_fields = [
        {"name": "a", "type": T("Int"), "default": ("i", rng.choice([0, 3, -7])) if rng.random() < 0.6 else None},
        {"name": "b", "type": L(T("String", rng.random() < 0.5)), "default": None},
        {"name": "c", "type": T("Color"), "default": ("e", enum_vals[0]) if rng.random() < 0.5 else None},
    ]
    if rng.random() < 0.3:
        inp_fields.append({"name": "r", "type": T("ID", True), "default": None})
    if has_inp2:
        inp_fields.append({"name": "n", "type": T("Inp2"), "default": ("o", [("x", ("i", 1))]) if rng.random() < 0.3 else None})
    add("Inp", {"kind": "input", "fields": inp_fields})
    has_one = rng.random() < (0.8 if profile == "c13" else 0.4)
    if has_one:
        add("One", {"kind": "input", "oneOf": True, "fields": [
            {"name": "s", "type": T("String"), "default": None},
            {"name": "i", "type": T("Int"), "default": None},
            {"name": "c", "type": T("Color"), "default": None},
        ] + ([{"name": "l", "type": L(T("Int", rng.random() < 0.5)), "default": None}] if rng.random() < 0.4 else [])})
    rich = profile == "c13"

    obj_names = ["A", "B"] + (["C"] if rng.random() < 0.7 else [])
    composite = obj_names + ["Node", "U"]

    def gen_arg_type():
        r = rng.random()
        if has_one and rng.random() < (0.25 if rich else 0.08):
            b = T("One", rng.random() < 0.5)
            if rng.random() < 0.3:
                b = L(b, rng.random() < 0.3)
            return b
        if r < (0.25 if rich else 0.55):
            b = T(rng.choice(SCALARS), rng.random() < 0.3)
        elif r < (0.35 if rich else 0.7):
            b = T("Color", rng.random() < 0.3)
        elif r < (0.6 if rich else 0.85):
            b = T("Inp", rng.random() < 0.25)
        else:
            inner = T(rng.choice(["Int", "String", "Color", "Inp"]), rng.random() < (0.6 if rich else 0.4))
            b = L(inner, rng.random() < 0.3)
            if rng.random() < 0.2:
                b = L(nullable(b), rng.random() < 0.2)
        return b

    def gen_args():
        out = []
        for i in range(rng.choice([0, 1, 1, 2, 2] if rich else [0, 0, 0, 1, 1, 2])):
            t = gen_arg_type()
            if rich and rng.random() < 0.25:
                t = (t[0], t[1], True)  # more required arguments
            d = None
            if rng.random() < (0.25 if rich else 0.4):
                d = gen_const_literal(rng, {"types": types}, t, allow_null=not t[2])
            out.append({"name": "xyzw"[i], "type": t, "default": d})
        return out

    def wrap(b):
        """random list / non-null nesting, total wrappers <= 3"""
        r = rng.random()
        if r < 0.55:
            return (b[0], b[1], rng.random() < 0.35)
        inner = (b[0], b[1], rng.random() < 0.5)
        t = L(inner, rng.random() < 0.4)
        if rng.random() < 0.25:
            t = L((t[0], t[1], rng.random() < 0.4), rng.random() < 0.3)
        return t

    def gen_field(name, owner_idx):
        r = rng.random()
        if r < 0.5:
            t = wrap(T(rng.choice(SCALARS + ["Color"])))
        else:
            target = rng.choice(composite)
            t = wrap(T(target))
            # a non-null object chain must be acyclic so that conforming data is finite
            if t[0] == "n" and t[2]:
                idx = obj_names.index(target) if target in obj_names else -1
                if idx <= owner_idx:
                    t = nullable(t)
        return {"name": name, "type": t, "args": gen_args()}

    node_fields = [{"name": "id", "type": T("ID", True), "args": []}]
    if rng.random() < 0.7:
        node_fields.append({"name": "name", "type": T("String"), "args": gen_args() if rng.random() < 0.3 else []})
    if rng.random() < 0.5:
        node_fields.append({"name": "peer", "type": rng.choice([T("Node"), L(T("Node", True)), L(T("Node"), True)]), "args": []})
    implementers = ["A", "B"]
    for i, on in enumerate(obj_names):
        fields = []
        if on in implementers:
            fields += [dict(f) for f in node_fields]
        else:
            fields.append({"name": "id", "type": T("ID"), "args": []})
        fields.append({"name": "n", "type": T("Int", rng.random() < 0.3), "args": gen_args()})
        pool = ["s", "fl", "ok", "col", "friend", "friends", "u", "any", "deep"]
        for fname in rng.sample(pool, rng.randint(2, 5)):
            if fname == "friend":
                fields.append({"name": fname, "type": T(on), "args": gen_args()})
            elif fname == "friends":
                fields.append({"name": fname, "type": rng.choice([L(T(on, True)), L(T(on, True), True), L(T(on))]), "args": []})
            elif fname == "col":
                fields.append({"name": fname, "type": wrap(T("Color")), "args": []})
            elif fname == "deep":
                fields.append({"name": fname, "type": L(L(T("Int", rng.random() < 0.6), rng.random() < 0.5), rng.random() < 0.5), "args": []})
            else:
                fields.append(gen_field(fname, i))
        types_entry = {"kind": "object", "ifaces": ["Node"] if on in implementers else [], "fields": fields}
        add(on, types_entry)
    add("Node", {"kind": "iface", "ifaces": [], "fields": node_fields})
    members = ["A", rng.choice([x for x in obj_names if x != "A"])]
    if "C" in obj_names and rng.random() < 0.4 and "C" not in members:
        members.append("C")
    add("U", {"kind": "union", "members": members})
    qfields = []
    for on in obj_names:
        qfields.append({"name": on.lower(), "type": wrap(T(on)), "args": gen_args()})
    qfields.append({"name": "node", "type": wrap(T("Node")), "args": gen_args()})
    qfields.append({"name": "u", "type": wrap(T("U")), "args": []})
    qfields.append({"name": "nodes", "type": L(T("Node", rng.random() < 0.5), rng.random() < 0.5), "args": []})
    for i in range(rng.randint(1, 3)):
        qfields.append(gen_field(f"q{i}", -1))
    if rich:
        # the same field names on several parent types, each with its own (required) arguments
        for fname in rng.sample(["n", "s", "ok", "any", "id", "friend"], rng.randint(1, 3)):
            target = rng.choice(obj_names)
            t = T(target) if fname == "friend" else wrap(T(rng.choice(SCALARS + ["Color"])))
            args = gen_args()
            if rng.random() < 0.6:
                args = [{"name": "r", "type": T(rng.choice(["ID", "Int", "Color"]), True), "default": None}] + args[:1]
            qfields.append({"name": fname, "type": t, "args": args})
    qfields.append({"name": "echo", "type": T(rng.choice(SCALARS)), "args": [{"name": "v", "type": gen_arg_type(), "default": None}] + gen_args()[:1]})
    add("Query", {"kind": "object", "ifaces": [], "fields": qfields})
    mutation = None
    if rng.random() < 0.4:
        mutation = "Mutation"
        add("Mutation", {"kind": "object", "ifaces": [], "fields": [
            {"name": "setA", "type": wrap(T("A")), "args": gen_args()},
            {"name": "bump", "type": T("Int", rng.random() < 0.5), "args": gen_args()},
        ]})
    info = {"types": types, "order": order, "query": "Query", "mutation": mutation}
    # argument names must be unique per field
    for td in types.values():
        for f in td.get("fields", []):
            seen = set()
            f["args"] = [a for a in f.get("args", []) if not (a["name"] in seen or seen.add(a["name"]))] if "args" in f else f.get("args")
    return info


def schema_sdl(info):
    out = []
    for name in info["order"]:
        td = info["types"][name]
        k = td["kind"]
        if k == "enum":
            out.append(f"enum {name} {{ " + " ".join(td["values"]) + " }")
        elif k == "input":
            fs = []
            for f in td["fields"]:
                d = f" = {lit_text(f['default'])}" if f["default"] is not None else ""
                fs.append(f"  {f['name']}: {type_text(f['type'])}{d}")
            out.append(f"input {name}{' @oneOf' if td.get('oneOf') else ''} {{\n" + "\n".join(fs) + "\n}")
        elif k == "union":
            out.append(f"union {name} = " + " | ".join(td["members"]))
        else:
            fs = []
            for f in td["fields"]:
                args = ""
                if f["args"]:
                    parts = []
                    for a in f["args"]:
                        d = f" = {lit_text(a['default'])}" if a["default"] is not None else ""
                        parts.append(f"{a['name']}: {type_text(a['type'])}{d}")
                    args = "(" + ", ".join(parts) + ")"
                fs.append(f"  {f['name']}{args}: {type_text(f['type'])}")
            impl = (" implements " + " & ".join(td["ifaces"])) if td["ifaces"] else ""
            kw = "interface" if k == "iface" else "type"
            out.append(f"{kw} {name}{impl} {{\n" + "\n".join(fs) + "\n}")
    return "\n".join(out)


def schema_sx(info):
    out = [f"(schema {info['query']} {info['mutation'] or '-'}"]
    for name in info["order"]:
        td = info["types"][name]
        k = td["kind"]
        if k == "enum":
            out.append(f"(enum {name} " + " ".join(td["values"]) + ")")
        elif k == "input":
            out.append(f"(input {name}" + "".join(" " + argdef_sx(f) for f in td["fields"]) + ")")
        elif k == "union":
            out.append(f"(union {name} " + " ".join(td["members"]) + ")")
        else:
            kw = "iface" if k == "iface" else "object"
            fs = "".join(
                f" (f {f['name']} {type_sx(tt(f['type']))}" + "".join(" " + argdef_sx(a) for a in f["args"]) + ")"
                for f in td["fields"]
            )
            out.append(f"({kw} {name} (" + " ".join(td["ifaces"]) + ")" + fs + ")")
    return " ".join(out) + ")"


def argdef_sx(a):
    d = lit_sx(a["default"]) if a["default"] is not None else "-"
    return f"(a {a['name']} {type_sx(tt(a['type']))} {d})"


def possible_types(info, name):
    td = info["types"][name]
    if td["kind"] == "union":
        return list(td["members"])
    if td["kind"] == "iface":
        return [n for n in info["order"] if info["types"][n]["kind"] == "object" and name in info["types"][n]["ifaces"]]
    return [name]


def fields_of(info, name):
    td = info["types"].get(name)
    if not td or td["kind"] not in ("object", "iface"):
        return []
    return td["fields"]


# ----------------------------------------------------------------------------- literals for a type


def gen_const_literal(rng, info, t, allow_null=True, depth=0, vars_ctx=None, valid=True):
    """A literal of type t (valid unless valid=False).  vars_ctx: callable(type) -> variable name or None."""
    t = tt(t)
    if vars_ctx is not None and rng.random() < (0.45 if getattr(vars_ctx, "boundary", False) and depth > 0 else 0.3):
        v = vars_ctx(t)
        if v is not None:
            return ("var", v)
    if allow_null and not t[2] and rng.random() < 0.12:
        return ("null",)
    if not valid and rng.random() < 0.7:
        return rng.choice([("s", "bad"), ("i", 2147483648), ("b", True), ("e", "NOPE"), ("l", [("s", "q")]), ("o", [("zz", ("i", 1))])])
    if t[0] == "l":
        inner = t[1]
        if rng.random() < 0.25:  # list of one
            return gen_const_literal(rng, info, nullable(inner), False, depth + 1, vars_ctx, valid)
        return ("l", [gen_const_literal(rng, info, inner, True, depth + 1, vars_ctx, valid) for _ in range(rng.randint(0, 3))])
    n = t[1]
    if n == "Int":
        return ("i", rng.choice([0, 1, -1, 5, 42, 2147483647, -2147483648, rng.randint(-1000, 1000)]))
    if n == "Float":
        return rng.choice([("fl", rng.randint(-20, 20)), ("i", rng.randint(-5, 5)), ("fl", 3)])
    if n == "String":
        return ("s", rng.choice(STR_POOL))
    if n == "Boolean":
        return ("b", rng.random() < 0.5)
    if n == "ID":
        return rng.choice([("s", rng.choice(["id1", "7", "", "x"])), ("i", rng.randint(0, 99))])
    td = info["types"].get(n)
    if td and td["kind"] == "enum":
        return ("e", rng.choice(td["values"]))
    if td and td["kind"] == "input" and td.get("oneOf"):
        f = rng.choice(td["fields"])
        # exactly one field with a non-null value (a variable here must be declared non-null)
        one_ctx = (lambda ft: vars_ctx((ft[0], ft[1], True))) if (vars_ctx is not None and not getattr(vars_ctx, "boundary", False)) else vars_ctx
        fs = [(f["name"], gen_const_literal(rng, info, tt(f["type"]), False, depth + 1, one_ctx, valid))]
        if not valid and rng.random() < 0.5:
            g = rng.choice(td["fields"])
            fs.append((g["name"], gen_const_literal(rng, info, tt(g["type"]), False, depth + 1, None, True)))
        return ("o", fs)
    if td and td["kind"] == "input":
        fs = []
        for f in td["fields"]:
            ft = tt(f["type"])
            required = ft[2] and f["default"] is None
            if required or rng.random() < 0.6:
                if depth > 2 and not required:
                    continue
                fs.append((f["name"], gen_const_literal(rng, info, ft, True, depth + 1, vars_ctx, valid)))
        rng.shuffle(fs)
        return ("o", fs)
    return ("null",)


def gen_input_value(rng, info, t, depth=0, valid=True):
    """A raw (JSON) variable value for type t."""
    t = tt(t)
    if not t[2] and rng.random() < 0.1:
        return None
    if not valid and rng.random() < 0.7:
        return rng.choice(["bad", 2147483648, True, 1.5, [1, "x"], {"zz": 1}])
    if t[0] == "l":
        if rng.random() < 0.2:
            return gen_input_value(rng, info, nullable(t[1]), depth + 1, valid) if rng.random() < 0.9 else None
        return [gen_input_value(rng, info, t[1], depth + 1, valid) for _ in range(rng.randint(0, 3))]
    n = t[1]
    if n == "Int":
        return rng.choice([0, 1, -1, 5, 2147483647, rng.randint(-1000, 1000)])
    if n == "Float":
        return rng.choice([rng.randint(-20, 20) / 2, rng.randint(-5, 5)])
    if n == "String":
        return rng.choice(STR_POOL)
    if n == "Boolean":
        return rng.random() < 0.5
    if n == "ID":
        return rng.choice(["id1", "7", "", 5])
    td = info["types"].get(n)
    if td and td["kind"] == "enum":
        return rng.choice(td["values"])
    if td and td["kind"] == "input" and td.get("oneOf"):
        f = rng.choice(td["fields"])
        ft = tt(f["type"])
        return {f["name"]: gen_input_value(rng, info, (ft[0], ft[1], True), depth + 1, valid)}
    if td and td["kind"] == "input":
        out = {}
        for f in td["fields"]:
            ft = tt(f["type"])
            required = ft[2] and f["default"] is None
            if required or (rng.random() < 0.6 and depth <= 2):
                if not ft[2] and rng.random() < 0.25:
                    out[f["name"]] = None  # an explicit null is not an absent field (no default applies)
                elif ft[2] and f["default"] is not None and not valid and rng.random() < 0.3:
                    out[f["name"]] = None  # null for a non-null field with default: invalid, not the default
                else:
                    out[f["name"]] = gen_input_value(rng, info, ft, depth + 1, valid)
        return out
    return None


# ----------------------------------------------------------------------------- documents


class DocGen:
    def __init__(self, rng, info, invalid=False, max_depth=4, profile="c02"):
        self.rng = rng
        self.info = info
        self.profile = profile
        self.frags = {}  # name -> {"cond": T, "sels": [...]}
        self.vars = {}  # name -> {"type": t, "default": lit|None}
        self.bool_vars = []
        self.arg_memo = {}
        self.invalid = invalid
        self.mutations_done = []
        self.max_depth = max_depth
        self.frag_budget = rng.randint(0, 4)
        self.building = []  # fragments under construction (no cycles in valid docs)
        self.seen_names = {}  # field name -> parent types it has been selected on

    # -- variables
    def var_for(self, t):
        if self.profile == "c13":
            return self.var_for_boundary(t)
        return self.var_for_plain(t)


    def var_for_boundary(self, t):
        """C13: the declared type of the variable is chosen around the boundary of what
        VariablesInAllowedPosition allows for this position (validate() decides); variables are
        reused across positions of the same shape regardless of nullability."""
        rng = self.rng
        t = tt(t)

        def shape(x):
            return (x[0], x[1]) if x[0] == "n" else (x[0], shape(x[1]))

        def item_nullable(x):
            return (x[0], x[1], x[2]) if x[0] == "n" else ("l", (x[1][0], x[1][1], False) if x[1][0] == "n" else x[1], x[2])

        if rng.random() < 0.45:
            cands = [n for n, v in self.vars.items() if shape(tt(v["type"])) == shape(t)]
            if cands:
                return rng.choice(cands)
        if len(self.vars) >= 6:
            return None
        name = f"v{len(self.vars)}"
        r = rng.random()
        vt, default = t, None
        if r < 0.3:
            vt = t
        elif r < 0.4:
            vt = (t[0], t[1], True)
        elif r < 0.6:
            vt = nullable(t)  # nullable, no default (only allowed at nullable positions / positions with a default)
        elif r < 0.8:
            vt = nullable(t)
            default = gen_const_literal(rng, self.info, (t[0], t[1], True), allow_null=False)
        elif r < 0.88:
            vt = nullable(t)
            default = ("null",)
        else:
            vt = item_nullable(nullable(t))  # list of nullable items where non-null items may be expected
            if rng.random() < 0.5:
                default = gen_const_literal(rng, self.info, vt, allow_null=True)
        self.vars[name] = {"type": vt, "default": default}
        return name

    def var_for_plain(self, t):
        rng = self.rng
        t = tt(t)
        if rng.random() < 0.4:
            for n, v in self.vars.items():
                if tt(v["type"]) == t and rng.random() < 0.7:
                    return n
        if len(self.vars) >= 5:
            return None
        name = f"v{len(self.vars)}"
        r = rng.random()
        vt = t
        default = None
        if r < 0.15 and not t[2]:
            vt = (t[0], t[1], True)  # stricter
        elif r < 0.35 and t[2]:
            # nullable variable with a default at a non-null position (allowed; the runtime-deferred case)
            vt = nullable(t)
            default = gen_const_literal(rng, self.info, t, allow_null=False)
        if default is None and rng.random() < 0.35 and not vt[2]:
            default = gen_const_literal(rng, self.info, vt, allow_null=True)
        if self.invalid and rng.random() < 0.1:
            vt = T(rng.choice(["Int", "String", "Boolean"]))
            default = None
            self.mutations_done.append("var-wrong-type")
        elif self.invalid and t[2] and rng.random() < 0.5:
            # nullable variable without default at a non-null position (not allowed unless the
            # position has a default)
            vt = nullable(t)
            default = None
            self.mutations_done.append("nullable-var-at-non-null-position")
        self.vars[name] = {"type": vt, "default": default}
        return name

    def vars_ctx(self):
        f = lambda t: self.var_for(t)  # noqa: E731
        f.boundary = self.profile == "c13"
        return f

    def bool_value(self):
        rng = self.rng
        r = rng.random()
        if r < 0.5:
            return ("b", rng.random() < 0.5)
        if self.bool_vars and rng.random() < 0.6:
            return ("var", rng.choice(self.bool_vars))
        if len(self.vars) >= 6:
            return ("b", True)
        name = f"b{len(self.bool_vars)}"
        kind = rng.random()
        if kind < 0.4:
            self.vars[name] = {"type": T("Boolean", True), "default": None}
        elif kind < 0.7:
            self.vars[name] = {"type": T("Boolean"), "default": ("b", True)}
        else:
            self.vars[name] = {"type": T("Boolean"), "default": ("b", False)}
        self.bool_vars.append(name)
        return ("var", name)

    def dirs(self):
        rng = self.rng
        out = []
        if rng.random() < 0.14:
            out.append((rng.choice(["skip", "include"]), [("if", self.bool_value())]))
            if rng.random() < 0.2:
                other = "include" if out[0][0] == "skip" else "skip"
                out.append((other, [("if", self.bool_value())]))
        return out

    # -- arguments
    def args_for(self, parent, f):
        rng = self.rng
        key = (parent, f["name"])
        if key in self.arg_memo and rng.random() < 0.85:
            return list(self.arg_memo[key])
        out = []
        for a in f["args"]:
            at = tt(a["type"])
            required = at[2] and a["default"] is None
            elsewhere = bool(self.seen_names.get(f["name"], set()) - {parent})
            if required and ((self.invalid and rng.random() < 0.15)
                             or (self.profile == "c13" and rng.random() < (0.4 if elsewhere else 0.05))):
                # a required argument left out (validate() decides; the same field name may have been
                # seen before on another parent type, with other required arguments)
                self.mutations_done.append("missing-required-arg")
                continue
            if required or rng.random() < 0.6:
                bad = self.invalid and rng.random() < 0.12
                if bad:
                    self.mutations_done.append("ill-typed-literal")
                out.append((a["name"], gen_const_literal(rng, self.info, at, True, 0, self.vars_ctx(), valid=not bad)))
        if self.invalid and rng.random() < 0.06:
            out.append(("nope", ("i", 1)))
            self.mutations_done.append("unknown-arg")
        if self.invalid and out and rng.random() < 0.04:
            out.append(out[0])
            self.mutations_done.append("duplicate-arg")
        rng.shuffle(out)
        self.arg_memo.setdefault(key, list(out))
        return out

    # -- selections
    def selset(self, parent, depth):
        """selection set on composite type `parent` (object / iface / union)"""
        rng = self.rng
        info = self.info
        td = info["types"][parent]
        fields = fields_of(info, parent)
        sels = []
        n = rng.randint(1, 4) if depth < self.max_depth else rng.randint(1, 2)
        for _ in range(n):
            r = rng.random()
            if (r < 0.62 and fields) or (td["kind"] == "union" and r < 0.2):
                if td["kind"] == "union" or rng.random() < 0.12:
                    sels.append(("field", rng.choice([None, None, "tn", "x"]), "__typename", [], self.dirs(), []))
                    continue
                f = rng.choice(fields)
                if self.profile == "c13" and rng.random() < 0.4:
                    # prefer a field whose name was already selected on another parent type
                    again = [x for x in fields if self.seen_names.get(x["name"], set()) - {parent}]
                    if again:
                        f = rng.choice(again)
                if self.invalid and rng.random() < 0.05:
                    sels.append(("field", None, "nosuch", [], [], []))
                    self.mutations_done.append("unknown-field")
                    continue
                sub = []
                bn = base_name(tt(f["type"]))
                btd = info["types"].get(bn)
                if btd and btd["kind"] in ("object", "iface", "union"):
                    if depth >= self.max_depth:
                        # only leaves allowed here: pick a leaf field of the target instead
                        sub = self.leaf_selset(bn)
                    else:
                        sub = self.selset(bn, depth + 1)
                alias = None
                ra = rng.random()
                if ra < 0.2:
                    alias = rng.choice(["x", "y", "z", f["name"] + "2", "id", "n"])
                sels.append(("field", alias, f["name"], self.args_for(parent, f), self.dirs(), sub))
                self.seen_names.setdefault(f["name"], set()).add(parent)
            elif r < 0.8:
                # inline fragment
                cond = self.pick_cond(parent)
                target = cond or parent
                if target not in info["types"] or info["types"][target]["kind"] not in ("object", "iface", "union"):
                    continue
                sels.append(("inline", cond, self.dirs(), self.selset(target, depth + 1) if depth < self.max_depth else self.leaf_selset(target)))
            else:
                name = self.pick_fragment(parent, depth)
                if name:
                    sels.append(("spread", name, self.dirs()))
        # duplicates that must merge
        if sels and rng.random() < 0.35:
            src = rng.choice(sels)
            if src[0] == "field":
                sub = src[5]
                if sub:
                    f = next((x for x in fields if x["name"] == src[2]), None)
                    if f is not None:
                        bn = base_name(tt(f["type"]))
                        sub = self.selset(bn, depth + 1) if depth < self.max_depth else self.leaf_selset(bn)
                dup = ("field", src[1], src[2], list(src[3]), self.dirs(), sub)
                if rng.random() < 0.5:
                    sels.append(dup)
                else:
                    sels.append(("inline", None if rng.random() < 0.5 else (parent if td["kind"] != "union" else None), [], [dup]) if td["kind"] != "union" else dup)
        if not sels:
            sels.append(("field", None, "__typename", [], [], []))
        return sels

    def leaf_selset(self, parent):
        rng = self.rng
        fields = [f for f in fields_of(self.info, parent) if self.info["types"].get(base_name(tt(f["type"])), {"kind": "scalar"})["kind"] in ("scalar", "enum")]
        out = [("field", None, "__typename", [], [], [])]
        for f in rng.sample(fields, min(len(fields), rng.randint(0, 2))):
            out.append(("field", None, f["name"], self.args_for(parent, f), [], []))
        return out

    def pick_cond(self, parent):
        rng = self.rng
        info = self.info
        r = rng.random()
        if r < 0.2:
            return None
        if self.invalid and rng.random() < 0.05:
            self.mutations_done.append("unknown-type-cond")
            return "Nope"
        cands = set(possible_types(info, parent))
        for n in info["order"]:
            if info["types"][n]["kind"] in ("iface", "union") and set(possible_types(info, n)) & cands:
                cands.add(n)
        cands.add(parent)
        return rng.choice(sorted(cands))

    def pick_fragment(self, parent, depth):
        rng = self.rng
        info = self.info
        applicable = [n for n, fr in self.frags.items() if n not in self.building and set(possible_types(info, fr["cond"])) & set(possible_types(info, parent))]
        if self.invalid and rng.random() < 0.05:
            self.mutations_done.append("unknown-fragment")
            return "Missing"
        if self.invalid and self.building and rng.random() < 0.3:
            self.mutations_done.append("fragment-cycle")
            return rng.choice(self.building)
        if applicable and (rng.random() < 0.55 or self.frag_budget <= 0):
            return rng.choice(applicable)
        if self.frag_budget <= 0 or depth >= self.max_depth:
            return None
        self.frag_budget -= 1
        cond = self.pick_cond(parent) or parent
        if cond not in info["types"]:
            cond = parent
        name = f"F{len(self.frags) + len(self.building)}"
        self.building.append(name)
        sels = self.selset(cond, depth + 1)
        self.building.remove(name)
        self.frags[name] = {"cond": cond, "sels": sels}
        return name


def sel_text(s, ind=1):
    pad = "  " * ind
    if s[0] == "field":
        _, alias, name, args, dirs, sub = s
        t = pad + (f"{alias}: " if alias else "") + name
        if args:
            t += "(" + ", ".join(f"{n}: {lit_text(v)}" for n, v in args) + ")"
        t += dirs_text(dirs)
        if sub:
            t += " {\n" + "\n".join(sel_text(x, ind + 1) for x in sub) + "\n" + pad + "}"
        return t
    if s[0] == "inline":
        _, cond, dirs, sub = s
        return pad + "..." + (f" on {cond}" if cond else "") + dirs_text(dirs) + " {\n" + "\n".join(sel_text(x, ind + 1) for x in sub) + "\n" + pad + "}"
    return pad + "..." + s[1] + dirs_text(s[2])


def dirs_text(dirs):
    return "".join(f" @{n}(" + ", ".join(f"{a}: {lit_text(v)}" for a, v in args) + ")" for n, args in dirs)


def used_vars_and_frags(sels, frags, seen_frags=None, out=None):
    out = out if out is not None else set()
    seen_frags = seen_frags if seen_frags is not None else set()

    def lit(v):
        if v[0] == "var":
            out.add(v[1])
        elif v[0] == "l":
            for x in v[1]:
                lit(x)
        elif v[0] == "o":
            for _, x in v[1]:
                lit(x)

    for s in sels:
        dirs = s[4] if s[0] == "field" else s[2]
        for _, args in dirs:
            for _, v in args:
                lit(v)
        if s[0] == "field":
            for _, v in s[3]:
                lit(v)
            used_vars_and_frags(s[5], frags, seen_frags, out)
        elif s[0] == "inline":
            used_vars_and_frags(s[3], frags, seen_frags, out)
        else:
            if s[1] not in seen_frags and s[1] in frags:
                seen_frags.add(s[1])
                used_vars_and_frags(frags[s[1]]["sels"], frags, seen_frags, out)
    return out, seen_frags


def gen_document(rng, info, invalid=False, profile="c02"):
    """Returns doc = {"ops": [{"kind","name","vars":[{"name","type","default"}],"sels"}], "frags": [{"name","cond","sels"}], "mutations": [...]}"""
    g = DocGen(rng, info, invalid=invalid, max_depth=rng.choice([2, 3, 3, 4, 4]), profile=profile)
    ops = []
    n_ops = 1 if rng.random() < 0.75 else 2
    for i in range(n_ops):
        kind = "mutation" if (info["mutation"] and rng.random() < 0.3) else "query"
        root = info["mutation"] if kind == "mutation" else info["query"]
        sels = g.selset(root, 1)
        name = None if (n_ops == 1 and rng.random() < 0.5) else f"Op{i}"
        ops.append({"kind": kind, "name": name, "sels": sels})
    frags = [{"name": n, "cond": fr["cond"], "sels": fr["sels"]} for n, fr in g.frags.items()]
    fragmap = {f["name"]: f for f in frags}
    all_used_frags = set()
    for op in ops:
        used, uf = used_vars_and_frags(op["sels"], fragmap)
        all_used_frags |= uf
        names = [n for n in g.vars if n in used]
        if invalid and rng.random() < 0.08 and names:
            names = names[1:]
            g.mutations_done.append("undefined-variable")
        op["vars"] = [{"name": n, "type": g.vars[n]["type"], "default": g.vars[n]["default"]} for n in names]
        if invalid and rng.random() < 0.05:
            op["vars"].append({"name": "unused", "type": T("Int"), "default": None})
            g.mutations_done.append("unused-variable")
    # unused fragments make a document invalid: spread them from the first operation or drop them
    frags = [f for f in frags if f["name"] in all_used_frags or (invalid and rng.random() < 0.3)]
    return {"ops": ops, "frags": frags, "mutations": g.mutations_done}


def doc_text(doc):
    out = []
    for op in doc["ops"]:
        head = op["kind"] + (f" {op['name']}" if op["name"] else "")
        if op["vars"]:
            head += "(" + ", ".join(
                f"${v['name']}: {type_text(tt(v['type']))}" + (f" = {lit_text(v['default'])}" if v["default"] is not None else "") for v in op["vars"]
            ) + ")"
        out.append(head + " {\n" + "\n".join(sel_text(s) for s in op["sels"]) + "\n}")
    for f in doc["frags"]:
        out.append(f"fragment {f['name']} on {f['cond']} {{\n" + "\n".join(sel_text(s) for s in f["sels"]) + "\n}")
    return "\n".join(out)


def gen_variables(rng, info, op, mode="valid"):
    """raw variable values for an operation; mode: valid | mixed"""
    raw = {}
    for v in op["vars"]:
        vt = tt(v["type"])
        r = rng.random()
        has_default = v["default"] is not None
        if mode == "c13":
            # omit / null / value, each often (what variable coercion accepts decides)
            if (has_default or not vt[2]) and r < 0.35:
                continue
            if not vt[2] and r < 0.6:
                raw[v["name"]] = None
                continue
            raw[v["name"]] = gen_input_value(rng, info, (vt[0], vt[1], True))
            continue
        if has_default and r < 0.45:
            continue
        if not vt[2] and not has_default and r < 0.25:
            continue
        if mode == "mixed" and vt[2] and r < 0.04:
            continue  # missing required variable -> request error
        if not vt[2] and rng.random() < 0.15:
            raw[v["name"]] = None
            continue
        raw[v["name"]] = gen_input_value(rng, info, (vt[0], vt[1], True), valid=not (mode == "mixed" and rng.random() < 0.05))
    return raw


# ----------------------------------------------------------------------------- data graphs


def leaf_node(v):
    if isinstance(v, bool):
        return {"k": "leaf", "t": "bool", "v": v}
    if isinstance(v, int):
        return {"k": "leaf", "t": "int", "v": v}
    if isinstance(v, float):
        h = v * 2
        assert h == int(h)
        return {"k": "leaf", "t": "float", "v": int(h)}
    return {"k": "leaf", "t": "str", "v": v}


NULL = {"k": "null"}


def conforming_leaf(rng, info, n):
    if n == "Int":
        return leaf_node(rng.choice([0, 1, -1, 7, 42, 2147483647, -2147483648, rng.randint(-999, 999)]))
    if n == "Float":
        return leaf_node(rng.choice([rng.randint(-20, 20) / 2, float(rng.randint(-3, 3)), rng.randint(-9, 9)]))
    if n == "String":
        return leaf_node(rng.choice(STR_POOL))
    if n == "Boolean":
        return leaf_node(rng.random() < 0.5)
    if n == "ID":
        return leaf_node(rng.choice(["id1", "", "7", rng.randint(0, 99)]))
    td = info["types"].get(n)
    if td and td["kind"] == "enum":
        return leaf_node(rng.choice(td["values"]))
    return NULL


def hostile_value(rng, info, t, mode, depth):
    """something that is deliberately not what type t prescribes"""
    r = rng.random()
    if mode == "raisy":
        # many failing resolvers sharing few exception instances (see exception_pool in checks/c02.py)
        if r < 0.75:
            return {"k": "raise", "tag": rng.choice([1, 1, 2, 3, 4, 5])}
        r = rng.random()
    if r < 0.22:
        return NULL
    if r < 0.34:
        return {"k": "raise", "tag": rng.randint(1, 9)}
    if r < 0.64:
        return leaf_node(rng.choice([True, False, "12", "abc", "", "-3", "1.5", 1.5, 2.0, 2147483648, -2147483649, 0, 7, "NOPE", "RED", 3.5, -0.5]))
    if r < 0.76:
        return {"k": "list", "items": [leaf_node(rng.choice([1, "a", True])) for _ in range(rng.randint(0, 2))]}
    if r < 0.9:
        tn = rng.choice([None, "A", "B", "Node", "Nope", {"bad": True}, "Color", "C"])
        return {"k": "obj", "tn": tn, "entries": [["id", None, leaf_node("h")], ["n", None, leaf_node(1)]]}
    return gen_data(rng, info, T(rng.choice(["A", "Int", "String", "U"])), mode, depth + 1)


def gen_data(rng, info, t, mode="conforming", depth=0, p_hostile=0.1, max_depth=6):
    t = tt(t)
    hostile = mode in ("hostile", "raisy")
    if hostile and rng.random() < p_hostile:
        return hostile_value(rng, info, t, mode, depth)
    if not t[2] and rng.random() < (0.12 if depth < max_depth else 0.6):
        return NULL
    if t[0] == "l":
        n = rng.choice([0, 1, 1, 2, 2, 3]) if depth < max_depth else 0
        return {"k": "list", "items": [gen_data(rng, info, t[1], mode, depth + 1, p_hostile, max_depth) for _ in range(n)]}
    n = t[1]
    td = info["types"].get(n)
    if td is None or td["kind"] == "enum":
        return conforming_leaf(rng, info, n)
    if td["kind"] in ("iface", "union"):
        pts = possible_types(info, n)
        rt = rng.choice(pts)
        node = gen_object(rng, info, rt, mode, depth, p_hostile, max_depth)
        node["tn"] = rt
        if hostile and rng.random() < 0.12:
            node["tn"] = rng.choice([None, "Nope", {"bad": True}, n, "Color", "Query"] + [x for x in ("A", "B", "C") if x in info["types"]])
        return node
    if td["kind"] == "object":
        node = gen_object(rng, info, n, mode, depth, p_hostile, max_depth)
        if rng.random() < 0.5:
            node["tn"] = n
        return node
    return NULL


def gen_object(rng, info, name, mode, depth, p_hostile, max_depth):
    entries = []
    for f in fields_of(info, name):
        ft = tt(f["type"])
        if not ft[2] and rng.random() < 0.08:
            continue  # resolver returns None
        if depth >= max_depth and not ft[2]:
            bn = base_name(ft)
            if info["types"].get(bn, {"kind": "scalar"})["kind"] in ("object", "iface", "union"):
                continue
        entries.append([f["name"], None, gen_data(rng, info, ft, mode, depth + 1, p_hostile, max_depth)])
    return {"k": "obj", "tn": None, "entries": entries}


def data_sx(node):
    k = node["k"]
    if k == "null":
        return "null"
    if k == "leaf":
        t, v = node["t"], node["v"]
        if t == "bool":
            return f"(b {1 if v else 0})"
        if t == "int":
            return f"(i {v})"
        if t == "float":
            return f"(fl {v})"
        return sx_str(v)
    if k == "raise":
        tag = node["tag"]
        # tag % 4 == 3: a GraphQLError that already carries the path ["ext", tag]
        return f"(raise {tag} (p k:ext i:{tag}))" if tag % 4 == 3 else f"(raise {tag})"
    if k == "list":
        return "(l" + "".join(" " + data_sx(x) for x in node["items"]) + ")"
    tn = node["tn"]
    tns = "-" if tn is None else ("bad" if isinstance(tn, dict) else f"(t {tn})")
    es = []
    for name, guard, child in node["entries"]:
        g = "*" if guard is None else "(g" + "".join(f" ({a} {pyval_sx(v)})" for a, v in guard) + ")"
        es.append(f" ({name} {g} {data_sx(child)})")
    return f"(obj {tns}" + "".join(es) + ")"


def pyval_sx(v, canonical=False):
    """coerced Python input value -> PYVAL (canonical: dict keys sorted, as the driver prints them)"""
    if v is None:
        return "null"
    if isinstance(v, bool):
        return f"(b {1 if v else 0})"
    if isinstance(v, int):
        return f"(i {v})"
    if isinstance(v, float):
        h = v * 2
        if h != int(h):
            raise ValueError(f"float outside the harness domain: {v!r}")
        return f"(fl {int(h)})"
    if isinstance(v, str):
        return sx_str(v)
    if isinstance(v, (list, tuple)):
        return "(l" + "".join(" " + pyval_sx(x, canonical) for x in v) + ")"
    if isinstance(v, dict):
        items = sorted(v.items()) if canonical else v.items()
        return "(d" + "".join(f" ({k} {pyval_sx(x, canonical)})" for k, x in items) + ")"
    raise ValueError(f"unexpected coerced value {v!r}")


def pyval_json(v):
    """coerced value -> JSON-able guard form (floats as {"fl": halves})"""
    if isinstance(v, float):
        return {"__fl__": int(v * 2)}
    if isinstance(v, (list, tuple)):
        return [pyval_json(x) for x in v]
    if isinstance(v, dict):
        return {"__d__": [[k, pyval_json(x)] for k, x in v.items()]}
    return v


def pyval_unjson(v):
    if isinstance(v, dict):
        if "__fl__" in v:
            return v["__fl__"] / 2
        return {k: pyval_unjson(x) for k, x in v["__d__"]}
    if isinstance(v, list):
        return [pyval_unjson(x) for x in v]
    return v


# ----------------------------------------------------------------------------- documents -> S-expressions


def sel_sx(s):
    if s[0] == "field":
        _, alias, name, args, dirs, sub = s
        return (
            f"(field {alias or '-'} {name} (args" + "".join(f" ({n} {lit_sx(v)})" for n, v in args) + ") "
            + dirs_sx(dirs) + "".join(" " + sel_sx(x) for x in sub) + ")"
        )
    if s[0] == "inline":
        _, cond, dirs, sub = s
        return f"(inline {cond or '-'} " + dirs_sx(dirs) + "".join(" " + sel_sx(x) for x in sub) + ")"
    return f"(spread {s[1]} " + dirs_sx(s[2]) + ")"


def dirs_sx(dirs):
    return "(dirs" + "".join(f" (d {n}" + "".join(f" ({a} {lit_sx(v)})" for a, v in args) + ")" for n, args in dirs) + ")"


def ast_value(node):
    """graphql-core value AST -> literal struct"""
    from graphql.language import ast as A

    if isinstance(node, A.VariableNode):
        return ("var", node.name.value)
    if isinstance(node, A.IntValueNode):
        return ("i", int(node.value))
    if isinstance(node, A.FloatValueNode):
        h = float(node.value) * 2
        if h != int(h):
            raise ValueError("float literal outside the harness domain: " + node.value)
        return ("fl", int(h))
    if isinstance(node, A.StringValueNode):
        return ("s", node.value)
    if isinstance(node, A.BooleanValueNode):
        return ("b", bool(node.value))
    if isinstance(node, A.NullValueNode):
        return ("null",)
    if isinstance(node, A.EnumValueNode):
        return ("e", node.value)
    if isinstance(node, A.ListValueNode):
        return ("l", [ast_value(x) for x in node.values])
    if isinstance(node, A.ObjectValueNode):
        return ("o", [(f.name.value, ast_value(f.value)) for f in node.fields])
    raise ValueError(node)


def ast_type(node):
    from graphql.language import ast as A

    if isinstance(node, A.NonNullTypeNode):
        t = ast_type(node.type)
        return (t[0], t[1], True)
    if isinstance(node, A.ListTypeNode):
        return ("l", ast_type(node.type), False)
    return ("n", node.name.value, False)


def ast_sels(selection_set):
    from graphql.language import ast as A

    out = []
    if not selection_set:
        return out
    for s in selection_set.selections:
        dirs = [(d.name.value, [(a.name.value, ast_value(a.value)) for a in d.arguments or ()]) for d in s.directives or ()]
        if isinstance(s, A.FieldNode):
            out.append(("field", s.alias.value if s.alias else None, s.name.value, [(a.name.value, ast_value(a.value)) for a in s.arguments or ()], dirs, ast_sels(s.selection_set)))
        elif isinstance(s, A.InlineFragmentNode):
            out.append(("inline", s.type_condition.name.value if s.type_condition else None, dirs, ast_sels(s.selection_set)))
        else:
            out.append(("spread", s.name.value, dirs))
    return out


def ast_doc_sx(document):
    """serialise a parsed DocumentNode (what the executor actually sees)"""
    from graphql.language import ast as A

    ops, frags = [], []
    for d in document.definitions:
        if isinstance(d, A.OperationDefinitionNode):
            vds = "".join(
                f" (v {v.variable.name.value} {type_sx(ast_type(v.type))} {lit_sx(ast_value(v.default_value)) if v.default_value is not None else '-'})"
                for v in d.variable_definitions or ()
            )
            ops.append(f"(op {d.operation.value} {d.name.value if d.name else '-'} (vars{vds})" + "".join(" " + sel_sx(s) for s in ast_sels(d.selection_set)) + ")")
        elif isinstance(d, A.FragmentDefinitionNode):
            frags.append(f"(frag {d.name.value} {d.type_condition.name.value}" + "".join(" " + sel_sx(s) for s in ast_sels(d.selection_set)) + ")")
    return "(doc (ops" + "".join(" " + o for o in ops) + ") (frags" + "".join(" " + f for f in frags) + "))"


def schema_sx_from_sdl(sdl):
    """serialise the type definitions from the SDL text that `build_schema` gets"""
    from graphql import parse
    from graphql.language import ast as A

    doc = parse(sdl)
    out = []
    names = set()
    for d in doc.definitions:
        name = d.name.value if getattr(d, "name", None) else None
        if name:
            names.add(name)

        def argdef(a):
            dv = lit_sx(ast_value(a.default_value)) if a.default_value is not None else "-"
            return f"(a {a.name.value} {type_sx(ast_type(a.type))} {dv})"

        if isinstance(d, A.EnumTypeDefinitionNode):
            out.append(f"(enum {name} " + " ".join(v.name.value for v in d.values) + ")")
        elif isinstance(d, A.InputObjectTypeDefinitionNode):
            one = any(x.name.value == "oneOf" for x in d.directives or ())
            out.append(f"({'input1' if one else 'input'} {name}" + "".join(" " + argdef(f) for f in d.fields) + ")")
        elif isinstance(d, A.UnionTypeDefinitionNode):
            out.append(f"(union {name} " + " ".join(t.name.value for t in d.types) + ")")
        elif isinstance(d, (A.ObjectTypeDefinitionNode, A.InterfaceTypeDefinitionNode)):
            kw = "iface" if isinstance(d, A.InterfaceTypeDefinitionNode) else "object"
            fs = "".join(
                f" (f {f.name.value} {type_sx(ast_type(f.type))}" + "".join(" " + argdef(a) for a in f.arguments or ()) + ")" for f in d.fields
            )
            out.append(f"({kw} {name} (" + " ".join(i.name.value for i in d.interfaces or ()) + ")" + fs + ")")
        elif isinstance(d, A.ScalarTypeDefinitionNode):
            out.append(f"(scalar {name})")
        else:
            raise ValueError(f"unsupported SDL definition {type(d).__name__}")
    q = "Query" if "Query" in names else "-"
    m = "Mutation" if "Mutation" in names else "-"
    return f"(schema {q} {m} " + " ".join(out) + ")"


# ----------------------------------------------------------------------------- C13: merged keys in two contexts


def two_context_info():
    """A schema on which fields that collide on a response key differ in ways execution can observe
    (a required argument on one side only, leaf kinds, nullability, object vs leaf)."""

    def f(name, t, args=()):
        return {"name": name, "type": t, "args": [{"name": a, "type": at, "default": d} for a, at, d in args]}

    types = {
        "P1": {"kind": "object", "ifaces": [], "fields": [
            f("k", T("String")), f("k2", T("String"), [("req", T("Int", True), None)]), f("n", T("Int", True)), f("same", T("String")),
            f("z", T("Int"), [("a", T("Int", True), None), ("b", T("String"), None)])]},
        "P2": {"kind": "object", "ifaces": [], "fields": [
            f("k2", T("String")), f("k", T("Int")), f("n", T("Int")), f("same", T("String")), f("z", T("Int")),
            f("k3", T("String"), [("opt", T("Int", True), ("i", 4))])]},
        "Item": {"kind": "object", "ifaces": [], "fields": [
            f("p", T("P1")), f("q", T("P2")), f("s", T("String")), f("i", T("Int")), f("pl", L(T("P1", True)))]},
        "Holder": {"kind": "object", "ifaces": [], "fields": [f("item", T("Item")), f("other", T("Item"))]},
        "Dog": {"kind": "object", "ifaces": [], "fields": [f("holder", T("Holder")), f("name", T("String"))]},
        "Cat": {"kind": "object", "ifaces": [], "fields": [f("holder", T("Holder")), f("name", T("String"))]},
        "Pet": {"kind": "union", "members": ["Dog", "Cat"]},
        "Query": {"kind": "object", "ifaces": [], "fields": [
            f("pet", T("Pet")), f("pets", L(T("Pet"))), f("holder", T("Holder")), f("dog", T("Dog"))]},
    }
    return {"types": types, "order": list(types), "query": "Query", "mutation": None}


def gen_two_context_document(rng):
    """Two fragments compared once under mutually exclusive parents (`... on Dog` / `... on Cat`) and
    once side by side on the same object, in either visiting order; their bodies collide on the
    response key `x` (validate() decides which documents are acceptable)."""
    leafy = [
        "x: p { k }", "x: q { k2 }", "x: p { k2(req: 1) }", "x: q { k }", "x: p { n }", "x: q { n }",
        "x: s", "x: i", "x: p { same }", "x: q { same }", "x: pl { k }", "x: __typename", "x: q { k3 }",
        "x: q { k2 k3(opt: 2) }",
    ]

    def body(allow_spread):
        parts = rng.sample(leafy, rng.choice([1, 1, 2]))
        if allow_spread and rng.random() < 0.45:
            parts = [rng.choice(["...F3", "...F4"])] + (parts[:1] if rng.random() < 0.3 else [])
        return " ".join(parts)

    f3, f4 = body(False), body(False)
    via = lambda b: f"a: {rng.choice(['item', 'item', 'other'])} {{ {b} }}"  # noqa: E731
    f1, f2 = via(body(True)), via(body(True))
    if rng.random() < 0.65:
        # a pair that can only be merged when the parents are mutually exclusive, and whose merge is
        # observable at run time: the sub-selection written for `q: P2` needs arguments on `p: P1`
        pa = rng.choice(["k", "same", "n", "k same", "z(a: 1)"])
        qb = rng.choice(["k2", "k2 same", "z", "z k2", "same k2"])
        first, second = f"x: p {{ {pa} }}", f"x: q {{ {qb} }}"
        if rng.random() < 0.25:
            first, second = second, first
        spread_side = rng.choice([0, 1, 1, 2])  # which side reaches its body through a fragment spread
        target = rng.choice(["item", "item", "other"])
        if spread_side == 1:
            f3 = second
            f1, f2 = f"a: {target} {{ {first} }}", f"a: {target} {{ ...F3 }}"
        elif spread_side == 2:
            f3, f4 = first, second
            f1, f2 = f"a: {target} {{ ...F3 }}", f"a: {target} {{ ...F4 }}"
        else:
            f1, f2 = f"a: {target} {{ {first} }}", f"a: {target} {{ {second} }}"
        if rng.random() < 0.3:
            f1, f2 = f2, f1
    excl = rng.choice([
        "pet { ... on Dog { o: holder { ...F1 } } ... on Cat { o: holder { ...F2 } } }",
        "pet { ... on Dog { o: holder { ...F2 } } ... on Cat { o: holder { ...F1 } } }",
        "pets { ... on Dog { o: holder { ...F1 } } ... on Cat { o: holder { ...F2 } name } }",
        "pet { ... on Cat { o: holder { ...F1 } } ... on Dog { o: holder { ...F2 } } }",
    ])
    over = rng.choice([
        "holder { ...F1 ...F2 }", "holder { ...F2 ...F1 }", "dog { holder { ...F1 } holder { ...F2 } }",
        "h: holder { ...F1 } h: holder { ...F2 }", "dog { holder { ...F2 ...F1 } }",
        "pet { ... on Dog { holder { ...F1 } } ... on Dog { holder { ...F2 } } }",
    ])
    blocks = [excl, over]
    if rng.random() < 0.5:
        blocks.reverse()
    if rng.random() < 0.25:
        blocks = blocks[:1]
    q = "{ " + " ".join(blocks) + " }"
    frs = {"F1": ("Holder", f1), "F2": ("Holder", f2), "F3": ("Item", f3), "F4": ("Item", f4)}
    used, todo = set(), [n for n in frs if "..." + n in q]
    while todo:
        n = todo.pop()
        if n in used:
            continue
        used.add(n)
        todo += [m for m in frs if "..." + m in frs[n][1]]
    text = q + "".join(f"\nfragment {n} on {frs[n][0]} {{ {frs[n][1]} }}" for n in frs if n in used)
    return text
