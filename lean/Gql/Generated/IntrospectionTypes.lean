import Gql.Types.IntroConform
/- T1: the declared shape of `introspection_types`, regenerated from src/graphql/type/introspection.py by
   checks/c18.py (do not edit): per object type its fields with declared types, per enum its value names
   (as code points), and the declared types of the `__schema` / `__type` meta fields. -/
namespace Gql.Generated
open Gql.Types

def introspectionTable : ITable where
  objects :=
  [("__Schema", [(.description, .named "String"), (.types, .nonNull (.list (.nonNull (.named "__Type")))), (.queryType, .nonNull (.named "__Type")), (.mutationType, .named "__Type"), (.subscriptionType, .named "__Type"), (.directives, .nonNull (.list (.nonNull (.named "__Directive"))))]),
   ("__Directive", [(.name, .nonNull (.named "String")), (.description, .named "String"), (.isRepeatable, .nonNull (.named "Boolean")), (.locations, .nonNull (.list (.nonNull (.named "__DirectiveLocation")))), (.args, .nonNull (.list (.nonNull (.named "__InputValue")))), (.isDeprecated, .nonNull (.named "Boolean")), (.deprecationReason, .named "String")]),
   ("__Type", [(.kind, .nonNull (.named "__TypeKind")), (.name, .named "String"), (.description, .named "String"), (.specifiedByURL, .named "String"), (.fields, .list (.nonNull (.named "__Field"))), (.interfaces, .list (.nonNull (.named "__Type"))), (.possibleTypes, .list (.nonNull (.named "__Type"))), (.enumValues, .list (.nonNull (.named "__EnumValue"))), (.inputFields, .list (.nonNull (.named "__InputValue"))), (.ofType, .named "__Type"), (.isOneOf, .named "Boolean")]),
   ("__Field", [(.name, .nonNull (.named "String")), (.description, .named "String"), (.args, .nonNull (.list (.nonNull (.named "__InputValue")))), (.type, .nonNull (.named "__Type")), (.isDeprecated, .nonNull (.named "Boolean")), (.deprecationReason, .named "String")]),
   ("__InputValue", [(.name, .nonNull (.named "String")), (.description, .named "String"), (.type, .nonNull (.named "__Type")), (.defaultValue, .named "String"), (.isDeprecated, .nonNull (.named "Boolean")), (.deprecationReason, .named "String")]),
   ("__EnumValue", [(.name, .nonNull (.named "String")), (.description, .named "String"), (.isDeprecated, .nonNull (.named "Boolean")), (.deprecationReason, .named "String")])]
  enums :=
  [("__DirectiveLocation",
     [[81, 85, 69, 82, 89], [77, 85, 84, 65, 84, 73, 79, 78], [83, 85, 66, 83, 67, 82, 73, 80, 84, 73, 79, 78], [70, 73, 69, 76, 68], [70, 82, 65, 71, 77, 69, 78, 84, 95, 68, 69, 70, 73, 78, 73, 84, 73, 79, 78], [70, 82, 65, 71, 77, 69, 78, 84, 95, 83, 80, 82, 69, 65, 68], [73, 78, 76, 73, 78, 69, 95, 70, 82, 65, 71, 77, 69, 78, 84], [86, 65, 82, 73, 65, 66, 76, 69, 95, 68, 69, 70, 73, 78, 73, 84, 73, 79, 78], [70, 82, 65, 71, 77, 69, 78, 84, 95, 86, 65, 82, 73, 65, 66, 76, 69, 95, 68, 69, 70, 73, 78, 73, 84, 73, 79, 78], [83, 67, 72, 69, 77, 65], [83, 67, 65, 76, 65, 82], [79, 66, 74, 69, 67, 84], [70, 73, 69, 76, 68, 95, 68, 69, 70, 73, 78, 73, 84, 73, 79, 78], [65, 82, 71, 85, 77, 69, 78, 84, 95, 68, 69, 70, 73, 78, 73, 84, 73, 79, 78], [73, 78, 84, 69, 82, 70, 65, 67, 69], [85, 78, 73, 79, 78], [69, 78, 85, 77], [69, 78, 85, 77, 95, 86, 65, 76, 85, 69], [73, 78, 80, 85, 84, 95, 79, 66, 74, 69, 67, 84], [73, 78, 80, 85, 84, 95, 70, 73, 69, 76, 68, 95, 68, 69, 70, 73, 78, 73, 84, 73, 79, 78], [68, 73, 82, 69, 67, 84, 73, 86, 69, 95, 68, 69, 70, 73, 78, 73, 84, 73, 79, 78]]),
   ("__TypeKind",
     [[83, 67, 65, 76, 65, 82], [79, 66, 74, 69, 67, 84], [73, 78, 84, 69, 82, 70, 65, 67, 69], [85, 78, 73, 79, 78], [69, 78, 85, 77], [73, 78, 80, 85, 84, 95, 79, 66, 74, 69, 67, 84], [76, 73, 83, 84], [78, 79, 78, 95, 78, 85, 76, 76]])]

def schemaMetaFieldType : ITy := .nonNull (.named "__Schema")

def typeMetaFieldType : ITy := .named "__Type"

end Gql.Generated
