/- T1: regenerated from src/graphql/utilities/get_introspection_query.py by checks/c18.py (do not edit). -/
namespace Gql.Generated

def introspectionOptionNames : List String :=
  ["descriptions", "specified_by_url", "directive_is_repeatable", "schema_description", "input_value_deprecation", "experimental_directive_deprecation", "one_of"]

def introspectionOptionDefaults : List Bool :=
  [true, false, false, false, false, false, false]

def introspectionTypeDepth : Nat := 9

end Gql.Generated
