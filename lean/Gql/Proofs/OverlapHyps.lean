import Gql.Proofs.OverlapNoFrag
/-! C14: the document-level hypotheses of `overlap_iff_nofrag`, from simple syntactic conditions. -/
namespace Gql.Exec
open Overlap

/-- selection-set identities are pairwise different (the document is a tree of distinct nodes) -/
def Doc.IdsNodup (d : Doc) : Prop := (d.allSets.map (·.id)).Nodup

/-- no field of the document is the meta field `__typename` -/
def Doc.NoTypename (d : Doc) : Prop :=
  ∀ ss ∈ d.allSets, ∀ n ∈ selsFields ss.sels, n.name ≠ "__typename"

theorem Doc.NoTypename.inst {s : Schema} {d : Doc} (h : d.NoTypename) {a : Spec.FieldInst}
    (ha : DocInst s d a) : a.node.name ≠ "__typename" := by
  obtain ⟨t, ht, hm⟩ := ha
  exact h _ (Doc.typedSets_allSets ht) _ (node_mem_of_flat hm)

/-! ### argument well-formedness -/

mutual
theorem Sel.argsWF_facts : ∀ (x : Sel), x.argsWF = true →
    (∀ n ∈ x.fields, n.argsOK) ∧ (∀ ss ∈ x.subSets, selsArgsWF ss.sels = true)
  | .field id al name args st hasSub subId sub, h => by
    simp only [Sel.argsWF, Bool.and_eq_true] at h
    obtain ⟨⟨h1, h2⟩, h3⟩ := h
    refine ⟨fun n hn => ?_, fun ss hss => ?_⟩
    · simp only [Sel.fields, List.mem_singleton] at hn
      subst hn
      refine ⟨h1, fun x hx => ?_⟩
      simp only at hx
      subst hx
      simpa using h2
    · simp only [Sel.subSets, List.mem_append] at hss
      rcases hss with hss | hss
      · cases hasSub with
        | false => simp at hss
        | true =>
          simp only [if_true, List.mem_singleton] at hss
          subst hss
          exact h3
      · exact (selsArgsWF_facts sub h3).2 ss hss
  | .inline tc ssId sels, h => by
    simp only [Sel.argsWF] at h
    obtain ⟨h1, h2⟩ := selsArgsWF_facts sels h
    refine ⟨fun n hn => h1 n (by simpa [Sel.fields] using hn), fun ss hss => ?_⟩
    simp only [Sel.subSets, List.mem_cons] at hss
    rcases hss with rfl | hss
    · exact h
    · exact h2 ss hss
  | .spread _, _ => by simp [Sel.fields, Sel.subSets]
theorem selsArgsWF_facts : ∀ (xs : List Sel), selsArgsWF xs = true →
    (∀ n ∈ selsFields xs, n.argsOK) ∧ (∀ ss ∈ selsSubSets xs, selsArgsWF ss.sels = true)
  | [], _ => by simp [selsFields, selsSubSets]
  | x :: xs, h => by
    simp only [selsArgsWF, Bool.and_eq_true] at h
    obtain ⟨a1, a2⟩ := Sel.argsWF_facts x h.1
    obtain ⟨b1, b2⟩ := selsArgsWF_facts xs h.2
    refine ⟨fun n hn => ?_, fun ss hss => ?_⟩
    · simp only [selsFields, List.mem_append] at hn
      rcases hn with hn | hn
      · exact a1 n hn
      · exact b1 n hn
    · simp only [selsSubSets, List.mem_append] at hss
      rcases hss with hss | hss
      · exact a2 ss hss
      · exact b2 ss hss
end

theorem Doc.argsWF_inst {s : Schema} {d : Doc} (h : d.argsWF = true) {a : Spec.FieldInst}
    (ha : DocInst s d a) : a.node.argsOK := by
  obtain ⟨t, ht, hm⟩ := ha
  have hss := Doc.typedSets_allSets ht
  obtain ⟨df, hdf, hcase⟩ := Doc.mem_allSets hss
  have hdfw : selsArgsWF df.ss.sels = true := by
    simp only [Doc.argsWF, List.all_eq_true] at h
    have := h df hdf
    cases df <;> simpa [Defn.ss] using this
  have hw : selsArgsWF t.2.sels = true := by
    rcases hcase with e | hin
    · rw [e]; exact hdfw
    · exact (selsArgsWF_facts _ hdfw).2 _ hin
  exact (selsArgsWF_facts _ hw).1 _ (node_mem_of_flat hm)

/-! ### identities -/

mutual
theorem Sel.typedSets_sublist (s : Schema) : ∀ (x : Sel) (p : Option String),
    ((x.typedSets s p).map (·.2)).Sublist x.subSets
  | .field id al name args st hasSub subId sub, p => by
    cases hasSub with
    | false =>
      simp only [Sel.typedSets, Bool.false_eq_true, if_false, List.map_nil]
      exact List.nil_sublist _
    | true =>
      simp only [Sel.typedSets, if_true, List.map_cons, Sel.subSets, List.singleton_append]
      exact List.Sublist.cons₂ _ (selsTypedSets_sublist s sub _)
  | .inline tc ssId sels, p => by
    simp only [Sel.typedSets, List.map_cons, Sel.subSets]
    exact List.Sublist.cons₂ _ (selsTypedSets_sublist s sels _)
  | .spread _, p => by simp [Sel.typedSets, Sel.subSets]
theorem selsTypedSets_sublist (s : Schema) : ∀ (xs : List Sel) (p : Option String),
    ((selsTypedSets s p xs).map (·.2)).Sublist (selsSubSets xs)
  | [], p => by simp [selsTypedSets, selsSubSets]
  | x :: xs, p => by
    simp only [selsTypedSets, List.map_append, selsSubSets]
    exact List.Sublist.append (Sel.typedSets_sublist s x p) (selsTypedSets_sublist s xs p)
end

theorem Doc.typedSets_sublist (s : Schema) (d : Doc) :
    ((d.typedSets s).map (·.2)).Sublist d.allSets := by
  induction d with
  | nil => simp [Doc.typedSets, Doc.allSets]
  | cons df rest ih =>
    simp only [Doc.typedSets, Doc.allSets, List.flatMap_cons, List.map_append, List.map_cons] at ih ⊢
    exact List.Sublist.append (List.Sublist.cons₂ _ (selsTypedSets_sublist s _ _)) ih

theorem eq_of_nodup_map {α β : Type} (f : α → β) {l : List α} (h : (l.map f).Nodup) {x y : α}
    (hx : x ∈ l) (hy : y ∈ l) (e : f x = f y) : x = y := by
  induction l with
  | nil => cases hx
  | cons a as ih =>
    simp only [List.map_cons, List.nodup_cons, List.mem_map, not_exists, not_and] at h
    rcases List.mem_cons.1 hx with hxa | hx <;> rcases List.mem_cons.1 hy with hya | hy
    · rw [hxa, hya]
    · exact absurd (by rw [← e, hxa]) (h.1 y hy)
    · exact absurd (by rw [e, hya]) (h.1 x hx)
    · exact ih h.2 hx hy

theorem Doc.IdsNodup.typed {d : Doc} (h : d.IdsNodup) (s : Schema) : TypedIdsUnique s d := by
  have h1 : ((d.typedSets s).map (fun t => t.2.id)).Nodup := by
    have := (Doc.typedSets_sublist s d).map (·.id)
    rw [List.map_map] at this
    exact List.Nodup.sublist this h
  intro x hx y hy e
  exact eq_of_nodup_map (fun t => t.2.id) h1 hx hy e

/-! ### ScalarLeafs implies `LeafNoSub` -/

/-- a field whose return type is (a wrapped) scalar or enum has no sub-selection -/
def ScalarLeafs (s : Schema) (d : Doc) : Prop :=
  ∀ t ∈ d.typedSets s, ∀ a ∈ selsFlat s t.1 t.2.sels,
    (a.node.hasSub && (match Spec.fieldType s a.parent a.node.name with
      | some ty => Spec.namedIsLeaf ty
      | none => false)) = false

theorem reach_docInst {s : Schema} {d : Doc} (hn : d.NoSpreads) {st0 st : Spec.State}
    (hr : Spec.Reach s d st0 st) :
    DocInst s d st0.a → DocInst s d st0.b → DocInst s d st.a ∧ DocInst s d st.b := by
  induction hr with
  | refl st => exact fun ha hb => ⟨ha, hb⟩
  | @step a b c hstep _ ih =>
    intro ha hb
    obtain ⟨aa, ab, af⟩ := a
    obtain ⟨c1, c2, rfl, _, hcase⟩ := mem_succs hn ha hb hstep
    apply ih
    · rcases hcase with ⟨hsa, hp⟩ | ⟨hsa, _, h1, _⟩ | ⟨hsb, hp⟩
      · exact DocInst.child ha hsa (Spec.pairsOf_mem hp).1
      · exact DocInst.child ha hsa h1
      · exact DocInst.child hb hsb (Spec.pairsOf_mem hp).1
    · rcases hcase with ⟨hsa, hp⟩ | ⟨_, hsb, _, h2⟩ | ⟨hsb, hp⟩
      · exact DocInst.child ha hsa (Spec.pairsOf_mem hp).2
      · exact DocInst.child hb hsb h2
      · exact DocInst.child hb hsb (Spec.pairsOf_mem hp).2

theorem leafNoSub_of_scalarLeafs {s : Schema} {d : Doc} (hn : d.NoSpreads)
    (hs : ScalarLeafs s d) : LeafNoSub s d := by
  intro st0 h0 st hr hl
  obtain ⟨t, ht, pr, hpr, rfl⟩ := (mem_initStates hn).1 h0
  obtain ⟨ha0, hb0⟩ := DocInst.of_pair ht hpr
  obtain ⟨⟨ta, hta, hma⟩, ⟨tb, htb, hmb⟩⟩ := reach_docInst hn hr ha0 hb0
  have xa := hs ta hta _ hma
  have xb := hs tb htb _ hmb
  simp only [Spec.leafStop, Spec.typesOf] at hl
  cases h1 : Spec.fieldType s st.a.parent st.a.node.name with
  | none => simp [h1] at hl
  | some ty1 =>
    cases h2 : Spec.fieldType s st.b.parent st.b.node.name with
    | none => simp [h1, h2] at hl
    | some ty2 =>
      simp only [h1, h2, Bool.or_eq_true] at hl
      simp only [h1, Bool.and_eq_false_iff] at xa
      simp only [h2, Bool.and_eq_false_iff] at xb
      rcases hl with hl | hl
      · rcases xa with xa | xa
        · simp [xa]
        · rw [hl] at xa; cases xa
      · rcases xb with xb | xb
        · simp [xb]
        · rw [hl] at xb; cases xb

theorem fuelBound_ge (d : Doc) : 2 * d.depth + 1 ≤ fuelBound d := by
  simp only [fuelBound, Nat.succ_mul]
  omega

/-- **Documents without fragment spreads**: the rule (with `fuelBound` recursion depth, for any
linear sort-key order) reports at least one conflict iff the specification rejects. -/
theorem overlap_iff_nofrag_le (le : String → String → Bool) (hle : LinOrd le) (s : Schema)
    (d : Doc) (hn : d.NoSpreads) (hI : d.IdsNodup) (hA : d.argsWF = true) (hT : d.NoTypename)
    (hR : RootsObject s d) (hL : LeafNoSub s d) :
    ∃ cs, implConflictsFuel le (fuelBound d) s d = some cs ∧
      (cs ≠ [] ↔ Spec.SpecConflict s d) := by
  obtain ⟨cs, e, i⟩ := implConflictsFuel_nofrag le hle s d hn (hI.typed s)
    (fun a ha => Doc.argsWF_inst hA ha) (fun a ha => hT.inst ha) hR _ (fuelBound_ge d)
  exact ⟨cs, e, i.trans (wconf_iff_specConflict hn hL)⟩

end Gql.Exec
