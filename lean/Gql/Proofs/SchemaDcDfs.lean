import Gql.Proofs.SchemaDcGraph
/-
Lemmas for C20, part 11: `InputObjectDefaultValueCircularRefsValidator` — a depth-first search
over the default-value graph with visited fields shared between calls — never exhausts its
recursion budget, and reports an error exactly when a field with a default reaches itself.
-/
namespace Gql.Types
open Gql

def dcKeys (st : DCState) : List Str := st.index.map (·.1)

/-- visited and no longer on the path -/
def BlackD (st : DCState) (c : Str) : Prop := c ∈ st.visited ∧ c ∉ dcKeys st

def ClosedD (s : RawSchema) (P : Str → Prop) : Prop :=
  ∀ n, NodeOK s n → P n.c → ∀ n', EdgeD s n n' → Live n' → P n'.c

def AcyclicD (s : RawSchema) (P : Str → Prop) : Prop :=
  ∀ n, NodeOK s n → P n.c → ¬ RPlus (EdgeD s) n n

def CycleErrD (s : RawSchema) (e : Err) : Prop :=
  e.kind = .defaultCycle ∧ ∃ n, NodeOK s n ∧ n.c = e.subj ∧ RPlus (EdgeD s) n n

theorem ClosedD.congr {s : RawSchema} {P Q : Str → Prop} (h : ∀ x, P x ↔ Q x) (hc : ClosedD s P) :
    ClosedD s Q := fun n hn hq n' e hl => (h _).mp (hc n hn ((h _).mpr hq) n' e hl)

theorem AcyclicD.congr {s : RawSchema} {P Q : Str → Prop} (h : ∀ x, P x ↔ Q x) (hc : AcyclicD s P) :
    AcyclicD s Q := fun n hn hq => hc n hn ((h _).mpr hq)

theorem closedD_reach {s : RawSchema} {P : Str → Prop} (hc : ClosedD s P) {n n' : DNode}
    (h : RStar (EdgeD s) n n') : NodeOK s n → P n.c → Live n' → P n'.c := by
  induction h with
  | refl => intro _ hp _; exact hp
  | @step a b c e hr ih =>
    intro hok hp hl
    have hlb : Live b := by
      rcases rstar_live hr with rfl | h
      · exact hl
      · exact h
    exact ih (succD_ok e) (hc a hok hp b e hlb) hl

def dcUnvisited (s : RawSchema) (st : DCState) : Nat :=
  (coordUniverse s).countP (fun c => !st.visited.contains c)

theorem dcUnvisited_mono (s : RawSchema) {st st' : DCState}
    (h : ∀ n ∈ st.visited, n ∈ st'.visited) : dcUnvisited s st' ≤ dcUnvisited s st := by
  unfold dcUnvisited
  apply List.countP_mono_left
  intro n _ hn
  simp only [List.contains_eq_mem, Bool.not_eq_eq_eq_not, Bool.not_true, decide_eq_false_iff_not] at hn ⊢
  exact fun hc => hn (h n hc)

theorem dcUnvisited_lt_fuel (s : RawSchema) (st : DCState) : dcUnvisited s st < dcFuel s := by
  have := coordUniverse_length s
  have h2 : dcUnvisited s st ≤ (coordUniverse s).length := List.countP_le_length
  omega

structure StepD (s : RawSchema) (st r : DCState) (extra : Prop) : Prop where
  index_eq : r.index = st.index
  vis_mono : ∀ x ∈ st.visited, x ∈ r.visited
  oof : r.outOfFuel = false
  errs : ∃ new, r.errs = st.errs ++ new ∧ (∀ e ∈ new, CycleErrD s e) ∧
    (new = [] → ClosedD s (BlackD st) → AcyclicD s (BlackD st) →
      ClosedD s (BlackD r) ∧ AcyclicD s (BlackD r) ∧ extra)

theorem StepD.black_mono {s : RawSchema} {st r : DCState} {e : Prop} (h : StepD s st r e) {x : Str}
    (hx : BlackD st x) : BlackD r x := by
  refine ⟨h.vis_mono x hx.1, ?_⟩
  unfold dcKeys; rw [h.index_eq]; exact hx.2

theorem StepD.rfl' {s : RawSchema} {st : DCState} {e : Prop} (ho : st.outOfFuel = false) (he : e) :
    StepD s st st e :=
  ⟨rfl, fun _ h => h, ho, [], by simp, by simp, fun _ hc ha => ⟨hc, ha, he⟩⟩

theorem filter_keys_ne' (l : List (Str × Nat)) (c : Str) (h : c ∉ l.map (·.1)) :
    l.filter (fun e => !(e.1 == c)) = l := by
  rw [List.filter_eq_self]
  intro e he
  have : e.1 ≠ c := fun heq => h (heq ▸ List.mem_map.mpr ⟨e, he, rfl⟩)
  simpa using this

/-- a loop over reached fields, given what one call does -/
theorem runNodes_step (s : RawSchema) (cb : InputValue → Str → Str → DCState → DCState)
    (idx0 : List (Str × Nat)) (vis0 : List Str) :
    ∀ (ns : List DNode),
    (∀ x ∈ ns, ∀ acc : DCState, acc.outOfFuel = false → acc.index = idx0 →
      (∀ c ∈ vis0, c ∈ acc.visited) → (∀ c ∈ dcKeys acc, c ∈ acc.visited) →
      StepD s acc (cb x.f x.m x.c acc) (Live x → BlackD (cb x.f x.m x.c acc) x.c)) →
    ∀ acc : DCState, acc.outOfFuel = false → acc.index = idx0 →
      (∀ c ∈ vis0, c ∈ acc.visited) → (∀ c ∈ dcKeys acc, c ∈ acc.visited) →
      StepD s acc (runNodes cb ns acc) (∀ x ∈ ns, Live x → BlackD (runNodes cb ns acc) x.c)
  | [], _, acc, ho, _, _, _ => by
    simp only [runNodes, List.foldl_nil]
    exact StepD.rfl' ho (by simp)
  | x :: ns, H, acc, ho, hi, hv, hk => by
    have hone := H x (by simp) acc ho hi hv hk
    have hk1 : ∀ c ∈ dcKeys (cb x.f x.m x.c acc), c ∈ (cb x.f x.m x.c acc).visited := by
      intro c hc
      have : c ∈ dcKeys acc := by unfold dcKeys at hc ⊢; rw [hone.index_eq] at hc; exact hc
      exact hone.vis_mono c (hk c this)
    have hrest := runNodes_step s cb idx0 vis0 ns (fun y hy => H y (by simp [hy]))
      (cb x.f x.m x.c acc) hone.oof (hone.index_eq.trans hi)
      (fun c hc => hone.vis_mono c (hv c hc)) hk1
    have hrun : runNodes cb (x :: ns) acc = runNodes cb ns (cb x.f x.m x.c acc) := by
      simp [runNodes]
    rw [hrun]
    refine ⟨hrest.index_eq.trans hone.index_eq, fun c hc => hrest.vis_mono c (hone.vis_mono c hc),
      hrest.oof, ?_⟩
    obtain ⟨n1, e1, c1, k1⟩ := hone.errs
    obtain ⟨n2, e2, c2, k2⟩ := hrest.errs
    refine ⟨n1 ++ n2, by rw [e2, e1, List.append_assoc], ?_, ?_⟩
    · intro e he
      rcases List.mem_append.mp he with h | h
      · exact c1 e h
      · exact c2 e h
    · intro hn hc ha
      obtain ⟨hn1, hn2⟩ := List.append_eq_nil_iff.mp hn
      obtain ⟨a1, a2, a3⟩ := k1 hn1 hc ha
      obtain ⟨b1, b2, b3⟩ := k2 hn2 a1 a2
      refine ⟨b1, b2, ?_⟩
      intro y hy hl
      rcases List.mem_cons.mp hy with rfl | hy
      · exact hrest.black_mono (a3 hl)
      · exact b3 y hy hl

theorem dcField_step (s : RawSchema) (hwf : NamesWF s) : ∀ (fuel : Nat) (n : DNode) (st : DCState),
    NodeOK s n → dcUnvisited s st < fuel → st.outOfFuel = false →
    (∀ c ∈ dcKeys st, c ∈ st.visited) →
    (∀ c ∈ dcKeys st, ∃ n0, NodeOK s n0 ∧ n0.c = c ∧ RPlus (EdgeD s) n0 n) →
    StepD s st (dcField s fuel n.f n.m n.c st) (Live n → BlackD (dcField s fuel n.f n.m n.c st) n.c)
  | 0, _, _, _, h, _, _, _ => by omega
  | fuel + 1, n, st, hok, hfuel, hoof, hkv, hpath => by
    unfold dcField
    cases hd : n.f.default with
    | none =>
      simp only
      exact StepD.rfl' hoof (by intro hl; simp [Live, hd] at hl)
    | some lit =>
      have hlive : Live n := by simp [Live, hd]
      simp only
      cases hfind : List.find? (fun e => e.1 == n.c) st.index with
      | some e =>
        have hck : n.c ∈ dcKeys st := by
          have h1 := List.find?_some hfind
          have h2 := List.mem_of_find?_eq_some hfind
          have : e.1 = n.c := by simpa using h1
          exact List.mem_map.mpr ⟨e, h2, this⟩
        obtain ⟨n0, hok0, hc0, hr0⟩ := hpath n.c hck
        have : n0 = n := node_inj hwf hok0 hok hc0
        subst this
        simp only
        refine ⟨rfl, fun _ h => h, hoof, [⟨.defaultCycle, n0.c⟩], rfl, ?_, by simp⟩
        intro e' he'
        simp only [List.mem_singleton] at he'
        subst he'
        exact ⟨rfl, n0, hok, rfl, hr0⟩
      | none =>
        have hnk : n.c ∉ dcKeys st := by
          intro hm
          obtain ⟨e, he, hem⟩ := List.mem_map.mp hm
          have := List.find?_eq_none.mp hfind e he
          simp [hem] at this
        simp only
        by_cases hv : st.visited.contains n.c = true
        · simp only [hv, ↓reduceIte]
          exact StepD.rfl' hoof (fun _ => ⟨by simpa using hv, hnk⟩)
        · simp only [hv, Bool.false_eq_true, ↓reduceIte]
          have hv' : n.c ∉ st.visited := by simpa using hv
          rw [dcLit_eq]
          suffices key : ∀ st2 : DCState, st2.visited = n.c :: st.visited → st2.outOfFuel = false →
              (∃ p, st2.index = (n.c, p) :: st.index) → st2.errs = st.errs →
              StepD s st
                { (runNodes (dcField s fuel) (need s lit n.m) st2) with
                  path := (runNodes (dcField s fuel) (need s lit n.m) st2).path.dropLast,
                  index := (runNodes (dcField s fuel) (need s lit n.m) st2).index.filter
                    (fun e => !(e.1 == n.c)) }
                (Live n → BlackD
                  { (runNodes (dcField s fuel) (need s lit n.m) st2) with
                    path := (runNodes (dcField s fuel) (need s lit n.m) st2).path.dropLast,
                    index := (runNodes (dcField s fuel) (need s lit n.m) st2).index.filter
                      (fun e => !(e.1 == n.c)) } n.c) from key _ rfl hoof ⟨_, rfl⟩ rfl
          intro st2 hvis2 hoof2 hidx2 herrs2
          obtain ⟨p2, hidx2⟩ := hidx2
          have hkeys2 : dcKeys st2 = n.c :: dcKeys st := by unfold dcKeys; rw [hidx2]; rfl
          have hlt : dcUnvisited s st2 < dcUnvisited s st := by
            unfold dcUnvisited
            apply countP_lt_of_mem _ _ _ n.c
            · intro x hx
              simp only [hvis2, List.contains_eq_mem, List.mem_cons, Bool.not_eq_eq_eq_not, Bool.not_true,
                decide_eq_false_iff_not, not_or] at hx ⊢
              exact hx.2
            · exact node_mem_universe hok
            · simpa using hv
            · simp [hvis2]
          have hblack2 : ∀ x, BlackD st x ↔ BlackD st2 x := by
            intro x
            unfold BlackD
            rw [hvis2, hkeys2]
            simp only [List.mem_cons, not_or]
            constructor
            · rintro ⟨h1, h2⟩; exact ⟨Or.inr h1, fun hx => hv' (hx ▸ h1), h2⟩
            · rintro ⟨h1 | h1, h2, h3⟩
              · exact absurd h1 h2
              · exact ⟨h1, h3⟩
          have hsucc : ∀ x, x ∈ need s lit n.m ↔ EdgeD s n x := by
            intro x; unfold EdgeD succD; rw [hd]
          have hkv2 : ∀ c ∈ dcKeys st2, c ∈ st2.visited := by
            intro c hc
            rw [hkeys2] at hc
            rw [hvis2]
            rcases List.mem_cons.mp hc with rfl | hc
            · simp
            · exact List.mem_cons_of_mem _ (hkv c hc)
          have hf := runNodes_step s (dcField s fuel) st2.index st2.visited (need s lit n.m)
            (by
              intro x hx acc ho hi hvv hk
              have hedge : EdgeD s n x := (hsucc x).mp hx
              exact dcField_step s hwf fuel x acc (succD_ok hedge)
                (by have := dcUnvisited_mono s (st := st2) (st' := acc) hvv; omega) ho hk
                (by
                  intro c hc
                  have hc' : c ∈ n.c :: dcKeys st := by
                    unfold dcKeys at hc; rw [hi, hidx2] at hc; exact hc
                  rcases List.mem_cons.mp hc' with rfl | hc'
                  · exact ⟨n, hok, rfl, x, hedge, .refl x⟩
                  · obtain ⟨n0, h1, h2, h3⟩ := hpath c hc'
                    exact ⟨n0, h1, h2, h3.tail hedge⟩))
            st2 hoof2 rfl (fun _ h => h) hkv2
          generalize hA : runNodes (dcField s fuel) (need s lit n.m) st2 = a at hf ⊢
          have hidx : a.index.filter (fun e => !(e.1 == n.c)) = st.index := by
            rw [hf.index_eq, hidx2]
            simp only [List.filter_cons, beq_self_eq_true, Bool.not_true, Bool.false_eq_true, ↓reduceIte]
            exact filter_keys_ne' st.index n.c hnk
          have hka : dcKeys a = n.c :: dcKeys st := by unfold dcKeys; rw [hf.index_eq]; exact hkeys2
          have hca : n.c ∈ a.visited := hf.vis_mono n.c (by rw [hvis2]; simp)
          have hblackr : ∀ x,
              BlackD { a with path := a.path.dropLast, index := a.index.filter (fun e => !(e.1 == n.c)) } x ↔
                (BlackD a x ∨ x = n.c) := by
            intro x
            unfold BlackD dcKeys
            simp only [hidx]
            have hka' : a.index.map (·.1) = n.c :: st.index.map (·.1) := hka
            rw [hka']
            simp only [List.mem_cons, not_or]
            constructor
            · rintro ⟨h1, h2⟩
              by_cases hx : x = n.c
              · exact Or.inr hx
              · exact Or.inl ⟨h1, hx, h2⟩
            · rintro (⟨h1, _, h3⟩ | rfl)
              · exact ⟨h1, h3⟩
              · exact ⟨hca, hnk⟩
          refine ⟨hidx, ?_, hf.oof, ?_⟩
          · intro x hx
            exact hf.vis_mono x (by rw [hvis2]; exact List.mem_cons_of_mem _ hx)
          · obtain ⟨new, e1, c1, k1⟩ := hf.errs
            refine ⟨new, by rw [← herrs2]; exact e1, c1, fun hn hc ha => ?_⟩
            obtain ⟨d1, d2, d3⟩ := k1 hn (hc.congr hblack2) (ha.congr hblack2)
            have hc_not_black : ¬ BlackD a n.c := by
              intro hb
              apply hb.2
              rw [hka]; simp
            refine ⟨?_, ?_, fun _ => (hblackr n.c).mpr (Or.inr rfl)⟩
            · intro n2 hok2 hb2 n' e hl'
              rcases (hblackr n2.c).mp hb2 with hb | hceq
              · exact (hblackr n'.c).mpr (Or.inl (d1 n2 hok2 hb n' e hl'))
              · have : n2 = n := node_inj hwf hok2 hok hceq
                subst this
                exact (hblackr n'.c).mpr (Or.inl (d3 n' ((hsucc n').mpr e) hl'))
            · intro n2 hok2 hb2 hcyc
              rcases (hblackr n2.c).mp hb2 with hb | hceq
              · exact d2 n2 hok2 hb hcyc
              · have : n2 = n := node_inj hwf hok2 hok hceq
                subst this
                obtain ⟨b, e, hr⟩ := hcyc
                have hlb : Live b := by
                  rcases rstar_live hr with rfl | h
                  · exact hlive
                  · exact h
                have hbb : BlackD a b.c := d3 b ((hsucc b).mpr e) hlb
                exact hc_not_black (closedD_reach d1 hr (succD_ok e) hbb hlive)

end Gql.Types
