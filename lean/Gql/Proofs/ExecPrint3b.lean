import Gql.Proofs.ExecPrint3
/-!
C08, stage 3: the printer model on type-system definitions.
-/
namespace Gql.Text
open Gql Gql.Syntax

set_option maxHeartbeats 1000000 in
theorem prTDef (w : Widths) (dd : Bool) (d : TDef) (h : Exec.tdefWf dd d) :
    pr w (Exec.tdefAst dd d) = .ok (.text (Exec.printTDef w d)) := by
  cases d with
  | schema desc ds ots =>
    have h1 := prDesc w desc
    have h4 := pr_dirsAst w ds
    have h6 := prList_map w Exec.otAst Exec.printOt ots (fun a _ => prOt w a)
    simp only [Exec.tdefAst, pr, prFields, h1, h4, h6, Out.bind_ok, Out.pure_eq]
    cases desc <;> by_cases hds : ds = [] <;>
      simp [leave, baseClass, optText, optTexts, fld, hds, Exec.printTDef, Exec.descPre, Exec.printDirs,
        Exec.descText]
  | scalar desc n ds =>
    have h1 := prDesc w desc
    have h4 := pr_dirsAst w ds
    have h5 := prNameNode w n
    simp only [Exec.tdefAst, pr, prFields, h1, h4, h5, Out.bind_ok, Out.pure_eq]
    cases desc <;> by_cases hds : ds = [] <;>
      simp [leave, baseClass, reqText, optText, optTexts, fld, hds, Exec.printTDef, Exec.descPre, Exec.printDirs,
        Exec.descText]
  | object iface desc n ifs ds fs => exact prTDef_object w dd iface desc n ifs ds fs
  | union desc n ds ts =>
    have h1 := prDesc w desc
    have h4 := pr_dirsAst w ds
    have h5 := prNameNode w n
    have h6 := pr_optL_map w namedType id ts (fun a _ => prNamedType w a)
    simp only [Exec.tdefAst, pr, prFields, h1, h4, h5, h6, Out.bind_ok, Out.pure_eq]
    cases desc <;> by_cases hds : ds = [] <;> by_cases hi : ts = [] <;>
      simp [leave, baseClass, reqText, optText, optTexts, fld, hds, hi, Exec.printTDef, Exec.descPre,
        Exec.printDirs, Exec.descText]
  | enum desc n ds vs =>
    have h1 := prDesc w desc
    have h4 := pr_dirsAst w ds
    have h5 := prNameNode w n
    have h6 := pr_optL_map w Exec.evAst (Exec.printEv w) vs (fun a _ => prEv w a)
    simp only [Exec.tdefAst, pr, prFields, h1, h4, h5, h6, Out.bind_ok, Out.pure_eq]
    cases desc <;> by_cases hds : ds = [] <;> by_cases hi : vs = [] <;>
      simp [leave, baseClass, reqText, optText, optTexts, fld, hds, hi, Exec.printTDef, Exec.descPre,
        Exec.printDirs, Exec.descText]
  | input desc n ds fs =>
    have h1 := prDesc w desc
    have h4 := pr_dirsAst w ds
    have h5 := prNameNode w n
    have h6 := pr_optL_map w Exec.ivdAst (Exec.printIvd w) fs (fun a _ => prIvd w a)
    simp only [Exec.tdefAst, pr, prFields, h1, h4, h5, h6, Out.bind_ok, Out.pure_eq]
    cases desc <;> by_cases hds : ds = [] <;> by_cases hi : fs = [] <;>
      simp [leave, baseClass, reqText, optText, optTexts, fld, hds, hi, Exec.printTDef, Exec.descPre,
        Exec.printDirs, Exec.descText]
  | directive desc n args ds rep locs =>
    have hdd : ds = [] ∨ dd = true := h.2.2.2.2.1
    have h1 := prDesc w desc
    have h4 := pr_dirsAst w ds
    have h5 := prNameNode w n
    have h6 := pr_optL_map w Exec.ivdAst (Exec.printIvd w) args (fun a _ => prIvd w a)
    have h7 := prList_map w Val.nameNode id locs (fun a _ => prNameNode w a)
    cases dd with
    | false =>
      have hds : ds = [] := by simpa using hdd
      subst hds
      simp only [Exec.tdefAst, pr, prFields, h1, h5, h6, h7, Out.bind_ok, Out.pure_eq, Bool.false_eq_true,
        ↓reduceIte]
      cases desc <;> cases rep <;> by_cases hi : args = [] <;>
        simp [leave, baseClass, reqText, optText, optTexts, optBool, fld, hi, Exec.printTDef, Exec.descPre,
          Exec.printDirs, Exec.descText]
    | true =>
      simp only [Exec.tdefAst, pr, prFields, h1, h4, h5, h6, h7, Out.bind_ok, Out.pure_eq, ↓reduceIte]
      cases desc <;> cases rep <;> by_cases hds : ds = [] <;> by_cases hi : args = [] <;>
        simp [leave, baseClass, reqText, optText, optTexts, optBool, fld, hds, hi, Exec.printTDef, Exec.descPre,
          Exec.printDirs, Exec.descText]

end Gql.Text
