import Gql.Proofs.Prune
/-!
`_add_groups`: whatever the order of the list and the depth of the recursion to the parents,
the effect is a sequence of `attachGroup` steps over pairwise distinct groups of the list
(the `visited` set guarantees it).  Each step keeps the forest.
-/
namespace Gql.Async

def attachSeq (σ : Static) (hpt : Bool) (S : List Nat) (r : WQ × List Nat) : WQ × List Nat :=
  S.foldl (fun r x => attachGroup σ hpt x r) r

theorem attachSeq_append (σ : Static) (hpt : Bool) (a b : List Nat) (r : WQ × List Nat) :
    attachSeq σ hpt (a ++ b) r = attachSeq σ hpt b (attachSeq σ hpt a r) := by
  simp [attachSeq]

theorem addGroup_visited (σ : Static) (gs : List Nat) (hpt : Bool) (n g : Nat)
    (acc : WQ × List Nat × List Nat) (hv : g ∈ acc.2.2) : addGroup σ gs hpt (n + 1) g acc = acc := by
  unfold addGroup; simp [hv]

theorem addGroup_leaf (σ : Static) (gs : List Nat) (hpt : Bool) (n g : Nat)
    (acc : WQ × List Nat × List Nat) (hv : g ∉ acc.2.2)
    (hp : ∀ p, σ.parent g = some p → p ∉ gs) :
    addGroup σ gs hpt (n + 1) g acc =
      ((attachGroup σ hpt g (acc.1, acc.2.1)).1, (attachGroup σ hpt g (acc.1, acc.2.1)).2, g :: acc.2.2) := by
  unfold addGroup
  cases h : σ.parent g with
  | none => simp [hv]
  | some p => simp [hv, hp p h]

theorem addGroup_rec (σ : Static) (gs : List Nat) (hpt : Bool) (n g p : Nat)
    (acc : WQ × List Nat × List Nat) (hv : g ∉ acc.2.2) (hp : σ.parent g = some p) (hpg : p ∈ gs) :
    addGroup σ gs hpt (n + 1) g acc =
      ((attachGroup σ hpt g ((addGroup σ gs hpt n p (acc.1, acc.2.1, g :: acc.2.2)).1,
          (addGroup σ gs hpt n p (acc.1, acc.2.1, g :: acc.2.2)).2.1)).1,
       (attachGroup σ hpt g ((addGroup σ gs hpt n p (acc.1, acc.2.1, g :: acc.2.2)).1,
          (addGroup σ gs hpt n p (acc.1, acc.2.1, g :: acc.2.2)).2.1)).2,
       (addGroup σ gs hpt n p (acc.1, acc.2.1, g :: acc.2.2)).2.2) := by
  conv => lhs; unfold addGroup
  simp [hv, hp, hpg]

theorem addGroup_seq (σ : Static) (gs : List Nat) (hpt : Bool) (fuel : Nat) :
    ∀ (g : Nat) (acc : WQ × List Nat × List Nat), ∃ S,
      ((addGroup σ gs hpt fuel g acc).1, (addGroup σ gs hpt fuel g acc).2.1)
        = attachSeq σ hpt S (acc.1, acc.2.1) ∧
      (∀ x, x ∈ (addGroup σ gs hpt fuel g acc).2.2 ↔ x ∈ S ∨ x ∈ acc.2.2) ∧
      S.Nodup ∧ ∀ x ∈ S, x ∉ acc.2.2 ∧ (x = g ∨ x ∈ gs) := by
  induction fuel with
  | zero =>
    intro g acc
    exact ⟨[], rfl, by simp [addGroup], List.nodup_nil, by simp⟩
  | succ n ih =>
    intro g acc
    by_cases hv : g ∈ acc.2.2
    · rw [addGroup_visited σ gs hpt n g acc hv]
      exact ⟨[], rfl, by simp, List.nodup_nil, by simp⟩
    · by_cases hrecur : ∃ p, σ.parent g = some p ∧ p ∈ gs
      · obtain ⟨p, hp, hpg⟩ := hrecur
        rw [addGroup_rec σ gs hpt n g p acc hv hp hpg]
        obtain ⟨S1, b1, b2, b3, b4⟩ := ih p (acc.1, acc.2.1, g :: acc.2.2)
        refine ⟨S1 ++ [g], ?_, ?_, ?_, ?_⟩
        · simp only
          rw [attachSeq_append, ← b1]
          rfl
        · intro x
          simp only
          rw [b2 x]
          simp only [List.mem_append, List.mem_cons, List.mem_singleton, List.not_mem_nil, or_false]
          constructor
          · rintro (h | h | h)
            · exact Or.inl (Or.inl h)
            · exact Or.inl (Or.inr h)
            · exact Or.inr h
          · rintro ((h | h) | h)
            · exact Or.inl h
            · exact Or.inr (Or.inl h)
            · exact Or.inr (Or.inr h)
        · rw [List.nodup_append]
          refine ⟨b3, by simp, ?_⟩
          intro x hx y hy e
          simp at hy; subst hy; subst e
          exact (b4 x hx).1 (by simp)
        · intro x hx
          rcases List.mem_append.mp hx with hx | hx
          · refine ⟨fun h => (b4 x hx).1 (List.mem_cons_of_mem _ h), Or.inr ?_⟩
            rcases (b4 x hx).2 with h | h
            · rw [h]; exact hpg
            · exact h
          · simp at hx; subst hx; exact ⟨hv, Or.inl rfl⟩
      · rw [addGroup_leaf σ gs hpt n g acc hv (fun p hp hpg => hrecur ⟨p, hp, hpg⟩)]
        refine ⟨[g], rfl, ?_, by simp, ?_⟩
        · intro x; simp
        · intro x hx; simp at hx; subst hx; exact ⟨hv, Or.inl rfl⟩

theorem addGroups_seq (σ : Static) (q : WQ) (gs : List Nat) (hpt : Bool) :
    ∃ S, addGroups σ q gs hpt = attachSeq σ hpt S (q, []) ∧ S.Nodup ∧ ∀ x ∈ S, x ∈ gs := by
  unfold addGroups
  simp only
  have key : ∀ (l : List Nat) (acc : WQ × List Nat × List Nat), (∀ x ∈ l, x ∈ gs) → ∃ S,
      ((l.foldl (fun acc g => addGroup σ gs hpt (gs.length + 1) g acc) acc).1,
       (l.foldl (fun acc g => addGroup σ gs hpt (gs.length + 1) g acc) acc).2.1)
        = attachSeq σ hpt S (acc.1, acc.2.1) ∧
      S.Nodup ∧ ∀ x ∈ S, x ∉ acc.2.2 ∧ x ∈ gs := by
    intro l
    induction l with
    | nil => intro acc _; exact ⟨[], rfl, List.nodup_nil, by simp⟩
    | cons g l ih =>
      intro acc hl
      simp only [List.foldl_cons]
      obtain ⟨S1, a1, a2, a3, a4⟩ := addGroup_seq σ gs hpt (gs.length + 1) g acc
      obtain ⟨S2, c1, c2, c3⟩ := ih (addGroup σ gs hpt (gs.length + 1) g acc)
        (fun x hx => hl x (List.mem_cons_of_mem _ hx))
      refine ⟨S1 ++ S2, ?_, ?_, ?_⟩
      · rw [c1, attachSeq_append, a1]
      · rw [List.nodup_append]
        refine ⟨a3, c2, ?_⟩
        intro x hx y hy e
        subst e
        exact (c3 x hy).1 ((a2 x).mpr (Or.inl hx))
      · intro x hx
        rcases List.mem_append.mp hx with hx | hx
        · refine ⟨(a4 x hx).1, ?_⟩
          rcases (a4 x hx).2 with h | h
          · rw [h]; exact hl g (by simp)
          · exact h
        · exact ⟨fun h => (c3 x hx).1 ((a2 x).mpr (Or.inr h)), (c3 x hx).2⟩
  obtain ⟨S, e, hn, hs⟩ := key gs (q, [], []) (fun x hx => hx)
  exact ⟨S, e, hn, fun x hx => (hs x hx).2⟩

/-! ### one attachment -/

/-- Everything the graph knows about groups is in `X`. -/
structure KnownIn (X : List Nat) (q : WQ) : Prop where
  nodes : ∀ g, hasNode q g → g ∈ X
  roots : ∀ g ∈ q.rootGroups, g ∈ X
  children : ∀ p c, hasChild q p c → c ∈ X

theorem KnownIn.mono {X Y : List Nat} {q : WQ} (h : KnownIn X q) (hs : ∀ x ∈ X, x ∈ Y) : KnownIn Y q :=
  ⟨fun g hg => hs g (h.nodes g hg), fun g hg => hs g (h.roots g hg),
   fun p c hc => hs c (h.children p c hc)⟩

theorem KnownIn.sub {X : List Nat} {q q' : WQ} (h : KnownIn X q) (s : SubGraph q q')
    (hr : ∀ g, g ∈ q'.rootGroups → g ∈ q.rootGroups) : KnownIn X q' :=
  ⟨fun g hg => h.nodes g (s.hasNode hg), fun g hg => h.roots g (hr g hg),
   fun p c hc => h.children p c (s.hasChild hc)⟩

/-- What `attachGroup` does to the lookup of the group nodes. -/
theorem attachGroup_lookup (σ : Static) (hpt : Bool) (g : Nat) (r : WQ × List Nat) (k : Nat) (m : GroupNode)
    (h : alookup (attachGroup σ hpt g r).1.groupNodes k = some m) :
    (k = g ∧ m.children = [] ∧ ∀ p, σ.parent g = some p → p ≠ g) ∨
    (k = g ∧ m.children = [g] ∧ σ.parent g = some g) ∨
    (k ≠ g ∧ ∃ m0, alookup r.1.groupNodes k = some m0 ∧
      (m.children = m0.children ∨ (σ.parent g = some k ∧ m.children = m0.children ++ [g]))) := by
  unfold attachGroup at h
  simp only at h
  cases hp : σ.parent g with
  | none =>
    simp only [hp] at h
    have h' : alookup (aset r.1.groupNodes g {}) k = some m := by
      split at h <;> exact h
    by_cases e : g = k
    · subst e; rw [alookup_aset_self] at h'; cases h'
      exact Or.inl ⟨rfl, rfl, fun p hp' => by cases hp'⟩
    · rw [alookup_aset_ne _ _ _ _ e] at h'
      exact Or.inr (Or.inr ⟨fun e' => e e'.symm, m, h', Or.inl rfl⟩)
  | some p =>
    simp only [hp] at h
    cases hl : alookup (aset r.1.groupNodes g ({} : GroupNode)) p with
    | none =>
      simp only [hl] at h
      by_cases e : g = k
      · subst e; rw [alookup_aset_self] at h; cases h
        refine Or.inl ⟨rfl, rfl, fun p' hp' => ?_⟩
        cases hp'
        intro e'; subst e'; rw [alookup_aset_self] at hl; cases hl
      · rw [alookup_aset_ne _ _ _ _ e] at h
        exact Or.inr (Or.inr ⟨fun e' => e e'.symm, m, h, Or.inl rfl⟩)
    | some pn =>
      simp only [hl] at h
      by_cases ep : p = k
      · subst ep
        rw [alookup_aset_self] at h; cases h
        by_cases eg : g = p
        · subst eg
          rw [alookup_aset_self] at hl; cases hl
          exact Or.inr (Or.inl ⟨rfl, rfl, rfl⟩)
        · rw [alookup_aset_ne _ _ _ _ eg] at hl
          exact Or.inr (Or.inr ⟨fun e' => eg e'.symm, pn, hl, Or.inr ⟨rfl, rfl⟩⟩)
      · rw [alookup_aset_ne _ _ _ _ ep] at h
        by_cases e : g = k
        · subst e; rw [alookup_aset_self] at h; cases h
          refine Or.inl ⟨rfl, rfl, fun p' hp' => ?_⟩
          cases hp'; exact ep
        · rw [alookup_aset_ne _ _ _ _ e] at h
          exact Or.inr (Or.inr ⟨fun e' => e e'.symm, m, h, Or.inl rfl⟩)

end Gql.Async

namespace Gql.Async

theorem attachGroup_snd (σ : Static) (hpt : Bool) (g : Nat) (r : WQ × List Nat) :
    (attachGroup σ hpt g r).2 = r.2 ++ (if !hpt && (σ.parent g).isNone then [g] else []) := by
  unfold attachGroup
  simp only
  cases hp : σ.parent g with
  | none => cases hpt <;> simp
  | some p => simp only; split <;> simp

theorem attachSeq_snd (σ : Static) (hpt : Bool) (S : List Nat) (r : WQ × List Nat) :
    (attachSeq σ hpt S r).2 = r.2 ++ S.filter (fun x => !hpt && (σ.parent x).isNone) := by
  induction S generalizing r with
  | nil => simp [attachSeq]
  | cons g S ih =>
    have : attachSeq σ hpt (g :: S) r = attachSeq σ hpt S (attachGroup σ hpt g r) := rfl
    rw [this, ih, attachGroup_snd]
    by_cases h : (!hpt && (σ.parent g).isNone) = true <;> simp [h]

/-- One attachment of a group the graph does not know yet keeps the forest. -/
theorem attach_forest (σ : Static) (hpt : Bool) (g : Nat) (r : WQ × List Nat) (X : List Nat)
    (f : Forest σ r.1) (k : KnownIn X r.1) (hg : g ∉ X) (hself : ∀ p, σ.parent g = some p → p ≠ g) :
    Forest σ (attachGroup σ hpt g r).1 ∧ KnownIn (g :: X) (attachGroup σ hpt g r).1 := by
  have fr := attachGroup_frame σ hpt g r
  have look := attachGroup_lookup σ hpt g r
  -- every child listed after the attachment was listed before, or is `g` under its parent
  have hchild : ∀ p c, hasChild (attachGroup σ hpt g r).1 p c →
      hasChild r.1 p c ∨ (c = g ∧ σ.parent g = some p ∧ p ≠ g) := by
    intro p c ⟨m, hm, hc⟩
    rcases look p m hm with ⟨_, h2, _⟩ | ⟨_, _, h3⟩ | ⟨hne, m0, h0, h4⟩
    · rw [h2] at hc; cases hc
    · exact absurd rfl (hself g h3)
    · rcases h4 with h4 | ⟨h5, h4⟩
      · exact Or.inl ⟨m0, h0, h4 ▸ hc⟩
      · rw [h4] at hc
        rcases List.mem_append.mp hc with hc | hc
        · exact Or.inl ⟨m0, h0, hc⟩
        · simp at hc; exact Or.inr ⟨hc, h5, hne⟩
  refine ⟨⟨?_, ?_, ?_⟩, ⟨?_, ?_, ?_⟩⟩
  · intro p c hc
    rcases hchild p c hc with h | ⟨rfl, h, _⟩
    · exact f.parent p c h
    · exact h
  · intro p m hm
    rcases look p m hm with ⟨_, h2, _⟩ | ⟨_, _, h3⟩ | ⟨_, m0, h0, h4⟩
    · rw [h2]; exact List.nodup_nil
    · exact absurd rfl (hself g h3)
    · rcases h4 with h4 | ⟨_, h4⟩
      · rw [h4]; exact f.nodup p m0 h0
      · rw [h4, List.nodup_append]
        refine ⟨f.nodup p m0 h0, by simp, ?_⟩
        intro a ha b hb e
        simp at hb; subst hb; subst e
        exact hg (k.children p a ⟨m0, h0, ha⟩)
  · intro p c hc hroot
    rw [fr.rg] at hroot
    rcases hchild p c hc with h | ⟨rfl, _, _⟩
    · exact f.notRoot p c h hroot
    · exact hg (k.roots c hroot)
  · intro x ⟨m, hm⟩
    rcases look x m hm with ⟨h1, _, _⟩ | ⟨h1, _, _⟩ | ⟨_, m0, h0, _⟩
    · simp [h1]
    · simp [h1]
    · exact List.mem_cons_of_mem _ (k.nodes x ⟨m0, h0⟩)
  · intro x hx
    rw [fr.rg] at hx
    exact List.mem_cons_of_mem _ (k.roots x hx)
  · intro p c hc
    rcases hchild p c hc with h | ⟨rfl, _, _⟩
    · exact List.mem_cons_of_mem _ (k.children p c h)
    · simp

/-- A whole `_add_groups` of fresh, pairwise distinct groups. -/
theorem attachSeq_forest (σ : Static) (hpt : Bool) (S : List Nat) (r : WQ × List Nat) (X : List Nat)
    (f : Forest σ r.1) (k : KnownIn X r.1) (hn : S.Nodup) (hS : ∀ x ∈ S, x ∉ X)
    (hself : ∀ x ∈ S, ∀ p, σ.parent x = some p → p ≠ x) :
    Forest σ (attachSeq σ hpt S r).1 ∧ KnownIn (S ++ X) (attachSeq σ hpt S r).1 ∧
    RootFrame r.1 (attachSeq σ hpt S r).1 := by
  induction S generalizing r X with
  | nil => exact ⟨f, by simpa [attachSeq] using k, RootFrame.refl _⟩
  | cons g S ih =>
    have hn' := List.nodup_cons.mp hn
    obtain ⟨f1, k1⟩ := attach_forest σ hpt g r X f k (hS g (by simp)) (hself g (by simp))
    have h2 := ih (attachGroup σ hpt g r) (g :: X) f1 k1 hn'.2
      (by intro x hx hm
          rcases List.mem_cons.mp hm with e | hm
          · subst e; exact hn'.1 hx
          · exact hS x (List.mem_cons_of_mem _ hx) hm)
      (fun x hx => hself x (List.mem_cons_of_mem _ hx))
    obtain ⟨f2, k2, fr2⟩ := h2
    refine ⟨f2, k2.mono ?_, (attachGroup_frame σ hpt g r).trans fr2⟩
    intro x hx
    simp only [List.mem_append, List.mem_cons] at hx ⊢
    rcases hx with h | h | h
    · exact Or.inl (Or.inr h)
    · exact Or.inl (Or.inl h)
    · exact Or.inr h

end Gql.Async
