import Gql.Proofs.PayloadNest
/-!
Publisher level of P1 "announced before any data for it" and of the O1 shape of `completed`:

when every event that reports values or success of a node finds that node in the id table
(`EvsPre`: the node is in the tracked domain, and the tracked domain is inside the table —
`DomSup`), then every id in the table is an announced id (`TableAnn`), hence

* every `incremental` entry carries an id announced by this or an earlier payload, and
* every `completed` entry carries such an id or is a *failed* completion.
-/
namespace Gql.Async
open Gql.Spec.Protocol

/-- The tracked domain is inside the table's domain (the converse of `DomSub`). -/
def DomSup (p : Pub) (D : List Node) : Prop := ∀ n ∈ D, ∃ i, alookup p.ids n = some i

/-- The node an event reports values / success for is in the tracked domain. -/
def evPre (D : List Node) : WQEvent → Prop
  | .groupValues g _ => Node.group g ∈ D
  | .groupSuccess g _ _ => Node.group g ∈ D
  | .streamValues s _ _ _ => Node.stream s ∈ D
  | .streamSuccess s => Node.stream s ∈ D
  | _ => True

def EvsPre : List Node → List WQEvent → Prop
  | _, [] => True
  | D, e :: r => evPre D e ∧ EvsPre (domStep D e) r

theorem evsPre_append (D : List Node) (a b : List WQEvent) :
    EvsPre D (a ++ b) ↔ EvsPre D a ∧ EvsPre (domSteps D a) b := by
  induction a generalizing D with
  | nil => simp [EvsPre, domSteps]
  | cons e a ih => simp [EvsPre, domSteps, ih, and_assoc]

/-- Every id in the table is one of `A` (the ids announced so far). -/
def TableAnn (p : Pub) (A : List Nat) : Prop := ∀ i, live p i → i ∈ A

theorem TableAnn.mono {p : Pub} {A B : List Nat} (h : TableAnn p A) (hs : ∀ i ∈ A, i ∈ B) :
    TableAnn p B := fun i hi => hs i (h i hi)

theorem ensureId_found (p : Pub) (n : Node) (i : Nat) (h : alookup p.ids n = some i) :
    ensureId p n = (p, i) := by
  simp [ensureId, h]

theorem live_dropId (p : Pub) (n : Node) (j : Nat) (h : live (dropId p n) j) : live p j := by
  obtain ⟨m, hm⟩ := h
  exact ⟨m, (dropId_dom p n m j hm).1⟩

theorem domSup_dropId (p : Pub) (n : Node) (D : List Node) (h : DomSup p D) :
    DomSup (dropId p n) (D.filter (fun x => decide (x ≠ n))) := by
  intro m hm
  simp only [List.mem_filter, decide_eq_true_eq] at hm
  obtain ⟨i, hi⟩ := h m hm.1
  refine ⟨i, ?_⟩
  unfold dropId
  simp only
  rw [alookup_aerase_ne _ _ _ (fun e => hm.2 e.symm)]
  exact hi

theorem domSup_ensureId (p : Pub) (n : Node) (D : List Node) (h : DomSup p D) :
    DomSup (ensureId p n).1 (n :: D) := by
  intro m hm
  rcases List.mem_cons.mp hm with rfl | hm
  · cases hl : alookup p.ids m with
    | some i => exact ⟨i, by simp [ensureId, hl]⟩
    | none => exact ⟨p.nextId, by simp [ensureId, hl, alookup_aset_self]⟩
  · obtain ⟨i, hi⟩ := h m hm
    exact ⟨i, ensureId_lookup p n m i hi⟩

/-! ### `_to_pending_results` -/

theorem toPending_fold_sup (π : PubStatic) (ns : List Node) (p : Pub) (acc : List Pending) :
    ∀ n ∈ ns, ∃ i, alookup (ns.foldl (fun (acc : Pub × List Pending) n =>
      let (p, i) := ensureId acc.1 n
      (p, acc.2 ++ [{ id := i, path := π.path n, label := π.label n }])) (p, acc)).1.ids n = some i := by
  induction ns generalizing p acc with
  | nil => intro n hn; cases hn
  | cons m ns ih =>
    intro n hn
    simp only [List.foldl_cons]
    by_cases hmem : n ∈ ns
    · exact ih _ _ n hmem
    · rcases List.mem_cons.mp hn with rfl | h
      · obtain ⟨i, hi⟩ := domSup_ensureId p n [] (by intro x hx; cases hx) n (by simp)
        exact ⟨i, toPending_fold_lookup π ns _ _ n i hi⟩
      · exact absurd h hmem

theorem toPending_sup (π : PubStatic) (p : Pub) (gs ss : List Nat) (D : List Node) (h : DomSup p D) :
    DomSup (toPendingResults π p gs ss).1 (D ++ nodesOf gs ss) := by
  intro n hn
  rcases List.mem_append.mp hn with hn | hn
  · obtain ⟨i, hi⟩ := h n hn
    exact ⟨i, toPending_lookup π p gs ss n i hi⟩
  · exact toPending_fold_sup π (nodesOf gs ss) p [] n hn

theorem ensureId_self (p : Pub) (n : Node) :
    alookup (ensureId p n).1.ids n = some (ensureId p n).2 := by
  cases hl : alookup p.ids n with
  | some i => simp [ensureId, hl]
  | none => simp [ensureId, hl, alookup_aset_self]

theorem toPending_fold_prefix (π : PubStatic) (ns : List Node) (p : Pub) (acc : List Pending) :
    ∃ new, (ns.foldl (fun (acc : Pub × List Pending) n =>
      let (p, i) := ensureId acc.1 n
      (p, acc.2 ++ [{ id := i, path := π.path n, label := π.label n }])) (p, acc)).2 = acc ++ new := by
  induction ns generalizing p acc with
  | nil => exact ⟨[], by simp⟩
  | cons n ns ih =>
    simp only [List.foldl_cons]
    obtain ⟨new, hnew⟩ := ih (ensureId p n).1
      (acc ++ [{ id := (ensureId p n).2, path := π.path n, label := π.label n }])
    exact ⟨{ id := (ensureId p n).2, path := π.path n, label := π.label n } :: new, by rw [hnew]; simp⟩

/-- A table id after `_to_pending_results` was there before or belongs to an entry of the result. -/
theorem toPending_fold_live (π : PubStatic) (ns : List Node) (p : Pub) (acc : List Pending) (j : Nat)
    (h : live (ns.foldl (fun (acc : Pub × List Pending) n =>
      let (p, i) := ensureId acc.1 n
      (p, acc.2 ++ [{ id := i, path := π.path n, label := π.label n }])) (p, acc)).1 j) :
    live p j ∨ j ∈ (ns.foldl (fun (acc : Pub × List Pending) n =>
      let (p, i) := ensureId acc.1 n
      (p, acc.2 ++ [{ id := i, path := π.path n, label := π.label n }])) (p, acc)).2.map (·.id) := by
  induction ns generalizing p acc with
  | nil => exact Or.inl h
  | cons n ns ih =>
    simp only [List.foldl_cons] at h ⊢
    rcases ih _ _ h with h1 | h1
    · obtain ⟨m, hm⟩ := h1
      rcases ensureId_dom p n m j hm with h2 | h2
      · exact Or.inl ⟨m, h2⟩
      · subst h2
        right
        have hj : j = (ensureId p m).2 := by
          have := ensureId_self p m
          rw [hm] at this; cases this; rfl
        obtain ⟨new, hnew⟩ := toPending_fold_prefix π ns (ensureId p m).1
          (acc ++ [{ id := (ensureId p m).2, path := π.path m, label := π.label m }])
        rw [hnew]
        simp [hj]
    · exact Or.inr h1

theorem toPending_tableAnn (π : PubStatic) (p : Pub) (gs ss : List Nat) (A : List Nat)
    (h : TableAnn p A) :
    TableAnn (toPendingResults π p gs ss).1 (A ++ (toPendingResults π p gs ss).2.map (·.id)) := by
  intro j hj
  rcases toPending_fold_live π _ p [] j hj with h1 | h1
  · exact List.mem_append.mpr (Or.inl (h j h1))
  · exact List.mem_append.mpr (Or.inr h1)

/-! ### one event -/

theorem dropEnsure_pre (p : Pub) (n : Node) (D : List Node) (A : List Nat)
    (hs : DomSup p D) (ht : TableAnn p A) :
    DomSup (dropId (ensureId p n).1 n) (D.filter (fun x => decide (x ≠ n))) ∧
    TableAnn (dropId (ensureId p n).1 n) A := by
  constructor
  · have h1 := domSup_dropId _ n _ (domSup_ensureId p n D hs)
    have e : (n :: D).filter (fun x => decide (x ≠ n)) = D.filter (fun x => decide (x ≠ n)) := by simp
    rw [e] at h1; exact h1
  · intro j ⟨m, hm⟩
    obtain ⟨h1, h2⟩ := dropId_dom _ n m j hm
    rcases ensureId_dom p n m j h1 with h3 | h3
    · exact ht j ⟨m, h3⟩
    · exact absurd h3 h2

/-- What one event does to the batch under construction, relative to the ids `A` announced by
earlier payloads. -/
structure PreStep (A : List Nat) (D' : List Node) (p' : Pub) (c c' : PCtx) : Prop where
  sup : DomSup p' D'
  pend : ∃ newp, c'.pending = c.pending ++ newp ∧
    TableAnn p' (A ++ c.pending.map (·.id) ++ newp.map (·.id))
  incr : ∃ newi, c'.incremental = c.incremental ++ newi ∧ ∀ x ∈ newi, x.id ∈ A ++ c.pending.map (·.id)
  comp : ∃ newc, c'.completed = c.completed ++ newc ∧
    ∀ x ∈ newc, x.id ∈ A ++ c.pending.map (·.id) ∨ x.failed = true

theorem nodesOf_nil_of_empty (ng ns : List Nat) (h : ng.isEmpty ∧ ns.isEmpty) : nodesOf ng ns = [] := by
  obtain ⟨h1, h2⟩ := h
  simp only [List.isEmpty_iff] at h1 h2
  subst h1; subst h2; rfl

theorem handleEvent_pre (π : PubStatic) (p : Pub) (c : PCtx) (e : WQEvent) (D : List Node) (A : List Nat)
    (hs : DomSup p D) (ht : TableAnn p (A ++ c.pending.map (·.id))) (he : evPre D e) :
    PreStep A (domStep D e) (handleEvent π p c e).1 c (handleEvent π p c e).2 := by
  cases e with
  | groupValues g vals =>
    obtain ⟨i, hi⟩ := hs _ he
    simp only [handleEvent, ensureId_found p _ i hi]
    refine ⟨?_, ⟨[], by simp, by simpa using ht⟩, ⟨_, rfl, ?_⟩, ⟨[], by simp, by simp⟩⟩
    · simp only [domStep, domMid, evNew, List.append_nil]
      intro m hm
      rcases List.mem_cons.mp hm with rfl | hm
      · exact ⟨i, hi⟩
      · exact hs m hm
    · intro x hx
      obtain ⟨v, _, rfl⟩ := List.mem_map.mp hx
      exact ht _ (bestId_live π p i g v ⟨_, hi⟩)
  | groupSuccess g ng ns =>
    obtain ⟨i, hi⟩ := hs _ he
    obtain ⟨d1, d2⟩ := dropEnsure_pre p (.group g) D _ hs ht
    have hfst : (ensureId p (.group g)).2 = i := by rw [ensureId_found p _ i hi]
    simp only [handleEvent]
    split
    · rename_i hemp
      refine ⟨?_, ⟨[], by simp, by simpa using d2⟩, ⟨[], by simp, by simp⟩, ⟨[_], rfl, ?_⟩⟩
      · simp only [domStep, domMid, evNew, nodesOf_nil_of_empty ng ns hemp, List.append_nil]
        exact d1
      · intro x hx
        simp at hx; subst hx
        left; simp only [hfst]; exact ht i ⟨_, hi⟩
    · refine ⟨?_, ⟨_, rfl, ?_⟩, ⟨[], by simp, by simp⟩, ⟨[_], rfl, ?_⟩⟩
      · simp only [domStep, domMid, evNew]
        exact toPending_sup π _ ng ns _ d1
      · exact toPending_tableAnn π _ ng ns _ d2
      · intro x hx
        simp at hx; subst hx
        left; simp only [hfst]; exact ht i ⟨_, hi⟩
  | groupFailure g =>
    obtain ⟨d1, d2⟩ := dropEnsure_pre p (.group g) D _ hs ht
    simp only [handleEvent]
    refine ⟨?_, ⟨[], by simp, by simpa using d2⟩, ⟨[], by simp, by simp⟩, ⟨[_], rfl, ?_⟩⟩
    · simp only [domStep, domMid, evNew, List.append_nil]; exact d1
    · intro x hx; simp at hx; subst hx; right; rfl
  | streamValues s vals ng ns =>
    obtain ⟨i, hi⟩ := hs _ he
    have hsup : DomSup p (Node.stream s :: D) := by
      intro m hm
      rcases List.mem_cons.mp hm with rfl | hm
      · exact ⟨i, hi⟩
      · exact hs m hm
    simp only [handleEvent, ensureId_found p _ i hi]
    split
    · rename_i hemp
      refine ⟨?_, ⟨[], by simp, by simpa using ht⟩, ⟨[_], rfl, ?_⟩, ⟨[], by simp, by simp⟩⟩
      · simp only [domStep, domMid, evNew, nodesOf_nil_of_empty ng ns hemp, List.append_nil]
        exact hsup
      · intro x hx; simp at hx; subst hx; exact ht i ⟨_, hi⟩
    · refine ⟨?_, ⟨_, rfl, ?_⟩, ⟨[_], rfl, ?_⟩, ⟨[], by simp, by simp⟩⟩
      · simp only [domStep, domMid, evNew]
        exact toPending_sup π _ ng ns _ hsup
      · exact toPending_tableAnn π _ ng ns _ ht
      · intro x hx; simp at hx; subst hx; exact ht i ⟨_, hi⟩
  | streamSuccess s =>
    obtain ⟨i, hi⟩ := hs _ he
    obtain ⟨d1, d2⟩ := dropEnsure_pre p (.stream s) D _ hs ht
    have hfst : (ensureId p (.stream s)).2 = i := by rw [ensureId_found p _ i hi]
    simp only [handleEvent]
    refine ⟨?_, ⟨[], by simp, by simpa using d2⟩, ⟨[], by simp, by simp⟩, ⟨[_], rfl, ?_⟩⟩
    · simp only [domStep, domMid, evNew, List.append_nil]; exact d1
    · intro x hx; simp at hx; subst hx; left; simp only [hfst]; exact ht i ⟨_, hi⟩
  | streamFailure s =>
    obtain ⟨d1, d2⟩ := dropEnsure_pre p (.stream s) D _ hs ht
    simp only [handleEvent]
    refine ⟨?_, ⟨[], by simp, by simpa using d2⟩, ⟨[], by simp, by simp⟩, ⟨[_], rfl, ?_⟩⟩
    · simp only [domStep, domMid, evNew, List.append_nil]; exact d1
    · intro x hx; simp at hx; subst hx; right; rfl
  | termination =>
    simp only [handleEvent]
    exact ⟨by simpa [domStep, domMid, evNew] using hs, ⟨[], by simp, by simpa using ht⟩,
      ⟨[], by simp, by simp⟩, ⟨[], by simp, by simp⟩⟩

/-! ### a batch, the whole stream -/

/-- Every `incremental` entry carries an id announced by this or an earlier payload (or in `A`);
every `completed` entry carries such an id or is a failed completion. -/
def DataAnnounced : List Nat → List Payload → Prop
  | _, [] => True
  | A, p :: r =>
    (∀ e ∈ p.incremental, e.id ∈ A ++ p.pending.map (·.id)) ∧
    (∀ c ∈ p.completed, c.id ∈ A ++ p.pending.map (·.id) ∨ c.failed = true) ∧
    DataAnnounced (A ++ p.pending.map (·.id)) r

structure PreInv (A : List Nat) (D : List Node) (p : Pub) (c : PCtx) : Prop where
  sup : DomSup p D
  tab : TableAnn p (A ++ c.pending.map (·.id))
  incr : ∀ x ∈ c.incremental, x.id ∈ A ++ c.pending.map (·.id)
  comp : ∀ x ∈ c.completed, x.id ∈ A ++ c.pending.map (·.id) ∨ x.failed = true

theorem PreInv.step {A : List Nat} {D : List Node} {p : Pub} {c : PCtx} (π : PubStatic) (e : WQEvent)
    (h : PreInv A D p c) (he : evPre D e) :
    PreInv A (domStep D e) (handleEvent π p c e).1 (handleEvent π p c e).2 := by
  obtain ⟨s1, ⟨newp, ep, tp⟩, ⟨newi, ei, hi⟩, ⟨newc, ec, hc⟩⟩ := handleEvent_pre π p c e D A h.sup h.tab he
  have grow : ∀ i ∈ A ++ c.pending.map (·.id), i ∈ A ++ (handleEvent π p c e).2.pending.map (·.id) := by
    intro i hi'
    rw [ep]
    simp only [List.map_append, List.mem_append] at hi' ⊢
    rcases hi' with h1 | h1
    · exact Or.inl h1
    · exact Or.inr (Or.inl h1)
  refine ⟨s1, ?_, ?_, ?_⟩
  · rw [ep]; simpa [List.append_assoc] using tp
  · rw [ei]; intro x hx
    rcases List.mem_append.mp hx with hx | hx
    · exact grow _ (h.incr x hx)
    · exact grow _ (hi x hx)
  · rw [ec]; intro x hx
    rcases List.mem_append.mp hx with hx | hx
    · rcases h.comp x hx with h1 | h1
      · exact Or.inl (grow _ h1)
      · exact Or.inr h1
    · rcases hc x hx with h1 | h1
      · exact Or.inl (grow _ h1)
      · exact Or.inr h1

theorem PreInv.fold {A : List Nat} (π : PubStatic) (evs : List WQEvent) {D : List Node} {p : Pub} {c : PCtx}
    (h : PreInv A D p c) (he : EvsPre D evs) :
    PreInv A (domSteps D evs)
      (evs.foldl (fun (acc : Pub × PCtx) e => handleEvent π acc.1 acc.2 e) (p, c)).1
      (evs.foldl (fun (acc : Pub × PCtx) e => handleEvent π acc.1 acc.2 e) (p, c)).2 := by
  induction evs generalizing D p c with
  | nil => exact h
  | cons e evs ih =>
    simp only [List.foldl_cons, domSteps]
    exact ih (h.step π e he.1) he.2

theorem handleBatch_pre (π : PubStatic) (evs : List WQEvent) (p : Pub) (D : List Node) (A : List Nat)
    (hs : DomSup p D) (ht : TableAnn p A) (he : EvsPre D evs) :
    DomSup (handleBatch π p evs).1 (domSteps D evs) ∧
    TableAnn (handleBatch π p evs).1 (A ++ (handleBatch π p evs).2.pending.map (·.id)) ∧
    (∀ x ∈ (handleBatch π p evs).2.incremental, x.id ∈ A ++ (handleBatch π p evs).2.pending.map (·.id)) ∧
    (∀ x ∈ (handleBatch π p evs).2.completed,
      x.id ∈ A ++ (handleBatch π p evs).2.pending.map (·.id) ∨ x.failed = true) := by
  have h0 : PreInv A D p {} := ⟨hs, by simpa using ht, by simp, by simp⟩
  have h := h0.fold π evs he
  exact ⟨h.sup, h.tab, h.incr, h.comp⟩

theorem publish_pre (π : PubStatic) (bs : List (List WQEvent)) (p : Pub) (D : List Node) (A : List Nat)
    (hs : DomSup p D) (ht : TableAnn p A) (he : EvsPre D bs.flatten) :
    DataAnnounced A (publish π p bs).2 := by
  induction bs generalizing p D A with
  | nil => simp [publish, DataAnnounced]
  | cons b bs ih =>
    simp only [List.flatten_cons, evsPre_append] at he
    obtain ⟨h1, h2, h3, h4⟩ := handleBatch_pre π b p D A hs ht he.1
    simp only [publish, DataAnnounced]
    exact ⟨h3, h4, ih _ _ _ h1 h2 he.2⟩

/-- The split form of `DataAnnounced`. -/
theorem DataAnnounced.split {A : List Nat} {ps : List Payload} (h : DataAnnounced A ps)
    (pre : List Payload) (pl : Payload) (post : List Payload) (e : ps = pre ++ pl :: post) :
    (∀ x ∈ pl.incremental, x.id ∈ A ++ announcedIds (pre ++ [pl])) ∧
    (∀ x ∈ pl.completed, x.id ∈ A ++ announcedIds (pre ++ [pl]) ∨ x.failed = true) := by
  induction pre generalizing A ps with
  | nil =>
    subst e
    simp only [List.nil_append, DataAnnounced] at h
    have e1 : announcedIds ([] ++ [pl]) = pl.pending.map (·.id) := by simp [announcedIds]
    rw [e1]
    exact ⟨h.1, h.2.1⟩
  | cons q pre ih =>
    subst e
    simp only [List.cons_append, DataAnnounced] at h
    have := ih h.2.2 rfl
    have e1 : announcedIds (q :: pre ++ [pl]) = q.pending.map (·.id) ++ announcedIds (pre ++ [pl]) := by
      simp [announcedIds]
    rw [e1, ← List.append_assoc]
    exact this

end Gql.Async
