import Gql.Proofs.CoerceLiteralOneOf
/-
`coerce_input_literal` returns a value exactly when `validate_input_literal` is silent (C15),
for constant literals (static validation) and for literals with a variable map.
-/
namespace Gql.Values
open Gql

theorem coerce_validate_literal_full (c : PyConv) (D : Field → R) (tm : TypeMap) (hW : TmWF D tm)
    (vars : Option VarValues) (l : Lit) (t : InType) (path : Path)
    (hconst : vars = none → l.isConst = true) (hu : l.Unique) (hok : VarOK vars l t) :
    ∃ cv, coerceLiteral c D tm vars l t = .ok cv ∧ (validateLiteral c tm vars l t path = [] ↔ cv ≠ .undefined) := by
  have hD := hW.defaults
  induction l, t, path using validateLiteral.induct c tm vars with
  | case1 l t path x hv hs =>
    exfalso
    have : vars = none := by cases vars <;> simp_all
    have := hconst this
    rw [Lit.not_const_of_var hv] at this; cases this
  | case2 l t path x hv hs _ =>
    exact var_agree c D tm vars t path hv (by cases vars <;> simp_all) hok
  | case3 l t path x hv hs _ =>
    exact var_agree c D tm vars t path hv (by cases vars <;> simp_all) hok
  | case4 l path hv t' hn =>
    rw [coerceLiteral_nonNull c D tm vars hv, validateLiteral_nonNull c tm vars hv]; simp [hn]
  | case5 l path hv t' hn ih =>
    rw [coerceLiteral_nonNull c D tm vars hv, validateLiteral_nonNull c tm vars hv]
    simpa [hn] using ih hconst hu (VarOK_of_not_var hv)
  | case6 l path hv t' hn =>
    rw [coerceLiteral_null c D tm vars _ hv hn, validateLiteral]; simp [hv, hn, InType.isNonNull]
  | case7 l path hv t' hn items hl ih =>
    obtain ⟨hpu, hpc⟩ := Lit.asList_props hl
    have hul := hpu hu
    rw [coerceLiteral_list_iter c D tm vars hv hn hl, validateLiteral_list_iter c tm vars hv hn hl]
    have hitem : ∀ it ∈ items, ∀ i, ∃ cv,
        listItemLiteral vars it t'.isNonNull (coerceLiteral c D tm vars it t') = .ok cv ∧
          (validateLiteral c tm vars it t' (path ++ [.idx i]) = [] ↔ cv ≠ .undefined) := by
      intro it hit i
      have hc : vars = none → it.isConst = true := fun h => Lit.isConstList_mem (hpc (hconst h)) hit
      exact item_agree c D tm vars hc (fun hok' => ih it hit i hc (Lit.UniqueList_mem hul hit) hok')
    have hall : ∀ r ∈ (items.attach.map fun ⟨it, _⟩ =>
        listItemLiteral vars it t'.isNonNull (coerceLiteral c D tm vars it t')), ∃ cv, r = .ok cv := by
      intro r hr
      simp only [List.mem_map, List.mem_attach, true_and, Subtype.exists] at hr
      obtain ⟨x, hx, rfl⟩ := hr
      obtain ⟨cv, hcv, _⟩ := hitem x hx 0
      exact ⟨cv, hcv⟩
    obtain ⟨o, ho, hiff⟩ := seqItems_ok hall
    obtain ⟨cv, hcv, hcvu⟩ := wrapList_ok o
    refine ⟨cv, by rw [ho, hcv], ?_⟩
    rw [hcvu, hiff, List.flatMap_eq_nil_iff]
    constructor
    · intro h r hr
      simp only [List.mem_map, List.mem_attach, true_and, Subtype.exists] at hr
      obtain ⟨x, hx, rfl⟩ := hr
      have hmem : (⟨x, hx⟩ : {y // y ∈ items}) ∈ List.map Prod.fst (items.attach.zipIdx) := by
        rw [List.zipIdx_map_fst]; exact List.mem_attach _ _
      obtain ⟨⟨⟨x', hx'⟩, i⟩, hmi, heq⟩ := List.mem_map.1 hmem
      simp only at heq
      have := h _ hmi
      obtain ⟨cv, hcv, hv'⟩ := hitem x hx i
      cases heq
      simp only at this
      rw [hcv]
      intro hc
      simp only [Out.ok.injEq] at hc
      exact (hv'.1 this) hc
    · intro h ⟨⟨x, hx⟩, i⟩ _
      simp only
      obtain ⟨cv, hcv, hv'⟩ := hitem x hx i
      apply hv'.2
      intro hc
      apply h (listItemLiteral vars x t'.isNonNull (coerceLiteral c D tm vars x t'))
      · simp only [List.mem_map, List.mem_attach, true_and, Subtype.exists]
        exact ⟨x, hx, rfl⟩
      · rw [hcv, hc]
  | case8 l path hv t' hn hl ih =>
    rw [coerceLiteral_list_single c D tm vars hv hn hl, validateLiteral_list_single c tm vars hv hn hl]
    obtain ⟨cv, hcv, hv'⟩ := ih hconst hu (VarOK_of_not_var hv)
    rw [hcv]
    by_cases hu' : cv = .undefined
    · subst hu'; exact ⟨.undefined, rfl, by simpa using hv'⟩
    · refine ⟨.list [cv], ?_, by simpa [hu'] using hv'⟩
      cases cv <;> simp_all
  | case9 l path hv n hn =>
    rw [coerceLiteral_null c D tm vars _ hv hn, validateLiteral]; simp [hv, hn, InType.isNonNull]
  | case10 l path hv n hn fields oneOf hf fs ho ih =>
    obtain ⟨hpu, hpc⟩ := Lit.asObj_props ho
    obtain ⟨hfsn, huf⟩ := hpu hu
    have hnames := hW.fieldsNodup n fields oneOf hf
    rw [coerceLiteral_obj c D tm vars hv hn hf ho, validateLiteral_obj c tm vars hv hn hf ho]
    by_cases hunk : fs.any (fun kv => !fields.any (fun f => f.name = kv.1)) = true
    · refine ⟨.undefined, by simp [hunk], ?_⟩
      have hne : ¬ ((fs.filter fun kv => !fields.any (fun f => f.name = kv.1)) = []) := by
        rw [List.filter_eq_nil_iff]
        obtain ⟨kv, hkv, hp⟩ := List.any_eq_true.1 hunk
        intro h; exact h kv hkv hp
      simp only [ne_eq, not_true_eq_false, iff_false]
      intro h
      simp only [List.append_eq_nil_iff, List.map_eq_nil_iff] at h
      exact hne h.1.2
    · have hunk' : fs.any (fun kv => !fields.any (fun f => f.name = kv.1)) = false := by simpa using hunk
      have h2 : (fs.filter fun kv => !fields.any (fun f => f.name = kv.1)) = [] := by
        rw [List.filter_eq_nil_iff]
        intro kv hkv
        have := List.any_eq_false.1 hunk' kv hkv
        simpa using this
      rw [if_neg (by simp [hunk']), h2]
      simp only [List.map_nil, List.append_nil]
      -- one declared field
      have hfield := fun f (hf' : f ∈ fields) =>
        lit_field_agree c D tm vars hW.enumsNonNull hD oneOf fs path f
          (fun ho' => by
            subst ho'
            exact ⟨hW.oneOfNoDefaults n fields hf f hf', hW.oneOfNullable n fields hf f hf'⟩)
          (fun hn' fv hfv => Lit.isConstFields_mem (hpc (hconst hn')) (litGetLast_mem hfv))
          (fun fv hfv hok' => ih f fv hfv
            (fun hn' => Lit.isConstFields_mem (hpc (hconst hn')) (litGetLast_mem hfv))
            (Lit.UniqueFields_mem huf (litGetLast_mem hfv)) hok')
      generalize hG : litG c D tm vars fs = G at hfield ⊢
      generalize hH : litH c tm vars oneOf fs path = H at hfield ⊢
      have hall : ∀ r ∈ fields.map G, ∃ x, r = .ok x := by
        intro r hr
        obtain ⟨f, hf', rfl⟩ := List.mem_map.1 hr
        obtain ⟨x, _, _, hx, _⟩ := hfield f hf'
        exact ⟨x, hx⟩
      obtain ⟨o, hso, hiff⟩ := seqFields_ok hall
      rw [hso]
      cases o with
      | none =>
        refine ⟨.undefined, rfl, ?_⟩
        simp only [ne_eq, not_true_eq_false, iff_false]
        intro h
        simp only [List.append_eq_nil_iff, List.flatMap_eq_nil_iff] at h
        -- some field is invalid, so its validation part is non-empty
        have : ¬ (∀ r ∈ fields.map G, r ≠ .ok .invalid) := by
          intro hc; have := hiff.2 hc; simp at this
        apply this
        intro r hr
        obtain ⟨f, hf', rfl⟩ := List.mem_map.1 hr
        obtain ⟨x, E, V, hx, hEV, hxi, _⟩ := hfield f hf'
        rw [hx]
        intro hc
        simp only [Out.ok.injEq] at hc
        have hV := hxi.1 hc
        have := h.1 f hf'
        rw [hEV] at this
        exact hV (List.append_eq_nil_iff.1 this).2
      | some es =>
        have hvalidAll : ∀ f ∈ fields, ∀ x, G f = .ok x → x ≠ .invalid := by
          intro f hf' x hx hc
          subst hc
          exact (hiff.1 rfl) _ (List.mem_map.2 ⟨f, hf', rfl⟩) hx
        by_cases hoo : oneOf = true
        · subst hoo
          simp only [↓reduceIte]
          -- split every field's reports into the OneOf extras and the rest (which is empty)
          have hsplit : ∀ f ∈ fields, ∃ E, H f = E ∧
              (litGetLast fs f.name = none → G f = .ok .skip ∧ E = []) ∧
              (∀ fv, litGetLast fs f.name = some fv →
                (E = [] ∧ ∃ cv, G f = .ok (.entry f.name cv) ∧ (cv = .none ↔ fv.isNull = true)) ∨
                (E ≠ [] ∧ (G f = .ok .skip ∨ G f = .ok (.entry f.name .none)))) := by
            intro f hf'
            obtain ⟨x, E, V, hx, hEV, hxi, _, hchar⟩ := hfield f hf'
            have hxn := hvalidAll f hf' x hx
            have hV : V = [] := by
              by_cases hV : V = []
              · exact hV
              · exact absurd (hxi.2 hV) hxn
            obtain ⟨hc1, hc2⟩ := hchar hxn rfl
            refine ⟨E, by rw [hEV, hV]; simp, ?_, ?_⟩
            · intro hnone; obtain ⟨h1, h2⟩ := hc1 hnone; exact ⟨by rw [hx, h1], h2⟩
            · intro fv hfv
              rcases hc2 fv hfv with ⟨hE, cv, hxe, hcn⟩ | ⟨hE, hxs⟩
              · exact Or.inl ⟨hE, cv, by rw [hx, hxe], hcn⟩
              · refine Or.inr ⟨hE, ?_⟩
                rcases hxs with h | h
                · exact Or.inl (by rw [hx, h])
                · exact Or.inr (by rw [hx, h])
          obtain ⟨cv, hcv, hcviff⟩ := oneOfLit_agree G H path hfsn hnames hunk'
            (fun f hf' hnone => by
              obtain ⟨E, hE, h1, _⟩ := hsplit f hf'
              obtain ⟨hg, he⟩ := h1 hnone
              exact ⟨hg, by rw [hE, he]⟩)
            (fun f hf' fv hfv => by
              obtain ⟨E, hE, _, h2⟩ := hsplit f hf'
              rw [hE]; exact h2 fv hfv)
            hso
          refine ⟨cv, hcv, ?_⟩
          rw [← hcviff, List.append_eq_nil_iff]
        · simp only [hoo, Bool.false_eq_true, ↓reduceIte, List.append_nil]
          refine ⟨.dict es, rfl, ?_⟩
          simp only [ne_eq, reduceCtorEq, not_false_eq_true, iff_true, List.flatMap_eq_nil_iff]
          intro f hf'
          obtain ⟨x, E, V, hx, hEV, hxi, hE, _⟩ := hfield f hf'
          have hxn := hvalidAll f hf' x hx
          have hV : V = [] := by
            by_cases hV : V = []
            · exact hV
            · exact absurd (hxi.2 hV) hxn
          rw [hEV, hV, hE (by simpa using hoo)]; rfl
  | case11 l path hv n hn fields oneOf hf ho =>
    rw [coerceLiteral_notobj c D tm vars hv hn hf ho, validateLiteral_notobj c tm vars hv hn hf ho]
    exact ⟨.undefined, rfl, by simp⟩
  | case12 l path hv n hn s hf hdv =>
    rw [coerceLiteral, validateLiteral]
    simp only [hv, hn, Bool.false_eq_true, ↓reduceIte, hf, hdv]
    exact ⟨_, rfl, by simpa using (isDefined_iff _).1 hdv⟩
  | case13 l path hv n hn s hf hdv =>
    rw [coerceLiteral, validateLiteral]
    simp only [hv, hn, Bool.false_eq_true, ↓reduceIte, hf, hdv]
    refine ⟨_, rfl, ?_⟩
    have : ¬ (leafLiteral c (Leaf.scalar s) l ≠ .undefined) := fun h => hdv ((isDefined_iff _).2 h)
    simpa using this
  | case14 l path hv n hn e hf hdv =>
    rw [coerceLiteral, validateLiteral]
    simp only [hv, hn, Bool.false_eq_true, ↓reduceIte, hf, hdv]
    exact ⟨_, rfl, by simpa using (isDefined_iff _).1 hdv⟩
  | case15 l path hv n hn e hf hdv =>
    rw [coerceLiteral, validateLiteral]
    simp only [hv, hn, Bool.false_eq_true, ↓reduceIte, hf, hdv]
    refine ⟨_, rfl, ?_⟩
    have : ¬ (leafLiteral c (Leaf.enum e) l ≠ .undefined) := fun h => hdv ((isDefined_iff _).2 h)
    simpa using this
  | case16 l path hv n hn hf =>
    rw [coerceLiteral, validateLiteral]
    simp [hv, hn, hf]

end Gql.Values
