import Gql.Proofs.SchemaText1
import Gql.Proofs.ExecLex3
/-!
C17, text level, part 2: the pieces of `print_schema`'s text lex to the tokens of the translated
definitions (descriptions, deprecation / specifiedBy directives, input values, argument lists).
-/
namespace Gql.Types.PrintSchema
open Gql Gql.Text Gql.Syntax Gql.Generated

/-! ## a small calculus: strict pieces and safe starts -/

/-- Put behind a token that needs a safe continuation, the text keeps the continuation safe. -/
def SafeStart (b : List Nat) : Prop := ∀ rest, Safe rest → Safe (b ++ rest)

theorem SafeStart.nil : SafeStart [] := fun _ h => h

theorem SafeStart.cons {c : Nat} {r : List Nat} (h : safeHead c = true) : SafeStart (c :: r) :=
  fun _ _ => Safe.cons h

theorem SafeStart.append {a b : List Nat} (ha : SafeStart a) (hb : SafeStart b) : SafeStart (a ++ b) := by
  intro rest hr
  rw [List.append_assoc]
  exact ha _ (hb rest hr)

theorem lx_app {a b : List Nat} {ka kb : List KV} (ha : Lexes true a ka) (hb : Lexes true b kb)
    (hs : SafeStart b) : Lexes true (a ++ b) (ka ++ kb) :=
  Lexes.append ha hb (fun _ rest hr => hs rest (hr rfl))

theorem lx_ign {a b : List Nat} {kb : List KV} (ha : Ignorable a) (hb : Lexes true b kb) :
    Lexes true (a ++ b) kb := by
  simpa using Lexes.append_l (Lexes.ignorable a ha) hb

theorem lx_nil : Lexes true [] [] := Lexes.nil.weaken true

theorem lx_punct (c : Nat) (k : TokKind) (h : punctKind c = some k) : Lexes true [c] [(k, none)] :=
  (Lexes.punct c k h).weaken true

theorem ign_spaces (k : Nat) : Ignorable (List.replicate k 32) := by
  intro c hc; simp at hc; simp [hc.2]

theorem safeStart_spaces (k : Nat) {b : List Nat} (hb : SafeStart b) : SafeStart (List.replicate k 32 ++ b) := by
  cases k with
  | zero => simpa using hb
  | succ n => rw [List.replicate_succ]; exact SafeStart.cons (by decide)

/-! ## types, values -/

theorem reindent_eq (k : Nat) (x : List Nat) : reindent k x = indentLF k x := by
  induction x with
  | nil => rfl
  | cons c r ih => simp [reindent, indentLF, ih]

theorem printType_eq (t : TypeRef) : printType t = (toTy t).print := by
  induction t with
  | named n => rfl
  | list t ih => simp [printType, toTy, Ty.print, ih]
  | nonNull t ih => simp [printType, toTy, Ty.print, ih]

mutual
  theorem printValue_eq (w : Widths) : ∀ v : Value, printValue w v = Val.print w (toVal v)
    | .int s => by simp [printValue, toVal, Val.print]
    | .float s => by simp [printValue, toVal, Val.print]
    | .str s b => by simp [printValue, toVal, Val.print]
    | .bool b => by simp [printValue, toVal, Val.print]
    | .null => by simp [printValue, toVal, Val.print]
    | .enum n => by simp [printValue, toVal, Val.print]
    | .list items => by simp [printValue, toVal, Val.print, printItems_eq w items]
    | .obj fields => by simp [printValue, toVal, Val.print, printObjFields_eq w fields]
    | .vnil => by simp [printValue, toVal, Val.print]
    | .lcons _ _ => by simp [printValue, toVal, Val.print]
    | .fcons _ _ _ => by simp [printValue, toVal, Val.print]
  theorem printItems_eq (w : Widths) : ∀ v : Value, printItems w v = Val.printList w (toValList v)
    | .lcons v rest => by simp [printItems, toValList, Val.printList, printValue_eq w v, printItems_eq w rest]
    | .int _ | .float _ | .str _ _ | .bool _ | .null | .enum _ | .list _ | .obj _ | .vnil | .fcons _ _ _ => by
      simp [printItems, toValList, Val.printList]
  theorem printObjFields_eq (w : Widths) : ∀ v : Value, printObjFields w v = Val.printFields w (toValFields v)
    | .fcons n v rest => by
      simp [printObjFields, toValFields, Val.printFields, printValue_eq w v, printObjFields_eq w rest]
    | .int _ | .float _ | .str _ _ | .bool _ | .null | .enum _ | .list _ | .obj _ | .vnil | .lcons _ _ => by
      simp [printObjFields, toValFields, Val.printFields]
end

section
variable (w : Widths) (hw : 4 ≤ w.object)
variable (hT : tableOK Generated.escapeTable = true) (hC : tableComplete Generated.escapeTable = true)
include hw hT hC

/-! ## descriptions -/

/-- `print_description`, at any indentation, first in its block or not. -/
theorem lexes_printDescription (d : Option Str) (h : Exec.descWf (toDesc (descNode d))) (ind : Nat) (first : Bool) :
    Lexes false (printDescription w d ind first) (Exec.descKvs (toDesc (descNode d))) := by
  cases d with
  | none => simpa [printDescription, toDesc, descNode, Exec.descKvs] using Lexes.nil
  | some v =>
    have hlit : descLiteral w v = Exec.descText w (toDesc (descNode (some v))) := by
      simp [descLiteral, Exec.descText, toDesc, descNode]
    have hpre : Ignorable (if ind ≠ 0 ∧ first = false then 10 :: spaces ind else spaces ind) := by
      split
      · exact ignorable_lf_spaces ind
      · exact ign_spaces ind
    rcases lexes_desc w hw hT hC _ h ind with ⟨h0, _⟩ | ⟨_, hL⟩
    · exfalso
      have : Exec.descText w (toDesc (descNode (some v))) ≠ [] := by
        simp only [toDesc, descNode, Option.map_some, Exec.descText]
        split <;> simp [printBlockStringW, printString, printStringWith]
      exact indentLF_ne_nil this h0
    · simp only [printDescription, reindent_eq, hlit]
      have h1 := Lexes.append_ign hL (sep := [10]) (by intro c hc; simp at hc; simp [hc]) (by simp)
      have := Lexes.append_l (Lexes.ignorable _ hpre) h1
      simpa [List.append_assoc] using this

/-! ## directives printed by `print_deprecated` / `print_specified_by_url` / `@oneOf` -/

omit hw hT hC in
theorem printDeprecated_eq (r : Option Str) :
    printDeprecated r = wrap [32] (Exec.printDirs w ((deprDirs r).map toDir)) := by
  cases r with
  | none => simp [printDeprecated, deprDirs, Exec.printDirs, join, joinWith, wrap]
  | some r =>
    simp only [printDeprecated, deprDirs]
    split
    · simp [Exec.printDirs, Exec.printDir, toDir, join, joinWith, wrap, Val.printFields]
      decide
    · have e1 : S " @deprecated(reason: " =
          32 :: 64 :: (SchemaConsts.deprecatedName ++ 40 :: (SchemaConsts.reasonArg ++ S ": ")) := by decide
      have e2 : S ")" = [41] := by decide
      simp [Exec.printDirs, Exec.printDir, toDir, join, joinWith, wrap, Val.printFields, toVal, Val.print, e1, e2,
        SchemaConsts.reasonArg]

omit hw hT hC in
theorem printSpecifiedBy_eq (u : Option Str) :
    printSpecifiedBy u = wrap [32] (Exec.printDirs w ((specifiedByDirs u).map toDir)) := by
  cases u with
  | none => simp [printSpecifiedBy, specifiedByDirs, Exec.printDirs, join, joinWith, wrap]
  | some u =>
    have e1 : S " @specifiedBy(url: " =
        32 :: 64 :: (SchemaConsts.specifiedByName ++ 40 :: (SchemaConsts.urlArg ++ S ": ")) := by decide
    have e2 : S ")" = [41] := by decide
    simp [printSpecifiedBy, specifiedByDirs, Exec.printDirs, Exec.printDir, toDir, join, joinWith, wrap,
      Val.printFields, toVal, Val.print, e1, e2, SchemaConsts.urlArg]

/-- ` @dirs` or nothing. -/
theorem lexes_wrapDirs (ds : List Dir) (h : Exec.dirsWfC true ds) :
    Lexes true (wrap [32] (Exec.printDirs w ds)) (Exec.dirsKvs ds) ∧ SafeStart (wrap [32] (Exec.printDirs w ds)) := by
  rcases lexes_dirs w hw hT hC true ds h 0 with ⟨h0, hk0⟩ | ⟨hne, hL⟩
  · rw [indentLF_zero] at h0
    rw [h0, hk0]
    exact ⟨by simpa [wrap] using lx_nil, by simpa [wrap] using SafeStart.nil⟩
  · rw [indentLF_zero] at hne hL
    obtain ⟨a, r, har⟩ := List.exists_cons_of_ne_nil hne
    rw [har] at hL ⊢
    refine ⟨?_, by simpa [wrap] using SafeStart.cons (c := 32) (by decide)⟩
    have := lx_ign ign32 hL
    simpa [wrap] using this

/-! ## input values -/

/-- The input value definition of an argument, without its description. -/
def ivd0 (a : Arg) : VarDef := ⟨none, a.name, toTy a.type, a.default.map toVal, (deprDirs a.depr).map toDir⟩

omit hT hC in
theorem printInputValue_eq (a : Arg) (hn : a.name ≠ [])
    (hd : ∀ v, a.default = some v → Val.wf true (toVal v)) :
    printInputValue w a = Exec.printIvd w (ivd0 a) := by
  rw [printIvd_eq w (ivd0 a) hn]
  simp only [printInputValue, ivd0, Exec.descText, printType_eq, printDeprecated_eq w]
  cases hdef : a.default with
  | none => simp [Exec.dfltText, wrap]
  | some v =>
    have hne := print_ne_nil w hw true (toVal v) (hd v hdef)
    obtain ⟨c, r, hcr⟩ := List.exists_cons_of_ne_nil hne
    simp [Exec.dfltText, wrap, printValue_eq, hcr, S_eq]

theorem lexes_printInputValue (a : Arg) (h : Exec.varDefWf (toVarDef (argToIVD a))) :
    Lexes true (printInputValue w a) (Exec.ivdKvs (ivd0 a)) := by
  obtain ⟨_, hname, hty, hsh, hdf, hds⟩ := h
  have hwf0 : Exec.varDefWf (ivd0 a) := ⟨trivial, hname, hty, hsh, hdf, hds⟩
  have hd : ∀ v, a.default = some v → Val.wf true (toVal v) := by
    intro v hv
    simp only [toVarDef, argToIVD, hv, Option.map_some] at hdf
    exact hdf
  rw [printInputValue_eq w hw a (validName_ne_nil hname) hd]
  have := lexes_ivd w hw hT hC (ivd0 a) hwf0 0
  rwa [indentLF_zero] at this

omit hw hT hC in
theorem ivdKvs_split (a : Arg) :
    Exec.ivdKvs (toVarDef (argToIVD a)) = Exec.descKvs (toDesc (descNode a.desc)) ++ Exec.ivdKvs (ivd0 a) := by
  simp [Exec.ivdKvs, ivd0, toVarDef, argToIVD, Exec.descKvs]

end

end Gql.Types.PrintSchema
