/-
C13 — a concrete instance of the hypotheses of `soundness_partial₁` (non-vacuity).
-/
import Gql.Proofs.SoundExec3
import Gql.Proofs.SoundKeys
import Gql.Exec.Values

namespace Gql.Exec.Valid.Example
open Gql Gql.Exec Gql.Exec.Valid

/-- a value layer for the example: leaves pass through when they have the prescribed kind,
literals coerce to `null` -/
def exOps : Ops :=
  { serialize := fun s n l =>
      let j := Gql.Exec.Concrete.leafJson l
      if leafShape s n j then some j else none,
    coerceLiteral := fun _ _ _ _ => some .null }

def exS : Schema :=
  { query := "Query", mutation := none,
    types := [
      .object "Query" [] [⟨"a", [], .named "A" false⟩, ⟨"n", [⟨"x", .named "Int" false, some (.int 5)⟩], .named "Int" true⟩],
      .object "A" [] [⟨"id", [], .named "ID" true⟩]] }

theorem lookup_cases (s : Schema) (n : Name) (d : TypeDef) (h : s.lookup n = some d) :
    d ∈ s.types ∨ d = .scalar n := by
  unfold Schema.lookup at h
  cases hf : s.types.find? (fun d => d.name == n) with
  | some d' =>
    simp only [hf, Option.some.injEq] at h
    subst h
    exact Or.inl (List.mem_of_find?_eq_some hf)
  | none =>
    simp only [hf] at h
    split at h
    · simp only [Option.some.injEq] at h; exact Or.inr h.symm
    · cases h

theorem exS_noSub (i o : Name) : exS.isSubType i o = false := by
  cases hb : exS.isSubType i o with
  | false => rfl
  | true =>
    unfold Schema.isSubType at hb
    cases hl : exS.lookup i with
    | none => simp [hl] at hb
    | some d =>
      rcases lookup_cases exS i d hl with hm | hm
      · simp only [exS, List.mem_cons, List.mem_nil_iff, or_false] at hm
        rcases hm with rfl | rfl <;> simp [hl] at hb
      · subst hm; simp [hl] at hb

theorem exHyps : SoundHyps exOps exS where
  opsSound := by intro t d v _ vars; simp [exOps]
  defaultsOk := by intro o f fd _ a _ d _; simp [exOps]
  ifaceOk := by intro i o name fd h; simp [exS_noSub] at h
  stringId := by
    intro cs
    simp [exOps, leafShape, Gql.Exec.Concrete.leafJson, Schema.lookup, exS, TypeDef.name, builtinScalars]
  serializeShape := by
    intro n l j h _
    simp only [exOps] at h
    split at h
    · cases h; assumption
    · cases h

def exOp : Operation :=
  { kind := .query, name := none, vars := [],
    sels := [.field none "a" [] [] [.field none "id" [] [] [], .field (some "t") "__typename" [] [] []],
             .field none "n" [("x", .int 3)] [] []] }

def exDoc : Doc := { ops := [exOp], frags := [] }

def exRoot : RVal :=
  .obj .missing (fun f _ =>
    if f == "a" then .obj .missing (fun g _ => if g == "id" then .leaf (.str [120]) else .null)
    else if f == "n" then .leaf (.int 7)
    else .null)

theorem exConf : Conforms exOps exS (.named "Query" true) exRoot := by
  simp only [exRoot, Conforms]
  refine ⟨"Query", [⟨"a", [], .named "A" false⟩,
    ⟨"n", [⟨"x", .named "Int" false, some (.int 5)⟩], .named "Int" true⟩], by decide, rfl, ?_⟩
  intro fd hfd args
  simp only [List.mem_cons, List.mem_nil_iff, or_false] at hfd
  rcases hfd with rfl | rfl
  · simp only [beq_self_eq_true, ↓reduceIte, Conforms]
    refine ⟨"A", [⟨"id", [], .named "ID" true⟩], by decide, rfl, ?_⟩
    intro fd hfd args
    simp only [List.mem_cons, List.mem_nil_iff, or_false] at hfd
    subst hfd
    simp only [beq_self_eq_true, ↓reduceIte, Conforms]
    exact ⟨by decide, .str [120], rfl, by simp⟩
  · simp only [Conforms]
    exact ⟨by decide, .int 7, rfl, by simp⟩

/-- stage 3 example: a variable with default, a Boolean variable in `@skip`, a fragment spread,
an inline fragment with type condition, a response key selected twice (merged) -/
def exOp3 : Operation :=
  { kind := .query, name := none,
    vars := [⟨"v", .named "Int" false, some (.int 3)⟩, ⟨"b", .named "Boolean" true, none⟩],
    sels := [.field none "a" [] [] [.spread "F" [], .inline (some "A") [] [.field none "id" [] [] []]],
             .field none "n" [("x", .var "v")] [⟨"skip", [("if", .var "b")]⟩] []] }

def exDoc3 : Doc :=
  { ops := [exOp3],
    frags := [{ name := "F", cond := "A",
                sels := [.field none "id" [] [] [], .field (some "t") "__typename" [] [] []] }] }

def exVars3 : Vars := [("v", .int 3), ("b", .bool false)]

theorem exVarsOk3 : VarsOk exOp3.vars exVars3 := by
  intro vd hvd _
  simp only [exOp3, List.mem_cons, List.mem_nil_iff, or_false] at hvd
  rcases hvd with rfl | rfl <;> decide

theorem exVarsTyped3 : VarsTyped exS exOp3.vars exVars3 := by
  intro vd hvd w hw
  simp only [exOp3, List.mem_cons, List.mem_nil_iff, or_false] at hvd
  rcases hvd with rfl | rfl
  · simp only [exVars3, List.lookup] at hw
    cases hw
    simp only [pyConforms]
    exact Or.inl (by decide)
  · simp only [exVars3, List.lookup] at hw
    have hb : ("b" == "v") = false := by decide
    simp only [hb, beq_self_eq_true, Option.some.injEq] at hw
    subst hw
    simp only [pyConforms]
    exact Or.inl (by decide)

theorem exOpsV3 : OpsSoundV exOps exS exOp3.vars exVars3 := by
  intro _ t d v _ _ _
  simp [exOps]

end Gql.Exec.Valid.Example
