import Gql.Exec.Overlap
import Gql.Exec.SpecMerge
/-! Lemmas for C14: `same_arguments` (sorted, printed values) against the specification's
"identical sets of arguments" (equality up to argument order and input-object field order). -/
namespace Gql.Exec
open Overlap

mutual
theorem valueBeq_iff : ∀ (a b : Value), valueBeq a b = true ↔ a = b
  | .leaf a, .leaf b => by simp [valueBeq]
  | .list as, .list bs => by simp [valueBeq, valuesBeq_iff as bs]
  | .obj as, .obj bs => by simp [valueBeq, fieldsBeq_iff as bs]
  | .leaf _, .list _ => by simp [valueBeq]
  | .leaf _, .obj _ => by simp [valueBeq]
  | .list _, .leaf _ => by simp [valueBeq]
  | .list _, .obj _ => by simp [valueBeq]
  | .obj _, .leaf _ => by simp [valueBeq]
  | .obj _, .list _ => by simp [valueBeq]
theorem valuesBeq_iff : ∀ (as bs : List Value), valuesBeq as bs = true ↔ as = bs
  | [], [] => by simp [valuesBeq]
  | [], _ :: _ => by simp [valuesBeq]
  | _ :: _, [] => by simp [valuesBeq]
  | a :: as, b :: bs => by simp [valuesBeq, valueBeq_iff a b, valuesBeq_iff as bs]
theorem fieldsBeq_iff : ∀ (as bs : List (String × Value)), fieldsBeq as bs = true ↔ as = bs
  | [], [] => by simp [fieldsBeq]
  | [], _ :: _ => by simp [fieldsBeq]
  | _ :: _, [] => by simp [fieldsBeq]
  | (k, a) :: as, (l, b) :: bs => by
    simp [fieldsBeq, valueBeq_iff a b, fieldsBeq_iff as bs, and_assoc]
end

/-- The sort key order only has to be a linear order (a harmless change of the order keeps the
theorems). -/
structure LinOrd (le : String → String → Bool) : Prop where
  total : ∀ a b, le a b = true ∨ le b a = true
  trans : ∀ a b c, le a b = true → le b c = true → le a c = true
  antisymm : ∀ a b, le a b = true → le b a = true → a = b

abbrev KeysDistinct (xs : List (String × Value)) : Prop := xs.Pairwise (fun a b => a.1 ≠ b.1)

theorem namesUnique_iff (xs : List (String × Value)) : namesUnique xs = true ↔ KeysDistinct xs := by
  induction xs with
  | nil => simp [namesUnique, KeysDistinct]
  | cons x rest ih =>
    simp only [namesUnique, Bool.and_eq_true, ih, KeysDistinct, List.pairwise_cons]
    constructor
    · rintro ⟨h1, h2⟩
      refine ⟨fun b hb e => ?_, h2⟩
      simp only [Bool.not_eq_true', List.any_eq_false, beq_iff_eq] at h1
      exact h1 b hb e.symm
    · rintro ⟨h1, h2⟩
      refine ⟨?_, h2⟩
      simp only [Bool.not_eq_true', List.any_eq_false, beq_iff_eq]
      exact fun b hb e => h1 b hb e.symm

theorem insertBy_perm (le) (x : String × Value) (ys : List (String × Value)) :
    (insertBy le x ys).Perm (x :: ys) := by
  induction ys with
  | nil => simp [insertBy]
  | cons y ys ih =>
    simp only [insertBy]
    split
    · exact List.Perm.refl _
    · exact (List.Perm.cons y ih).trans (List.Perm.swap x y ys)

theorem sortBy_perm (le) (xs : List (String × Value)) : (sortBy le xs).Perm xs := by
  induction xs with
  | nil => simp [sortBy]
  | cons x xs ih => exact (insertBy_perm le x _).trans (List.Perm.cons x ih)

abbrev SortedBy (le : String → String → Bool) (xs : List (String × Value)) : Prop :=
  xs.Pairwise (fun a b => le a.1 b.1 = true)

theorem insertBy_sorted {le} (h : LinOrd le) (x : String × Value) (ys : List (String × Value))
    (hs : SortedBy le ys) : SortedBy le (insertBy le x ys) := by
  induction ys with
  | nil => simp [insertBy, SortedBy]
  | cons y ys ih =>
    simp only [insertBy]
    have hs' := List.pairwise_cons.1 hs
    split
    · rename_i hxy
      refine List.pairwise_cons.2 ⟨fun b hb => ?_, hs⟩
      rcases List.mem_cons.1 hb with rfl | hb
      · exact hxy
      · exact h.trans _ _ _ hxy (hs'.1 b hb)
    · rename_i hxy
      have hyx : le y.1 x.1 = true := by
        rcases h.total x.1 y.1 with h1 | h1
        · exact absurd h1 hxy
        · exact h1
      refine List.pairwise_cons.2 ⟨fun b hb => ?_, ih hs'.2⟩
      have := (insertBy_perm le x ys).subset hb
      rcases List.mem_cons.1 this with rfl | hb
      · exact hyx
      · exact hs'.1 b hb

theorem sortBy_sorted {le} (h : LinOrd le) (xs : List (String × Value)) :
    SortedBy le (sortBy le xs) := by
  induction xs with
  | nil => simp [sortBy, SortedBy]
  | cons x xs ih => exact insertBy_sorted h x _ ih

theorem lookupFirst_of_mem {xs : List (String × Value)} (hd : KeysDistinct xs)
    {p : String × Value} (hp : p ∈ xs) : Spec.lookupFirst xs p.1 = some p.2 := by
  induction xs with
  | nil => cases hp
  | cons x xs ih =>
    have hd' := List.pairwise_cons.1 hd
    rcases List.mem_cons.1 hp with rfl | hp
    · simp [Spec.lookupFirst, List.find?]
    · have hne : x.1 ≠ p.1 := hd'.1 p hp
      have : (x.1 == p.1) = false := by simpa using hne
      have ih' := ih hd'.2 hp
      simp only [Spec.lookupFirst, List.find?, this] at ih' ⊢
      exact ih'

theorem mem_of_lookupFirst {xs : List (String × Value)} {k : String} {v : Value}
    (h : Spec.lookupFirst xs k = some v) : (k, v) ∈ xs := by
  induction xs with
  | nil => simp [Spec.lookupFirst] at h
  | cons x xs ih =>
    simp only [Spec.lookupFirst, List.find?] at h
    by_cases hx : (x.1 == k) = true
    · simp only [hx, Option.map_some, Option.some.injEq] at h
      have hk : x.1 = k := by simpa using hx
      have : x = (k, v) := by cases x; simp_all
      simp [this]
    · have hx' : (x.1 == k) = false := by simpa using hx
      simp only [hx'] at h
      exact List.mem_cons_of_mem _ (ih h)

theorem keysDistinct_nodup {xs : List (String × Value)} (h : KeysDistinct xs) : xs.Nodup :=
  List.Pairwise.imp (fun hab e => hab (by rw [e])) h

/-- pigeonhole: a duplicate-free list contained in a list of the same length contains it -/
theorem subset_of_subset_length {α : Type} {A B : List α} (hA : A.Nodup) (hsub : A ⊆ B)
    (hlen : A.length = B.length) : B ⊆ A := by
  classical
  intro b hb
  apply Classical.byContradiction
  intro hnot
  have hsub' : A ⊆ B.erase b := by
    intro x hx
    have hxb : x ≠ b := fun e => hnot (e ▸ hx)
    exact (List.mem_erase_of_ne hxb).2 (hsub hx)
  have h1 := hA.length_le_of_subset hsub'
  have h2 : (B.erase b).length = B.length - 1 := by rw [List.length_erase]; simp [hb]
  have h3 : 1 ≤ B.length := List.length_pos_of_mem hb
  omega

/-- Sorting two key-distinct association lists gives the same list iff they are the same map. -/
theorem sortBy_eq_iff {le} (h : LinOrd le) {A B : List (String × Value)} (hA : KeysDistinct A)
    (hB : KeysDistinct B) :
    sortBy le A = sortBy le B ↔
      A.length = B.length ∧ ∀ p ∈ A, Spec.lookupFirst B p.1 = some p.2 := by
  constructor
  · intro e
    have hperm : A.Perm B := (sortBy_perm le A).symm.trans (e ▸ sortBy_perm le B)
    exact ⟨hperm.length_eq, fun p hp => lookupFirst_of_mem hB (hperm.subset hp)⟩
  · rintro ⟨hlen, hsub⟩
    have hAB : A ⊆ B := fun p hp => by
      have := mem_of_lookupFirst (hsub p hp)
      simpa using this
    have hBA : B ⊆ A := subset_of_subset_length (keysDistinct_nodup hA) hAB hlen
    have hperm : A.Perm B :=
      (List.perm_ext_iff_of_nodup (keysDistinct_nodup hA) (keysDistinct_nodup hB)).2
        (fun a => ⟨fun ha => hAB ha, fun hb => hBA hb⟩)
    have hp2 : (sortBy le A).Perm (sortBy le B) :=
      (sortBy_perm le A).trans (hperm.trans (sortBy_perm le B).symm)
    refine List.Perm.eq_of_pairwise (le := fun a b => le a.1 b.1 = true) ?_
      (sortBy_sorted h A) (sortBy_sorted h B) hp2
    intro a b ha hb hab hba
    have hk : a.1 = b.1 := h.antisymm _ _ hab hba
    have haB : a ∈ B := hAB ((sortBy_perm le A).subset ha)
    have hbB : b ∈ B := (sortBy_perm le B).subset hb
    have h1 := lookupFirst_of_mem hB haB
    have h2 := lookupFirst_of_mem hB hbB
    rw [hk] at h1
    have : a.2 = b.2 := by rw [h1] at h2; exact Option.some.inj h2
    cases a; cases b; simp_all

theorem sortFieldValues_eq_map (le) (fs : List (String × Value)) :
    sortFieldValues le fs = fs.map (fun p => (p.1, sortValue le p.2)) := by
  induction fs with
  | nil => simp [sortFieldValues]
  | cons x xs ih => cases x; simp [sortFieldValues, ih]

theorem lookupFirst_sfv (le) (fs : List (String × Value)) (k : String) :
    Spec.lookupFirst (sortFieldValues le fs) k = (Spec.lookupFirst fs k).map (sortValue le) := by
  induction fs with
  | nil => simp [sortFieldValues, Spec.lookupFirst]
  | cons x xs ih =>
    cases x with
    | mk k' v =>
      simp only [sortFieldValues, Spec.lookupFirst, List.find?] at ih ⊢
      by_cases hk : (k' == k) = true
      · simp [hk]
      · have hk' : (k' == k) = false := by simpa using hk
        simp only [hk']
        exact ih

theorem keysDistinct_sfv (le) {fs : List (String × Value)} (h : KeysDistinct fs) :
    KeysDistinct (sortFieldValues le fs) := by
  rw [sortFieldValues_eq_map]
  exact List.pairwise_map.2 (List.Pairwise.imp (fun hab => hab) h)

theorem keysUnique_of_lookupFirst {fs : List (String × Value)} {k : String} {v : Value}
    (hu : fieldsKeysUnique fs = true) (h : Spec.lookupFirst fs k = some v) :
    v.keysUnique = true := by
  induction fs with
  | nil => simp [Spec.lookupFirst] at h
  | cons x xs ih =>
    cases x with
    | mk k' v' =>
      simp only [fieldsKeysUnique, Bool.and_eq_true] at hu
      simp only [Spec.lookupFirst, List.find?] at h ih
      by_cases hk : (k' == k) = true
      · simp only [hk, Option.map_some, Option.some.injEq] at h
        exact h ▸ hu.1
      · have hk' : (k' == k) = false := by simpa using hk
        simp only [hk'] at h
        exact ih hu.2 h

mutual
theorem sameValue_eq {le} (h : LinOrd le) : ∀ (v w : Value), v.keysUnique = true →
    w.keysUnique = true → valueBeq (sortValue le v) (sortValue le w) = Spec.valueEquiv v w
  | .leaf a, .leaf b, _, _ => by simp [sortValue, valueBeq, Spec.valueEquiv]
  | .list as, .list bs, hv, hw => by
    simp only [Value.keysUnique] at hv hw
    simp only [sortValue, valueBeq, Spec.valueEquiv]
    exact sameValues_eq h as bs hv hw
  | .obj as, .obj bs, hv, hw => by
    simp only [Value.keysUnique, Bool.and_eq_true] at hv hw
    simp only [sortValue, valueBeq, Spec.valueEquiv]
    rw [Bool.eq_iff_iff, fieldsBeq_iff,
      sortBy_eq_iff h (keysDistinct_sfv le ((namesUnique_iff as).1 hv.1))
        (keysDistinct_sfv le ((namesUnique_iff bs).1 hw.1)),
      Bool.and_eq_true, fieldsSub_iff h as bs hv.2 hw.2]
    simp [sortFieldValues_eq_map]
  | .leaf _, .list _, _, _ => by simp [sortValue, valueBeq, Spec.valueEquiv]
  | .leaf _, .obj _, _, _ => by simp [sortValue, valueBeq, Spec.valueEquiv]
  | .list _, .leaf _, _, _ => by simp [sortValue, valueBeq, Spec.valueEquiv]
  | .list _, .obj _, _, _ => by simp [sortValue, valueBeq, Spec.valueEquiv]
  | .obj _, .leaf _, _, _ => by simp [sortValue, valueBeq, Spec.valueEquiv]
  | .obj _, .list _, _, _ => by simp [sortValue, valueBeq, Spec.valueEquiv]
theorem sameValues_eq {le} (h : LinOrd le) : ∀ (as bs : List Value), valuesKeysUnique as = true →
    valuesKeysUnique bs = true →
    valuesBeq (sortValues le as) (sortValues le bs) = Spec.listEquiv as bs
  | [], [], _, _ => by simp [sortValues, valuesBeq, Spec.listEquiv]
  | [], _ :: _, _, _ => by simp [sortValues, valuesBeq, Spec.listEquiv]
  | _ :: _, [], _, _ => by simp [sortValues, valuesBeq, Spec.listEquiv]
  | a :: as, b :: bs, ha, hb => by
    simp only [valuesKeysUnique, Bool.and_eq_true] at ha hb
    simp only [sortValues, valuesBeq, Spec.listEquiv]
    rw [sameValue_eq h a b ha.1 hb.1, sameValues_eq h as bs ha.2 hb.2]
theorem fieldsSub_iff {le} (h : LinOrd le) : ∀ (as bs : List (String × Value)),
    fieldsKeysUnique as = true → fieldsKeysUnique bs = true →
    (Spec.fieldsSub as bs = true ↔
      ∀ p ∈ sortFieldValues le as, Spec.lookupFirst (sortFieldValues le bs) p.1 = some p.2)
  | [], bs, _, _ => by simp [Spec.fieldsSub, sortFieldValues]
  | (k, v) :: as, bs, ha, hb => by
    simp only [fieldsKeysUnique, Bool.and_eq_true] at ha
    simp only [Spec.fieldsSub, Bool.and_eq_true, sortFieldValues, List.mem_cons, forall_eq_or_imp,
      fieldsSub_iff h as bs ha.2 hb, lookupFirst_sfv]
    refine and_congr ?_ Iff.rfl
    cases hl : Spec.lookupFirst bs k with
    | none => simp
    | some v' =>
      have hv' := keysUnique_of_lookupFirst hb hl
      simp only [Option.map_some, Option.some.injEq]
      rw [← sameValue_eq h v v' ha.1 hv', valueBeq_iff]
      exact eq_comm
end

theorem lookupLast_eq_lookupFirst {b : List (String × Value)} (hb : KeysDistinct b) (k : String) :
    lookupLast b k = Spec.lookupFirst b k := by
  cases hf : Spec.lookupFirst b k with
  | none =>
    simp only [Spec.lookupFirst, Option.map_eq_none_iff, List.find?_eq_none] at hf
    simp only [lookupLast, Option.map_eq_none_iff, List.find?_eq_none, List.mem_reverse]
    exact hf
  | some v =>
    have hm : (k, v) ∈ b := mem_of_lookupFirst hf
    cases hl : b.reverse.find? (fun a => a.1 == k) with
    | none =>
      rw [List.find?_eq_none] at hl
      have := hl (k, v) (List.mem_reverse.2 hm)
      simp at this
    | some x =>
      have hx : x ∈ b := List.mem_reverse.1 (List.mem_of_find?_eq_some hl)
      have hk : x.1 = k := by simpa using List.find?_some hl
      have h1 := lookupFirst_of_mem hb hx
      rw [hk, hf] at h1
      simp only [lookupLast, hl, Option.map_some]
      exact h1.symm

theorem all_eq_fieldsSub {le} (h : LinOrd le) {b : Args} (hb : argsWF b = true) :
    ∀ (as : Args), fieldsKeysUnique as = true →
      as.all (argMatches le b) = Spec.fieldsSub as b
  | [], _ => by simp [Spec.fieldsSub]
  | (k, v) :: as, ha => by
    have hb0 := hb
    simp only [argsWF, Bool.and_eq_true] at hb
    simp only [fieldsKeysUnique, Bool.and_eq_true] at ha
    simp only [List.all_cons, Spec.fieldsSub, all_eq_fieldsSub h hb0 as ha.2, argMatches,
      lookupLast_eq_lookupFirst ((namesUnique_iff b).1 hb.1)]
    congr 1
    cases hl : Spec.lookupFirst b k with
    | none => rfl
    | some v' =>
      exact sameValue_eq h v v' ha.1 (keysUnique_of_lookupFirst hb.2 hl)

/-- `same_arguments` decides the specification's "identical sets of arguments". -/
theorem sameArguments_eq_argsEquiv {le} (h : LinOrd le) (a b : Args) (ha : argsWF a = true)
    (hb : argsWF b = true) : sameArguments le a b = Spec.argsEquiv a b := by
  unfold sameArguments Spec.argsEquiv
  have ha' : fieldsKeysUnique a = true := by
    simp only [argsWF, Bool.and_eq_true] at ha; exact ha.2
  cases a with
  | nil => cases b <;> simp [Spec.fieldsSub]
  | cons x xs =>
    cases b with
    | nil => simp
    | cons y ys =>
      simp only [List.isEmpty_cons, Bool.false_eq_true, if_false]
      rw [all_eq_fieldsSub h hb _ ha']
      by_cases hl : xs.length = ys.length
      · simp [hl]
      · simp [hl]

theorem sameStreams_eq_streamsEquiv {le} (h : LinOrd le) (a b : Option Args)
    (ha : ∀ x, a = some x → argsWF x = true) (hb : ∀ x, b = some x → argsWF x = true) :
    sameStreams le a b = Spec.streamsEquiv a b := by
  cases a <;> cases b <;> simp [sameStreams, Spec.streamsEquiv]
  exact sameArguments_eq_argsEquiv h _ _ (ha _ rfl) (hb _ rfl)

end Gql.Exec
