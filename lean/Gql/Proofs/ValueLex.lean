import Gql.Proofs.ValueDefs
import Gql.Proofs.LexLeaves
/-!
`render_lex` for values: the text the printer emits for a well-formed value — in either layout
(one line / wrapped), re-indented by any amount — lexes to exactly the value's tokens.
-/
namespace Gql.Text
open Gql.Syntax

/-! ### helpers -/

theorem indentLF_zero (x : List Nat) : indentLF 0 x = x := by
  induction x with
  | nil => rfl
  | cons c r ih => by_cases hc : c = 10 <;> simp [indentLF, hc, ih]

theorem indentLF_joinWith (k : Nat) (sep : List Nat) (ts : List (List Nat)) :
    indentLF k (joinWith sep ts) = joinWith (indentLF k sep) (ts.map (indentLF k)) := by
  induction ts with
  | nil => simp [joinWith, indentLF]
  | cons t rest ih =>
    cases rest with
    | nil => simp [joinWith]
    | cons t' rest' =>
      simp only [joinWith, List.map_cons, indentLF_append] at ih ⊢
      rw [ih]

theorem join_eq_joinWith (sep : List Nat) (ts : List (List Nat)) (h : ∀ t ∈ ts, t ≠ []) :
    join ts sep = joinWith sep ts := by
  unfold join
  congr 1
  rw [List.filter_eq_self]
  intro t ht
  have := h t ht
  cases t <;> simp_all

theorem joinWith_eq_nil {sep : List Nat} {ts : List (List Nat)} (h : ∀ t ∈ ts, t ≠ []) (hts : ts ≠ []) :
    joinWith sep ts ≠ [] := by
  cases ts with
  | nil => exact absurd rfl hts
  | cons t rest =>
    have ht := h t (by simp)
    cases rest with
    | nil => simpa [joinWith] using ht
    | cons t' r => simp [joinWith, ht]

theorem ignorable_safe {sep : List Nat} (h : Ignorable sep) (hne : sep ≠ []) (rest : List Nat) :
    Safe (sep ++ rest) := by
  obtain ⟨c, r, rfl⟩ := List.exists_cons_of_ne_nil hne
  apply Safe.cons
  rcases h c (by simp) with rfl | rfl | rfl <;> decide

theorem ignorable_append {a b : List Nat} (ha : Ignorable a) (hb : Ignorable b) : Ignorable (a ++ b) := by
  intro c hc
  rcases List.mem_append.mp hc with h | h
  · exact ha c h
  · exact hb c h

theorem ignorable_lf_spaces (k : Nat) : Ignorable (10 :: List.replicate k 32) := by
  intro c hc
  simp at hc
  rcases hc with rfl | ⟨_, rfl⟩ <;> simp

theorem Lexes.append_l {sb : Bool} {a b : List Nat} {ka kb : List KV} (ha : Lexes false a ka)
    (hb : Lexes sb b kb) : Lexes sb (a ++ b) (ka ++ kb) :=
  Lexes.append ha hb (by intro h; cases h)

theorem Lexes.append_ign {a sep : List Nat} {ka : List KV} (ha : Lexes true a ka) (hsep : Ignorable sep)
    (hne : sep ≠ []) : Lexes false (a ++ sep) ka := by
  have := Lexes.append ha (Lexes.ignorable sep hsep) (fun _ rest _ => ignorable_safe hsep hne rest)
  simpa using this

theorem Lexes.append_punct {a : List Nat} {ka : List KV} (ha : Lexes true a ka) (c : Nat) (k : TokKind)
    (hk : punctKind c = some k) (hc : safeHead c = true) : Lexes false (a ++ [c]) (ka ++ [(k, none)]) :=
  Lexes.append ha (Lexes.punct c k hk) (fun _ rest _ => Safe.cons hc)

theorem name_no10 {n : List Nat} (h : validName n = true) : ∀ c ∈ n, c ≠ 10 := by
  cases n with
  | nil => simp [validName] at h
  | cons a r =>
    simp only [validName, Bool.and_eq_true, List.all_eq_true] at h
    intro c hc
    rcases List.mem_cons.mp hc with rfl | hc
    · have := isNameStart_continue h.1
      intro h10; subst h10; simp [isNameContinue, isLetter, isDigit] at this
    · have := h.2 c hc
      intro h10; subst h10; simp [isNameContinue, isLetter, isDigit] at this

end Gql.Text

namespace Gql.Text
open Gql.Syntax

/-! ### texts without line feeds -/

theorem digits_no10 {ds : List Nat} (h : ds.all isDigit = true) : ∀ c ∈ ds, c ≠ 10 := by
  intro c hc h10
  have := List.all_eq_true.mp h c hc
  subst h10; simp [isDigit] at this

theorem isNum_no10 {fl : Bool} {s : List Nat} (h : IsNum fl s) : ∀ c ∈ s, c ≠ 10 := by
  obtain ⟨⟨sign, ip, fr, ex⟩, ⟨hsign, hip, hfr, hex⟩, rfl, _⟩ := h
  intro c hc
  simp only [NumParts.text, List.mem_append] at hc
  rcases hc with hc | hc | hc | hc
  · rcases hsign with rfl | rfl
    · simp at hc
    · simp at hc; omega
  · cases ip with
    | nil => simp at hc
    | cons a r =>
      unfold intPartOK at hip
      split at hip
      · rename_i heq; cases heq; simp at hc; omega
      · rename_i heq; cases heq
        simp only [Bool.and_eq_true, decide_eq_true_eq] at hip
        rcases List.mem_cons.mp hc with rfl | hc
        · omega
        · exact digits_no10 hip.2 c hc
      · rename_i heq; cases heq
  · rcases hfr with rfl | ⟨ds, rfl, hds⟩
    · simp at hc
    · simp only [digitsOK, Bool.and_eq_true] at hds
      rcases List.mem_cons.mp hc with rfl | hc
      · omega
      · exact digits_no10 hds.2 c hc
  · rcases hex with rfl | ⟨e, sg, ds, rfl, he, hsg, hds⟩
    · simp at hc
    · simp only [digitsOK, Bool.and_eq_true] at hds
      rcases List.mem_cons.mp hc with rfl | hc
      · rcases he with rfl | rfl <;> omega
      · rcases List.mem_append.mp hc with hc | hc
        · rcases hsg with rfl | rfl | rfl <;> simp at hc <;> omega
        · exact digits_no10 hds.2 c hc

theorem read16_hex_no10 {a b c d v : Nat} (h : read16 [a, b, c, d] 0 = some v) :
    a ≠ 10 ∧ b ≠ 10 ∧ c ≠ 10 ∧ d ≠ 10 := by
  have key : ∀ x : Nat, readHexDigit (some x) ≠ none → x ≠ 10 := by
    intro x hx h10; subst h10; simp [readHexDigit] at hx
  simp only [read16, charAt] at h
  refine ⟨key a ?_, key b ?_, key c ?_, key d ?_⟩ <;>
    (intro hn; simp [hn] at h)

theorem entry_no10 {c : Nat} {e : List Nat} (h : entryOK c e = true) : ∀ x ∈ e, x ≠ 10 := by
  unfold entryOK at h
  split at h
  · rename_i x
    intro y hy
    simp at hy
    rcases hy with rfl | rfl
    · omega
    · intro h10; subst h10; simp [escapedChar] at h
  · rename_i h1 h2 h3 h4
    simp only [Bool.and_eq_true, beq_iff_eq] at h
    obtain ⟨a, b, c', d⟩ := read16_hex_no10 h.1.2
    intro y hy
    simp at hy
    rcases hy with rfl | rfl | rfl | rfl | rfl | rfl <;> first | omega | assumption
  · simp at h

theorem translate_no10 (table : List (Nat × List Nat)) (hT : tableOK table = true)
    (hC : tableComplete table = true) (s : List Nat) : ∀ c ∈ translate table s, c ≠ 10 := by
  induction s with
  | nil => intro c hc; simp [translate] at hc
  | cons a r ih =>
    intro c hc
    simp only [translate, List.mem_append] at hc
    rcases hc with hc | hc
    · cases hl : escapeLookup table a with
      | none =>
        simp [hl] at hc; subst hc
        exact (tableComplete_none hC hl).2.2.1
      | some e =>
        simp [hl] at hc
        exact entry_no10 (tableOK_lookup hT hl) c hc
    · exact ih c hc

theorem printString_no10 (hT : tableOK Generated.escapeTable = true)
    (hC : tableComplete Generated.escapeTable = true) (s : List Nat) : ∀ c ∈ printString s, c ≠ 10 := by
  intro c hc
  simp only [printString, printStringWith, List.mem_append, List.mem_cons, List.not_mem_nil, or_false] at hc
  rcases hc with (rfl | hc) | rfl
  · omega
  · exact translate_no10 _ hT hC s c hc
  · omega

end Gql.Text

namespace Gql.Text
open Gql.Syntax

namespace Val

mutual
  /-- Well-formed = what `parse_value_literal(is_const)` can build: valid names and number
  texts, enum values other than `true`/`false`/`null`, strings of scalar values, block string
  values that a block string literal can denote, no variables in constant values. -/
  def wf (isConst : Bool) : Val → Prop
    | var n => isConst = false ∧ validName n = true
    | int s => IsNum false s
    | float s => IsNum true s
    | str s b => (∀ c ∈ s, isScalar c = true) ∧ (b = true → BlockRepresentable s)
    | bool _ => True
    | null => True
    | enum n => validName n = true ∧ n ≠ S "true" ∧ n ≠ S "false" ∧ n ≠ S "null"
    | list vs => wfList isConst vs
    | obj fs => wfFields isConst fs
  def wfList (isConst : Bool) : List Val → Prop
    | [] => True
    | v :: vs => wf isConst v ∧ wfList isConst vs
  def wfFields (isConst : Bool) : List (List Nat × Val) → Prop
    | [] => True
    | (n, v) :: fs => validName n = true ∧ wf isConst v ∧ wfFields isConst fs
end

end Val

theorem validName_true : validName (S "true") = true ∧ validName (S "false") = true ∧
    validName (S "null") = true := by decide

theorem indentNL_eq (x : List Nat) : Gql.Syntax.indentNL x = indentLF 2 x := by
  induction x with
  | nil => rfl
  | cons c r ih => by_cases hc : c = 10 <;> simp [Gql.Syntax.indentNL, indentLF, hc, ih, List.replicate]

theorem S_colon : S ": " = [58, 32] := by decide

/-- `open A items B close`: the shape of every list / object layout. -/
theorem lexes_bracket (o cl : Nat) (ko kc : TokKind) (hko : punctKind o = some ko)
    (hkc : punctKind cl = some kc) (hsafe : safeHead cl = true) (A B J : List Nat) (K : List KV)
    (hA : Ignorable A) (hB : Ignorable B) (hJ : Lexes true J K) :
    Lexes true ([o] ++ (A ++ (J ++ (B ++ [cl])))) ((ko, none) :: K ++ [(kc, none)]) := by
  have hJB : Lexes true (J ++ B) K := by
    by_cases hb : B = []
    · subst hb; simpa using hJ
    · exact (Lexes.append_ign hJ hB hb).weaken true
  have h1 := Lexes.append_punct hJB cl kc hkc hsafe
  have h2 := Lexes.append_l (Lexes.ignorable A hA) h1
  have h3 := Lexes.append_l (Lexes.punct o ko hko) h2
  have := h3.weaken true
  simpa [List.append_assoc] using this

theorem printFields_ne_nil (w : Widths) (fs : List (List Nat × Val)) : ∀ t ∈ Val.printFields w fs, t ≠ [] := by
  induction fs with
  | nil => intro t ht; simp [Val.printFields] at ht
  | cons f r ih =>
    obtain ⟨n, v⟩ := f
    intro t ht
    simp only [Val.printFields, List.mem_cons] at ht
    rcases ht with rfl | ht
    · simp [S_colon]
    · exact ih t ht

theorem indent_of_ne {y : List Nat} (hy : y ≠ []) : indent y = [32, 32] ++ indentLF 2 y := by
  unfold indent wrap
  rw [indentNL_eq]
  have : indentLF 2 y ≠ [] := by
    obtain ⟨a, r, rfl⟩ := List.exists_cons_of_ne_nil hy
    by_cases ha : a = 10 <;> simp [indentLF, ha]
  cases hx : indentLF 2 y with
  | nil => exact absurd hx this
  | cons a r => simp

theorem indent_nil : indent [] = [] := by simp [indent, wrap, indentNL]

theorem indentLF_lf (k : Nat) : indentLF k [10] = 10 :: List.replicate k 32 := by simp [indentLF]

/-- The wrapped layout `open LF indent(items joined by LF) LF close`, re-indented by `k`. -/
theorem indentLF_wrapped (k o cl : Nat) (ts : List (List Nat)) (hts : ts ≠ []) (hne : ∀ t ∈ ts, t ≠ [])
    (ho : o ≠ 10) (hcl : cl ≠ 10) :
    indentLF k ([o] ++ [10] ++ indent (joinWith [10] ts) ++ [10] ++ [cl]) =
      [o] ++ ((10 :: List.replicate k 32 ++ [32, 32]) ++
        (joinWith (10 :: List.replicate (k + 2) 32) (ts.map (indentLF (k + 2))) ++
          ((10 :: List.replicate k 32) ++ [cl]))) := by
  rw [indent_of_ne (joinWith_eq_nil hne hts)]
  simp only [indentLF_append]
  rw [indentLF_indentLF, indentLF_joinWith, indentLF_lf, indentLF_lf]
  simp [indentLF, ho, hcl, List.append_assoc]

theorem print_ne_nil (w : Widths) (hw : 4 ≤ w.object) (c : Bool) (v : Val) (h : Val.wf c v) :
    Val.print w v ≠ [] := by
  match v, h with
  | .var n, _ => simp [Val.print]
  | .int s, h =>
    obtain ⟨⟨sign, ip, fr, ex⟩, ⟨_, hip, _, _⟩, rfl, _⟩ := h
    cases ip with
    | nil => simp [intPartOK] at hip
    | cons a r => simp [Val.print, NumParts.text]
  | .float s, h =>
    obtain ⟨⟨sign, ip, fr, ex⟩, ⟨_, hip, _, _⟩, rfl, _⟩ := h
    cases ip with
    | nil => simp [intPartOK] at hip
    | cons a r => simp [Val.print, NumParts.text]
  | .str s true, _ => simp [Val.print, printBlockStringW]
  | .str s false, _ => simp [Val.print, printString, printStringWith]
  | .bool true, _ => simp [Val.print]; decide
  | .bool false, _ => simp [Val.print]; decide
  | .null, _ => simp [Val.print]; decide
  | .enum n, h =>
    have := h.1
    cases n with
    | nil => simp [validName] at this
    | cons a r => simp [Val.print]
  | .list vs, _ =>
    simp only [Val.print]
    split <;> simp
  | .obj fs, _ =>
    simp only [Val.print]
    split
    · rename_i hlong
      cases fs with
      | nil =>
        simp [Val.printFields, join, joinWith] at hlong
        omega
      | cons f fs' =>
        obtain ⟨n, v'⟩ := f
        have hne : join (Val.printFields w ((n, v') :: fs')) [10] ≠ [] := by
          have hall := printFields_ne_nil w ((n, v') :: fs')
          rw [join_eq_joinWith _ _ hall]
          exact joinWith_eq_nil hall (by simp [Val.printFields])
        have hind : indent (join (Val.printFields w ((n, v') :: fs')) [10]) ≠ [] := by
          unfold indent wrap
          have : indentNL (join (Val.printFields w ((n, v') :: fs')) [10]) ≠ [] := by
            intro h0
            apply hne
            cases hj : join (Val.printFields w ((n, v') :: fs')) [10] with
            | nil => rfl
            | cons a r => rw [hj] at h0; by_cases ha : a = 10 <;> simp [indentNL, ha] at h0
          cases hx : indentNL (join (Val.printFields w ((n, v') :: fs')) [10]) with
          | nil => exact absurd hx this
          | cons a r => simp
        unfold block wrap
        cases hx : indent (join (Val.printFields w ((n, v') :: fs')) [10]) with
        | nil => exact absurd hx hind
        | cons a r => simp
    · simp

theorem printList_ne_nil (w : Widths) (hw : 4 ≤ w.object) (c : Bool) (vs : List Val) (h : Val.wfList c vs) :
    ∀ t ∈ Val.printList w vs, t ≠ [] := by
  induction vs with
  | nil => intro t ht; simp [Val.printList] at ht
  | cons v r ih =>
    intro t ht
    simp only [Val.printList, List.mem_cons] at ht
    rcases ht with rfl | ht
    · exact print_ne_nil w hw c v h.1
    · exact ih h.2 t ht

section
variable (w : Widths) (hw : 4 ≤ w.object) (c : Bool)
variable (hT : tableOK Generated.escapeTable = true) (hC : tableComplete Generated.escapeTable = true)
include hw hT hC

theorem lexes_of_no10 {text : List Nat} {ks : List KV} (h : Lexes true text ks)
    (hno : ∀ x ∈ text, x ≠ 10) (k : Nat) : Lexes true (indentLF k text) ks := by
  rw [indentLF_no10 k text hno]; exact h

omit hw hT hC in
theorem lexes_dollar_name (n : List Nat) (h : validName n = true) :
    Lexes true (36 :: n) [(.dollar, none), (.name, some n)] := by
  have := Lexes.append_l (Lexes.punct 36 .dollar (by decide)) (Lexes.name n h)
  simpa using this

mutual
  theorem lexV (v : Val) (h : Val.wf c v) (k : Nat) :
      Lexes true (indentLF k (Val.print w v)) (Val.kvs v) := by
    match v, h with
    | .var n, h =>
      apply lexes_of_no10 w hw hT hC (lexes_dollar_name n h.2)
      intro x hx
      simp at hx
      rcases hx with rfl | hx
      · omega
      · exact name_no10 h.2 x hx
    | .int s, h =>
      exact lexes_of_no10 w hw hT hC (Lexes.number false s h) (isNum_no10 h) k
    | .float s, h =>
      exact lexes_of_no10 w hw hT hC (Lexes.number true s h) (isNum_no10 h) k
    | .str s true, h =>
      simp only [Val.print, ↓reduceIte, Val.kvs]
      exact Lexes.block k w.block s h.1 (h.2 rfl)
    | .str s false, h =>
      simp only [Val.print, Bool.false_eq_true, ↓reduceIte, Val.kvs]
      exact lexes_of_no10 w hw hT hC (Lexes.string s h.1 hT hC) (printString_no10 hT hC s) k
    | .bool true, _ =>
      exact lexes_of_no10 w hw hT hC (Lexes.name _ validName_true.1) (by decide) k
    | .bool false, _ =>
      exact lexes_of_no10 w hw hT hC (Lexes.name _ validName_true.2.1) (by decide) k
    | .null, _ =>
      exact lexes_of_no10 w hw hT hC (Lexes.name _ validName_true.2.2) (by decide) k
    | .enum n, h =>
      exact lexes_of_no10 w hw hT hC (Lexes.name n h.1) (name_no10 h.1) k
    | .list vs, h =>
      have hne := printList_ne_nil w hw c vs h
      simp only [Val.print, Val.kvs]
      rw [join_eq_joinWith [44, 32] _ hne, join_eq_joinWith [10] _ hne]
      split
      · -- wrapped
        by_cases hvs : Val.printList w vs = []
        · have hJ := lexList vs h (k + 2) [10] (by intro x hx; simp at hx; simp [hx]) (by simp)
          rw [hvs] at hJ ⊢
          have := lexes_bracket 91 93 .bracketL .bracketR (by decide) (by decide) (by decide)
            (10 :: List.replicate k 32) (10 :: List.replicate k 32) _ _ (ignorable_lf_spaces k)
            (ignorable_lf_spaces k) hJ
          simpa [joinWith, indent_nil, indentLF, List.append_assoc] using this
        · have hJ := lexList vs h (k + 2) (10 :: List.replicate (k + 2) 32) (ignorable_lf_spaces _) (by simp)
          rw [indentLF_wrapped k 91 93 _ hvs hne (by decide) (by decide)]
          exact lexes_bracket 91 93 .bracketL .bracketR (by decide) (by decide) (by decide) _ _ _ _
            (ignorable_append (ignorable_lf_spaces k) (by intro x hx; simp at hx; simp [hx]))
            (ignorable_lf_spaces k) hJ
      · -- one line
        have hJ := lexList vs h k [44, 32] (by intro x hx; simp at hx; rcases hx with rfl | rfl <;> simp) (by simp)
        have := lexes_bracket 91 93 .bracketL .bracketR (by decide) (by decide) (by decide) [] [] _ _
          (by intro x hx; simp at hx) (by intro x hx; simp at hx) hJ
        simpa [indentLF_append, indentLF_joinWith, indentLF, List.append_assoc] using this
    | .obj fs, h =>
      have hne := printFields_ne_nil w fs
      simp only [Val.print, Val.kvs]
      rw [join_eq_joinWith [44, 32] _ hne]
      split
      · -- wrapped
        rename_i hlong
        have hfs : Val.printFields w fs ≠ [] := by
          intro h0
          rw [h0] at hlong
          simp [joinWith] at hlong
          omega
        have hJ := lexFields fs h (k + 2) (10 :: List.replicate (k + 2) 32) (ignorable_lf_spaces _) (by simp)
        have hblock : block (Val.printFields w fs) =
            [123] ++ [10] ++ indent (joinWith [10] (Val.printFields w fs)) ++ [10] ++ [125] := by
          unfold block wrap
          rw [join_eq_joinWith [10] _ hne, indent_of_ne (joinWith_eq_nil hne hfs)]
          simp
        rw [hblock, indentLF_wrapped k 123 125 _ hfs hne (by decide) (by decide)]
        exact lexes_bracket 123 125 .braceL .braceR (by decide) (by decide) (by decide) _ _ _ _
          (ignorable_append (ignorable_lf_spaces k) (by intro x hx; simp at hx; simp [hx]))
          (ignorable_lf_spaces k) hJ
      · -- one line
        have hJ := lexFields fs h k [44, 32] (by intro x hx; simp at hx; rcases hx with rfl | rfl <;> simp) (by simp)
        have := lexes_bracket 123 125 .braceL .braceR (by decide) (by decide) (by decide) [32] [32] _ _
          (by intro x hx; simp at hx; simp [hx]) (by intro x hx; simp at hx; simp [hx]) hJ
        simpa [indentLF_append, indentLF_joinWith, indentLF, List.append_assoc] using this
  theorem lexList (vs : List Val) (h : Val.wfList c vs) (k : Nat) (sep : List Nat) (hsep : Ignorable sep)
      (hne : sep ≠ []) :
      Lexes true (joinWith sep ((Val.printList w vs).map (indentLF k))) (Val.kvsList vs) := by
    match vs, h with
    | [], _ => exact Lexes.nil.weaken true
    | v :: vs', h =>
      have hv := lexV v h.1 k
      have ih := lexList vs' h.2 k sep hsep hne
      cases vs' with
      | nil => simpa [Val.printList, joinWith, Val.kvsList] using hv
      | cons v' rest =>
        simp only [Val.printList, List.map_cons, joinWith, Val.kvsList] at ih ⊢
        have := Lexes.append_l (Lexes.append_ign hv hsep hne) ih
        simpa [List.append_assoc] using this
  theorem lexFields (fs : List (List Nat × Val)) (h : Val.wfFields c fs) (k : Nat) (sep : List Nat)
      (hsep : Ignorable sep) (hne : sep ≠ []) :
      Lexes true (joinWith sep ((Val.printFields w fs).map (indentLF k))) (Val.kvsFields fs) := by
    match fs, h with
    | [], _ => exact Lexes.nil.weaken true
    | (n, v) :: fs', h =>
      have hv := lexV v h.2.1 k
      have ih := lexFields fs' h.2.2 k sep hsep hne
      -- one field: `name: value`
      have hfield : Lexes true (indentLF k (n ++ S ": " ++ Val.print w v))
          ((.name, some n) :: (.colon, none) :: Val.kvs v) := by
        have h1 := Lexes.append_punct (Lexes.name n h.1) 58 .colon (by decide) (by decide)
        have h2 := Lexes.append_l h1 (Lexes.ignorable [32] (by intro x hx; simp at hx; simp [hx]))
        have h3 := Lexes.append_l h2 hv
        rw [S_colon, indentLF_append, indentLF_append, indentLF_no10 k n (name_no10 h.1)]
        simpa [indentLF, List.append_assoc] using h3
      cases fs' with
      | nil => simpa [Val.printFields, joinWith, Val.kvsFields] using hfield
      | cons f2 rest =>
        obtain ⟨n2, v2⟩ := f2
        simp only [Val.printFields, List.map_cons, joinWith, Val.kvsFields] at ih ⊢
        have := Lexes.append_l (Lexes.append_ign hfield hsep hne) ih
        simpa [List.append_assoc] using this
end

end

end Gql.Text
