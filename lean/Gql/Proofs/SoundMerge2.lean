/-
C13 — field merging derived from the static rule: `MergeOkT` (the merge hypothesis over the
selection sets execution really reaches) follows from `validOp` and `specMergeable`.
-/
import Gql.Proofs.SoundMerge1

namespace Gql.Exec.Valid
open Gql.Exec Gql.Exec.Refine

/-- the selection sets execution of `op` hands to CollectFields, with the object types it can
hand them over for: the operation's own on the root type, and the merged sub-selections of a
collected group on an object type that is (a possible type of) the return type of the group's
field.  (`ReachSel` allows *every* object type in the second clause.) -/
inductive ReachSelT (cx : Spec.Ctx) (op : Operation) : Name → List Selection → Prop
  | root {rt : Name} : Spec.rootType cx.schema op.kind = some rt → ReachSelT cx op rt op.sels
  | step {rt : Name} {sels : List Selection} {groups : Spec.Groups} {k : Name}
      {f0 : FieldNode} {rest : List FieldNode} {fd : FieldDef} {rt' : Name} :
      ReachSelT cx op rt sels → Spec.collectFields cx rt sels = .ok groups →
      (k, f0 :: rest) ∈ groups → cx.schema.getField rt f0.name = some fd →
      cx.schema.kind rt' = .object → Sub cx.schema rt' fd.type.baseName →
      ReachSelT cx op rt' (Spec.mergeSelectionSets (f0 :: rest))

/-- Field merging as execution needs it (`MergeOk` restricted to the object types a field's
sub-selections can really be executed on). -/
def MergeOkT (cx : Spec.Ctx) (op : Operation) : Prop :=
  ∀ rt sels, ReachSelT cx op rt sels → ∀ gs, Spec.collectFields cx rt sels = .ok gs → Uniform gs

theorem ReachSelT.toReachSel {cx : Spec.Ctx} {op : Operation} {rt : Name} {sels : List Selection}
    (h : ReachSelT cx op rt sels) : ReachSel cx op rt sels := by
  induction h with
  | root h => exact ReachSel.root h
  | step _ hcol hmem _ hk _ ih => exact ReachSel.step ih hcol hmem hk

theorem MergeOk.toT {cx : Spec.Ctx} {op : Operation} (h : MergeOk cx op) : MergeOkT cx op :=
  fun rt sels hr gs hcol => h rt sels hr.toReachSel gs hcol

/-! ### the static invariant -/

/-- FieldsInSetCanMerge holds of the set `sels` on `S`, for some remaining depth -/
def MergeableAt (g : GCtx) (S : Name) (sels : List Selection) : Prop :=
  ∃ d, ∀ P1 x P2 y, InSet g.cx.doc S sels P1 x → InSet g.cx.doc S sels P2 y →
    pairCanMerge g.cx.schema g.cx.doc d P1 x P2 y = true

/-- what holds of every selection set execution reaches -/
def InvT (g : GCtx) (rt : Name) (sels : List Selection) : Prop :=
  g.cx.schema.kind rt = .object ∧ ∃ S, Sub g.cx.schema rt S ∧ SelsV g S sels ∧ MergeableAt g S sels

theorem kind_of_isSubType {s : Schema} {a o : Name} (h : s.isSubType a o = true) :
    s.kind a = .abstract := by
  unfold Schema.isSubType at h
  unfold Schema.kind
  cases hl : s.lookup a with
  | none => simp [hl] at h
  | some d => cases d <;> simp_all

/-- two parent types that both contain one runtime object type are "equal or not both object
types" -/
theorem parentsOverlap_of_sub {s : Schema} {rt P1 P2 : Name} (h1 : Sub s rt P1) (h2 : Sub s rt P2) :
    parentsOverlap s P1 P2 = true := by
  unfold parentsOverlap
  rcases h1 with rfl | h1
  · rcases h2 with rfl | h2
    · simp
    · simp [kind_of_isSubType h2]
  · simp [kind_of_isSubType h1]

/-- the requirements of FieldsInSetCanMerge on a pair with one response name and overlapping
parent types -/
theorem pairCanMerge_overlap {s : Schema} {doc : Doc} {d : Nat} {pa pb : Name} {a b : FieldNode}
    (h : pairCanMerge s doc d pa a pb b = true) (hk : a.key = b.key)
    (ho : parentsOverlap s pa pb = true) :
    a.name = b.name ∧
    allMergedPairs doc (subParent s pa a.name) a.sels (subParent s pb b.name) b.sels
      (fun p1 x p2 y => pairCanMerge s doc (d - 1) p1 x p2 y) = true := by
  cases d with
  | zero => simp [pairCanMerge] at h
  | succ d =>
    unfold pairCanMerge at h
    simp only [hk, bne_self_eq_false, Bool.false_or, Bool.and_eq_true, ho, Bool.not_true,
      beq_iff_eq] at h
    exact ⟨h.2.1.1, h.2.2⟩

variable (g : GCtx) (hfr : FragsV g) (hyps : SoundHyps g.cx.ops g.cx.schema)

include hfr in
/-- the fields grouped under one response key select the same field -/
theorem uniform_of_inv {rt : Name} {sels : List Selection} (hinv : InvT g rt sels)
    {gs : Spec.Groups} (hcol : Spec.collectFields g.cx rt sels = .ok gs) : Uniform gs := by
  obtain ⟨_, S, hsub, hv, d, hm⟩ := hinv
  have hin := collectFields_in g hfr rt sels S hv hsub gs hcol
  intro p hp f hf f' hf'
  obtain ⟨hk, P, hq, hs, _, _⟩ := hin p hp f hf
  obtain ⟨hk', P', hq', hs', _, _⟩ := hin p hp f' hf'
  exact (pairCanMerge_overlap (hm P f P' f' hq hq') (hk.symm.trans hk')
    (parentsOverlap_of_sub hs hs')).1

include hyps in
/-- sub-selections of a valid field are valid on the field's return type (as found on the
runtime type) -/
theorem sub_of_fieldValid {rt P : Name} {f : FieldNode} {fd : FieldDef}
    (hrt : g.cx.schema.kind rt = .object) (hs : Sub g.cx.schema rt P)
    (hv : validSel g.vcx P (.field f.alias f.name f.args f.dirs f.sels) = true)
    (hgf : g.cx.schema.getField rt f.name = some fd) :
    validSels g.vcx fd.type.baseName f.sels = true ∧
      (f.sels ≠ [] → subParent g.cx.schema P f.name = fd.type.baseName) := by
  simp only [validSel, GCtx.vcx, Bool.and_eq_true] at hv
  have h2 := hv.2
  by_cases hty : (f.name == "__typename") = true
  · simp only [hty, ↓reduceIte, Bool.and_eq_true, List.isEmpty_iff] at h2
    rw [h2.2]
    exact ⟨by simp [validSels], fun h => absurd rfl h⟩
  · simp only [hty, Bool.false_eq_true, ↓reduceIte] at h2
    cases hfa : getFieldAny g.cx.schema P f.name with
    | none => simp [hfa] at h2
    | some fd' =>
      have hag := fieldsAgree_of_sub hyps hs hrt f.name fd' hfa
      rw [hgf] at hag
      cases hag
      simp only [hfa, Bool.and_eq_true] at h2
      have hsp : subParent g.cx.schema P f.name = fd.type.baseName := by
        simp [subParent, fieldTypeOf, hty, hfa]
      by_cases hl : isLeaf g.cx.schema fd.type.baseName = true
      · have h3 := h2.2
        simp only [hl, ↓reduceIte, List.isEmpty_iff] at h3
        rw [h3]
        exact ⟨by simp [validSels], fun h => absurd rfl h⟩
      · have h3 := h2.2
        simp only [hl, Bool.false_eq_true, ↓reduceIte, Bool.and_eq_true] at h3
        exact ⟨h3.2, fun _ => hsp⟩

theorem selsV_merge (S : Name) (fields : List FieldNode)
    (h : ∀ f ∈ fields, SelsV g S f.sels) : SelsV g S (Spec.mergeSelectionSets fields) := by
  unfold Spec.mergeSelectionSets
  induction fields with
  | nil => exact ⟨by simp [validSels], by simp [spreadsIn]⟩
  | cons f rest ih =>
    have hf := h f (List.mem_cons_self ..)
    have hr := ih (fun f' hf' => h f' (List.mem_cons_of_mem _ hf'))
    simp only [List.flatMap_cons]
    refine ⟨?_, ?_⟩
    · rw [validSels_append, hf.1, hr.1]; rfl
    · intro n hn
      rw [spreadsIn_append] at hn
      rcases List.mem_append.1 hn with hn | hn
      · exact hf.2 n hn
      · exact hr.2 n hn

include hfr hyps in
/-- the invariant passes to the merged sub-selections of a group, on every object type of the
field's return type -/
theorem inv_step {rt : Name} {sels : List Selection} (hinv : InvT g rt sels)
    {gs : Spec.Groups} (hcol : Spec.collectFields g.cx rt sels = .ok gs)
    {k : Name} {f0 : FieldNode} {rest : List FieldNode} (hmem : (k, f0 :: rest) ∈ gs)
    {fd : FieldDef} (hgf : g.cx.schema.getField rt f0.name = some fd)
    {rt' : Name} (hk' : g.cx.schema.kind rt' = .object) (hsub' : Sub g.cx.schema rt' fd.type.baseName) :
    InvT g rt' (Spec.mergeSelectionSets (f0 :: rest)) := by
  have huni := uniform_of_inv g hfr hinv hcol
  obtain ⟨hrt, S, hsub, hv, d, hm⟩ := hinv
  have hin := collectFields_in g hfr rt sels S hv hsub gs hcol
  have hall := hin (k, f0 :: rest) hmem
  have hname : ∀ f ∈ f0 :: rest, f.name = f0.name :=
    fun f hf => huni (k, f0 :: rest) hmem f hf f0 (List.mem_cons_self ..)
  refine ⟨hk', fd.type.baseName, hsub', ?_, d - 1, ?_⟩
  · apply selsV_merge
    intro f hf
    obtain ⟨_, P, _, hs, hfv, hsp⟩ := hall f hf
    have hgf' : g.cx.schema.getField rt f.name = some fd := by rw [hname f hf]; exact hgf
    exact ⟨(sub_of_fieldValid g hyps hrt hs hfv hgf').1, hsp⟩
  · intro P1 x P2 y hx hy
    obtain ⟨f, hf, hxf⟩ := InSet.of_merge hx
    obtain ⟨f', hf', hyf⟩ := InSet.of_merge hy
    obtain ⟨hkf, P, hq, hs, hfv, _⟩ := hall f hf
    obtain ⟨hkf', P', hq', hs', hfv', _⟩ := hall f' hf'
    have hgf1 : g.cx.schema.getField rt f.name = some fd := by rw [hname f hf]; exact hgf
    have hgf2 : g.cx.schema.getField rt f'.name = some fd := by rw [hname f' hf']; exact hgf
    have hne : f.sels ≠ [] := fun h => InSet.not_nil (h ▸ hxf)
    have hne' : f'.sels ≠ [] := fun h => InSet.not_nil (h ▸ hyf)
    have hp1 := (sub_of_fieldValid g hyps hrt hs hfv hgf1).2 hne
    have hp2 := (sub_of_fieldValid g hyps hrt hs' hfv' hgf2).2 hne'
    have hpair := (pairCanMerge_overlap (hm P f P' f' hq hq') (hkf.symm.trans hkf')
      (parentsOverlap_of_sub hs hs')).2
    rw [hp1, hp2] at hpair
    exact allMergedPairs_sound hpair (Or.inl hxf) (Or.inr hyf)

include hfr hyps in
/-- every selection set execution reaches satisfies the invariant, given that the operation's
own does -/
theorem inv_of_reach (op : Operation)
    (hroot : ∀ rt, Spec.rootType g.cx.schema op.kind = some rt → InvT g rt op.sels) :
    ∀ rt sels, ReachSelT g.cx op rt sels → InvT g rt sels := by
  intro rt sels h
  induction h with
  | root h => exact hroot _ h
  | step _ hcol hmem hgf hk hsub ih => exact inv_step g hfr hyps ih hcol hmem hgf hk hsub

end Gql.Exec.Valid

namespace Gql.Exec.Valid
open Gql.Exec Gql.Exec.Refine

/-- what `validOp` alone gives: the operation's selection set and the fragments it reaches are
valid (no statement about the run-time exception) -/
theorem invariantsV_of_valid (ops : Ops) (s : Schema) (doc : Doc) (op : Operation) (vars : Vars)
    (rt : Name) (hroot : rootTypeOf s op.kind = some rt) (hvalid : validOp s doc op = true) :
    SelsV (gctxOf ops s doc op vars) rt op.sels ∧ FragsV (gctxOf ops s doc op vars) := by
  unfold validOp at hvalid
  simp only [hroot, Bool.and_eq_true, List.all_eq_true] at hvalid
  obtain ⟨⟨⟨⟨⟨_, hvs⟩, hfrags⟩, hsp⟩, hclosed⟩, _⟩ := hvalid
  refine ⟨⟨hvs, ?_⟩, ?_⟩
  · intro n hn
    have := hsp n hn
    simpa [gctxOf] using this
  · intro n hn fr hf
    have hn' : n ∈ reachable doc op.sels := hn
    have hf' : doc.frag n = some fr := hf
    have h1 := hfrags n hn'
    simp only [hf'] at h1
    refine ⟨h1, ?_⟩
    intro m hm
    unfold reachClosed at hclosed
    simp only [List.all_eq_true, List.mem_flatMap, forall_exists_index, and_imp] at hclosed
    have := hclosed m n hn' (by simp only [hf']; exact hm)
    simpa [gctxOf] using this

/-- **Field merging from the static rule.**  For an operation accepted by the rules (`validOp`)
whose selection sets satisfy FieldsInSetCanMerge (`specMergeable`), over a schema in which an
object type implements its interfaces' fields with identical definitions (`SoundHyps.ifaceOk`),
the fields execution groups under one response key always select the same field.

At run time all fields collected under one response key for an object type `T` come from scopes
whose type condition contains `T` (`collectFields_in`); two parent types that both contain `T` are
equal or not both object types (`parentsOverlap_of_sub`), so FieldsInSetCanMerge requires the same
field name and a mergeable merged set, which is the set execution goes on with (`inv_step`). -/
theorem mergeOkT_of_specMergeable (ops : Ops) (s : Schema) (doc : Doc) (hyps : SoundHyps ops s)
    (op : Operation) (vars : Vars)
    (hvalid : validOp s doc op = true) (hmerge : specMergeable s doc op = true) :
    MergeOkT { ops := ops, schema := s, doc := doc, vars := vars } op := by
  let g := gctxOf ops s doc op vars
  have hinv0 : ∀ rt, Spec.rootType s op.kind = some rt → InvT g rt op.sels := by
    intro rt hroot
    have hrt : rootTypeOf s op.kind = some rt := hroot
    obtain ⟨hsv, _⟩ := invariantsV_of_valid ops s doc op vars rt hrt hvalid
    refine ⟨rootTypeOf_object hrt, rt, Or.inl rfl, hsv, depthFuel doc, ?_⟩
    unfold specMergeable at hmerge
    simp only [hrt, Bool.and_eq_true] at hmerge
    have hm := hmerge.1
    unfold fieldsInSetCanMerge at hm
    intro P1 x P2 y hx hy
    exact allMergedPairs_sound hm (Or.inl hx) (Or.inl hy)
  cases hr : rootTypeOf s op.kind with
  | none =>
    unfold specMergeable at hmerge
    simp [hr] at hmerge
  | some rt0 =>
    obtain ⟨_, hfr⟩ := invariantsV_of_valid ops s doc op vars rt0 hr hvalid
    intro rt sels hreach gs hcol
    have hinv := inv_of_reach g hfr hyps op hinv0 rt sels hreach
    exact uniform_of_inv g hfr hinv hcol

end Gql.Exec.Valid
