import Gql.Proofs.RulesFuel
/-!
C12 — `get_fragment_spreads(selection_set)` returns exactly the fragment spreads of the selection set: those among its
selections and, recursively, those of the selection sets of its other selections (fields, inline fragments).
-/
namespace Gql.Validation.Rules

namespace Spec
/-- `sp` is a fragment spread of the selection set `ss` (spec §5.5.2: "the spreads of a selection set", not looking
into the fragments they name). -/
inductive SpreadIn : ATree → ATree → Prop
  | here {ss sp : ATree} : sp ∈ ss.kids "selections" → sp.kind = "fragment_spread" → SpreadIn ss sp
  | deeper {ss x ss' sp : ATree} : x ∈ ss.kids "selections" → x.kind ≠ "fragment_spread" →
      x.kid "selection_set" = some ss' → SpreadIn ss' sp → SpreadIn ss sp
end Spec
open Spec

theorem spreadsLoop_sound (root : ATree) : ∀ (fuel : Nat) (stack acc : List ATree),
    (∀ x ∈ acc, SpreadIn root x) → (∀ s ∈ stack, ∀ sp, SpreadIn s sp → SpreadIn root sp) →
    ∀ x ∈ (spreadsLoop fuel stack acc).1, SpreadIn root x := by
  intro fuel
  induction fuel with
  | zero => intro stack acc ha _; cases stack <;> simpa [spreadsLoop] using ha
  | succ k ih =>
    intro stack acc ha hs
    cases stack with
    | nil => simpa [spreadsLoop] using ha
    | cons s st =>
      rw [spreadsLoop]
      try simp only
      apply ih
      · intro x hx
        rcases List.mem_append.mp hx with h | h
        · exact ha x h
        · have := List.mem_filter.mp h
          exact hs s (by simp) x (SpreadIn.here this.1 (by simpa using this.2))
      · intro s' hs' sp hsp
        rcases List.mem_append.mp hs' with h | h
        · obtain ⟨x, hx, hk⟩ := List.mem_filterMap.mp (List.mem_reverse.mp h)
          have := List.mem_filter.mp hx
          exact hs s (by simp) sp (SpreadIn.deeper this.1 (by simpa using this.2) hk hsp)
        · exact hs s' (List.mem_cons_of_mem _ h) sp hsp

theorem spreadsLoop_complete : ∀ (fuel : Nat) (stack acc : List ATree), (spreadsLoop fuel stack acc).2 = false →
    ∀ sp, (sp ∈ acc ∨ ∃ s ∈ stack, SpreadIn s sp) → sp ∈ (spreadsLoop fuel stack acc).1 := by
  intro fuel
  induction fuel with
  | zero =>
    intro stack acc hfl sp h
    cases stack with
    | nil => simpa [spreadsLoop] using h
    | cons s st => simp [spreadsLoop] at hfl
  | succ k ih =>
    intro stack acc hfl sp h
    cases stack with
    | nil => simpa [spreadsLoop] using h
    | cons s st =>
      rw [spreadsLoop] at hfl ⊢
      try simp only at hfl ⊢
      apply ih _ _ hfl
      rcases h with h | ⟨s0, hs0, hsp⟩
      · exact Or.inl (List.mem_append.mpr (Or.inl h))
      · rcases List.mem_cons.mp hs0 with rfl | h'
        · cases hsp with
          | here hm hk => exact Or.inl (List.mem_append.mpr (Or.inr (List.mem_filter.mpr ⟨hm, by simpa using hk⟩)))
          | deeper hm hk hss hin =>
            refine Or.inr ⟨_, List.mem_append.mpr (Or.inl (List.mem_reverse.mpr
              (List.mem_filterMap.mpr ⟨_, List.mem_filter.mpr ⟨hm, by simpa using hk⟩, hss⟩))), hin⟩
        · exact Or.inr ⟨s0, List.mem_append.mpr (Or.inr h'), hsp⟩

/-- `get_fragment_spreads(ss)` contains `sp` iff `sp` is a fragment spread of `ss`. -/
theorem getSpreads_mem_iff (ss sp : ATree) : sp ∈ (getSpreads ss).1 ↔ SpreadIn ss sp := by
  constructor
  · intro h
    exact spreadsLoop_sound ss _ [ss] [] (by simp) (by intro s hs sp' h'; simp at hs; subst hs; exact h') sp h
  · intro h
    exact spreadsLoop_complete _ [ss] [] (spreads_fuel_enough ss) sp (Or.inr ⟨ss, by simp, h⟩)

end Gql.Validation.Rules
