/-
C02 — lemmas between the refinement (`ExecRefine.lean`) and the property theorems.
-/
import Gql.Exec.Values
import Gql.Proofs.ExecRefine
import Gql.Proofs.ExecFuel
import Gql.Proofs.SpecFacts

namespace Gql.Exec.Refine
open Gql Gql.Exec

/-- The driver's value layer satisfies the law the refinement needs. -/
theorem concrete_ops_ok : OpsOk Concrete.ops := by
  constructor
  intro s vars t x hx _
  show Concrete.coerceLitN s 8 vars t (.var x) = none
  simp [Concrete.coerceLitN, Concrete.coerceLitCore, hx]

/-- the invariant of the memo of coerced argument defaults does not depend on the request -/
theorem dinv_request_independent {ops : Ops} {s : Schema} {dm : Impl.DMemo} (d1 d2 : Doc)
    (v1 v2 : Vars) (h : DInv (mkCtx ops s d1 v1) dm) : DInv (mkCtx ops s d2 v2) dm := h

theorem refines_from (ops : Ops) (hops : OpsOk ops) (s : Schema) (doc : Doc)
    (opName : Option Name) (vars : Vars) (root : RVal) (dm : Impl.DMemo)
    (hdm : DInv (mkCtx ops s doc vars) dm) :
    ∃ dm', DInv (mkCtx ops s doc vars) dm' ∧
      Impl.executeRequest ops s doc opName vars root dm =
        (.ok (Spec.executeRequest ops s doc opName vars root), dm') :=
  executeRequest_refines ops hops s doc opName vars root dm
    (fun rt sels c => collectFields_noCrash _ rt sels c) hdm

theorem runAll_eq (ops : Ops) (hops : OpsOk ops) (s : Schema) :
    ∀ (rs : List Impl.Request) (dm : Impl.DMemo), DInv (mkCtx ops s default default) dm →
      Impl.runAll ops s rs dm =
        rs.map (fun r => .ok (Spec.executeRequest ops s r.doc r.opName r.vars r.root))
  | [], _, _ => rfl
  | r :: rs, dm, hdm => by
    obtain ⟨dm', hdm', h⟩ := refines_from ops hops s r.doc r.opName r.vars r.root dm
      (dinv_request_independent _ _ _ _ hdm)
    simp only [Impl.runAll, h, List.map_cons]
    rw [runAll_eq ops hops s rs dm' (dinv_request_independent _ _ _ _ hdm')]

theorem spec_calls_ok (ops : Ops) (s : Schema) (doc : Doc) (opName : Option Name) (vars : Vars)
    (root : RVal) :
    ∀ c ∈ (Spec.executeRequest ops s doc opName vars root).log,
      CallOk { ops := ops, schema := s, doc := doc, vars := vars } c := by
  unfold Spec.executeRequest
  cases Spec.getOperation doc.ops opName with
  | none => simp
  | some op =>
    simp only
    cases Spec.rootType s op.kind with
    | none => simp
    | some rt =>
      simp only
      cases Spec.collectFields { ops := ops, schema := s, doc := doc, vars := vars } rt op.sels with
      | crash c => simp
      | err k => simp
      | ok groups =>
        simp only
        exact (executeGroups_good _ rt _ (childOf_good _ root) [] groups).calls

theorem spec_null_has_error (ops : Ops) (s : Schema) (doc : Doc) (opName : Option Name)
    (vars : Vars) (root : RVal) :
    (Spec.executeRequest ops s doc opName vars root).data = .null →
      (Spec.executeRequest ops s doc opName vars root).errors ≠ [] := by
  unfold Spec.executeRequest
  cases Spec.getOperation doc.ops opName with
  | none => simp
  | some op =>
    simp only
    cases Spec.rootType s op.kind with
    | none => simp
    | some rt =>
      simp only
      cases Spec.collectFields { ops := ops, schema := s, doc := doc, vars := vars } rt op.sels with
      | crash c => simp
      | err k => simp
      | ok groups =>
        simp only
        have hg := executeGroups_good { ops := ops, schema := s, doc := doc, vars := vars } rt _
          (childOf_good _ root) [] groups
        cases hout : (Spec.executeGroups { ops := ops, schema := s, doc := doc, vars := vars } rt
            (Spec.childOf { ops := ops, schema := s, doc := doc, vars := vars } root) [] groups).out with
        | none => intro _; exact hg.nonempty hout
        | some kvs => simp

end Gql.Exec.Refine
