import Gql.Proofs.TokenLex
import Gql.Syntax.Printer
/-!
Types (`NamedType`, `ListType`, `NonNullType`) as a self-contained sub-grammar: what the printer
model prints for them, and that the printed text lexes to exactly the type's token sequence.
-/
namespace Gql.Text
open Gql.Syntax

inductive Ty where
  | named (n : List Nat)
  | list (t : Ty)
  | nonNull (t : Ty)
  deriving Repr

namespace Ty

/-- The text of `leave_named_type` / `leave_list_type` / `leave_non_null_type`. -/
def print : Ty → List Nat
  | named n => n
  | list t => [91] ++ t.print ++ [93]
  | nonNull t => t.print ++ [33]

/-- The tree the parser builds (`parse_type_reference`). -/
def toAst : Ty → Ast
  | named n => .node "NamedTypeNode" [("name", .node "NameNode" [("value", .str n)])]
  | list t => .node "ListTypeNode" [("type", t.toAst)]
  | nonNull t => .node "NonNullTypeNode" [("type", t.toAst)]

/-- Token kinds and values of the type, in order. -/
def kvs : Ty → List (TokKind × Option (List Nat))
  | named n => [(.name, some n)]
  | list t => (.bracketL, none) :: t.kvs ++ [(.bracketR, none)]
  | nonNull t => t.kvs ++ [(.bang, none)]

/-- Every name is lexically a Name. -/
def wf : Ty → Bool
  | named n => validName n
  | list t => t.wf
  | nonNull t => t.wf

theorem kvs_length_le (t : Ty) (h : t.wf = true) : t.kvs.length ≤ t.print.length := by
  induction t with
  | named n => cases n <;> simp [kvs, print, wf, validName] at h ⊢
  | list t ih => have := ih h; simp [kvs, print]; omega
  | nonNull t ih => have := ih h; simp [kvs, print]; omega

end Ty

theorem getElem?_mid (a b : List Nat) (c : Nat) (r : List Nat) :
    (a ++ (b ++ c :: r))[a.length + b.length]? = some c := by
  rw [← List.append_assoc]
  have := getElem?_pre0 (a ++ b) (c :: r)
  simpa using this

theorem stops_93 (rest : List Nat) : stopsName (93 :: rest) = true := by
  simp [stopsName, isNameContinue, isLetter, isDigit]

theorem stops_33 (rest : List Nat) : stopsName (33 :: rest) = true := by
  simp [stopsName, isNameContinue, isLetter, isDigit]

theorem lexAux_step (body : List Nat) (fuel : Nat) (st st' : LexState) (pos : Nat) (acc : List Token)
    (tok : Token) (h : readNextToken body st pos = .ok (tok, st')) (hk : tok.kind ≠ .eof)
    (hc : tok.kind ≠ .comment) :
    lexAllAux body (fuel + 1) st pos acc = lexAllAux body fuel st' tok.stop (acc ++ [tok]) := by
  rw [lexAllAux]
  simp [h, hk, hc]

theorem lexAux_eof (body : List Nat) (fuel : Nat) (st st' : LexState) (pos : Nat) (acc : List Token)
    (tok : Token) (h : readNextToken body st pos = .ok (tok, st')) (hk : tok.kind = .eof) :
    lexAllAux body (fuel + 1) st pos acc = .ok (acc ++ [tok]) := by
  rw [lexAllAux]
  simp [h, hk]

/-- Reading a printed type placed anywhere, followed by something that cannot continue a name. -/
theorem lexAux_ty (t : Ty) : ∀ (pre rest : List Nat) (fuel : Nat) (st : LexState) (acc : List Token),
    t.wf = true → stopsName rest = true → t.kvs.length ≤ fuel →
    ∃ toks : List Token, toks.map Token.kv = t.kvs ∧
      lexAllAux (pre ++ (t.print ++ rest)) fuel st pre.length acc =
        lexAllAux (pre ++ (t.print ++ rest)) (fuel - t.kvs.length) st (pre.length + t.print.length)
          (acc ++ toks) := by
  induction t with
  | named n =>
    intro pre rest fuel st acc hwf hr hf
    simp only [Ty.kvs, List.length_cons, List.length_nil, Nat.zero_add] at hf
    obtain ⟨fuel', rfl⟩ : ∃ f, fuel = f + 1 := ⟨fuel - 1, by omega⟩
    have hn := next_name pre n rest st hwf hr
    refine ⟨[mkToken st .name pre.length (pre.length + n.length) (some n)], rfl, ?_⟩
    simp only [Ty.print, Ty.kvs, List.length_cons, List.length_nil, Nat.zero_add, Nat.add_sub_cancel]
    rw [lexAux_step _ fuel' st st pre.length acc _ hn (by simp [mkToken]) (by simp [mkToken])]
    rfl
  | list t ih =>
    intro pre rest fuel st acc hwf hr hf
    simp only [Ty.kvs, List.length_cons, List.length_append, List.length_nil, Nat.zero_add] at hf
    obtain ⟨fuel', rfl⟩ : ∃ f, fuel = f + 1 := ⟨fuel - 1, by omega⟩
    have hb : pre ++ ((Ty.list t).print ++ rest) = pre ++ (91 :: (t.print ++ (93 :: rest))) := by
      simp [Ty.print]
    have hb2 : pre ++ (91 :: (t.print ++ (93 :: rest))) = (pre ++ [91]) ++ (t.print ++ (93 :: rest)) := by simp
    have hopen := next_punct (pre ++ (91 :: (t.print ++ (93 :: rest)))) st pre.length 91 .bracketL
      ((getElem?_pre0 pre _).trans rfl) (by decide)
    obtain ⟨toks, hkv, hmid⟩ := ih (pre ++ [91]) (93 :: rest) fuel' st
      (acc ++ [mkToken st .bracketL pre.length (pre.length + 1) none]) hwf (stops_93 rest) (by omega)
    have hclose := next_punct ((pre ++ [91]) ++ (t.print ++ (93 :: rest))) st
      ((pre ++ [91]).length + t.print.length) 93 .bracketR
      (getElem?_mid (pre ++ [91]) t.print 93 rest) (by decide)
    obtain ⟨fuel'', hf''⟩ : ∃ f, fuel' - t.kvs.length = f + 1 := ⟨fuel' - t.kvs.length - 1, by omega⟩
    refine ⟨mkToken st .bracketL pre.length (pre.length + 1) none :: toks ++
      [mkToken st .bracketR ((pre ++ [91]).length + t.print.length) ((pre ++ [91]).length + t.print.length + 1) none], ?_, ?_⟩
    · simp [Ty.kvs, hkv, Token.kv, mkToken]
    · rw [hb, lexAux_step _ fuel' st st pre.length acc _ hopen (by simp [mkToken]) (by simp [mkToken])]
      simp only [mkToken] at hmid ⊢
      rw [hb2]
      simp only [List.length_append, List.length_cons, List.length_nil, Nat.zero_add] at hmid hclose ⊢
      rw [hmid, hf'', lexAux_step _ fuel'' st st _ _ _ hclose (by simp [mkToken]) (by simp [mkToken])]
      simp only [mkToken, Ty.print, Ty.kvs, List.length_append, List.length_cons, List.length_nil]
      congr 1
      · omega
      · omega
      · simp
  | nonNull t ih =>
    intro pre rest fuel st acc hwf hr hf
    simp only [Ty.kvs, List.length_append, List.length_cons, List.length_nil, Nat.zero_add] at hf
    have hb : pre ++ ((Ty.nonNull t).print ++ rest) = pre ++ (t.print ++ (33 :: rest)) := by
      simp [Ty.print]
    obtain ⟨toks, hkv, hmid⟩ := ih pre (33 :: rest) fuel st acc hwf (stops_33 rest) (by omega)
    have hbang := next_punct (pre ++ (t.print ++ (33 :: rest))) st (pre.length + t.print.length) 33 .bang
      (getElem?_mid pre t.print 33 rest) (by decide)
    obtain ⟨fuel'', hf''⟩ : ∃ f, fuel - t.kvs.length = f + 1 := ⟨fuel - t.kvs.length - 1, by omega⟩
    refine ⟨toks ++ [mkToken st .bang (pre.length + t.print.length) (pre.length + t.print.length + 1) none], ?_, ?_⟩
    · simp [Ty.kvs, hkv, Token.kv, mkToken]
    · have e1 : fuel - (t.kvs.length + 1) = fuel'' := by omega
      rw [hb, hmid, hf'', lexAux_step _ fuel'' st st _ _ _ hbang (by simp [mkToken]) (by simp [mkToken])]
      simp only [mkToken, Ty.print, Ty.kvs, List.length_append, List.length_cons, List.length_nil,
        Nat.zero_add, e1, List.append_assoc, Nat.add_assoc]

end Gql.Text

namespace Gql.Text
open Gql.Syntax

/-- `lexAll` of a printed type: exactly the type's tokens, then EOF. -/
theorem lexAll_ty (t : Ty) (hwf : t.wf = true) :
    ∃ toks : List Token, lexAll t.print = .ok toks ∧
      toks.map Token.kv = t.kvs ++ [(.eof, none)] := by
  have hlen := Ty.kvs_length_le t hwf
  obtain ⟨toks, hkv, h⟩ := lexAux_ty t [] [] (t.print.length + 2) {} [] hwf rfl (by omega)
  simp only [List.nil_append, List.append_nil, List.length_nil, Nat.zero_add] at h
  obtain ⟨f, hf⟩ : ∃ f, t.print.length + 2 - t.kvs.length = f + 1 := ⟨t.print.length + 2 - t.kvs.length - 1, by omega⟩
  refine ⟨toks ++ [mkToken {} .eof t.print.length t.print.length none], ?_, ?_⟩
  · unfold lexAll
    rw [h, hf, lexAux_eof _ f {} {} _ _ _ (next_eof t.print {}) rfl]
  · simp [hkv, Token.kv, mkToken]

/-- The printer model on the parser's tree for a type prints `Ty.print`. -/
theorem printAst_ty (w : Widths) (t : Ty) : pr w t.toAst = .ok (.text t.print) := by
  induction t with
  | named n =>
    simp [Ty.toAst, Ty.print, pr, prFields, leave, baseClass, reqText, reqRaw, fld]
  | list t ih =>
    simp [Ty.toAst, Ty.print, pr, prFields, leave, baseClass, reqText, fld, ih]
  | nonNull t ih =>
    simp [Ty.toAst, Ty.print, pr, prFields, leave, baseClass, reqText, fld, ih]

end Gql.Text
