import Gql.Values.ValidateInput
import Gql.Values.ToLiteral
import Gql.Values.Variables
import Gql.Proofs.Values
/-
Lemmas relating `coerceValue` and `validateValue` (C15).
-/
namespace Gql.Values
open Gql

/-- What schema validation guarantees about defaults, as far as agreement needs it:
`coerce_default_value` returns (it does not raise). -/
def DefaultsTotal (D : Field → R) : Prop := ∀ f, ∃ r, D f = .ok r

/-- no OneOf input object in the type map -/
def NoOneOf (tm : TypeMap) : Prop :=
  ∀ n fields o, tm.find n = some (.inputObject fields o) → o = false

theorem seqItems_cons_some {cv : PyVal} (hu : cv ≠ .undefined) {rs : List R} {cs : List PyVal}
    (h : seqItems rs = .ok (some cs)) : seqItems (.ok cv :: rs) = .ok (some (cv :: cs)) := by
  cases cv <;> simp_all [seqItems]

theorem seqItems_cons_none {cv : PyVal} (hu : cv ≠ .undefined) {rs : List R}
    (h : seqItems rs = .ok none) : seqItems (.ok cv :: rs) = .ok none := by
  cases cv <;> simp_all [seqItems]

theorem seqItems_ok {rs : List R} (h : ∀ r ∈ rs, ∃ cv, r = .ok cv) :
    ∃ o, seqItems rs = .ok o ∧ (o.isSome = true ↔ ∀ r ∈ rs, r ≠ .ok .undefined) := by
  induction rs with
  | nil => exact ⟨some [], rfl, by simp⟩
  | cons r rs ih =>
    obtain ⟨cv, rfl⟩ := h r (by simp)
    obtain ⟨o, ho, hiff⟩ := ih (fun r hr => h r (by simp [hr]))
    by_cases hu : cv = .undefined
    · subst hu
      exact ⟨none, by simp [seqItems], by simp⟩
    · cases o with
      | none =>
        refine ⟨none, seqItems_cons_none hu ho, ?_⟩
        simp only [Option.isSome_none, Bool.false_eq_true, List.mem_cons, ne_eq, forall_eq_or_imp, false_iff, not_and]
        intro _
        simpa using hiff
      | some cs =>
        refine ⟨some (cv :: cs), seqItems_cons_some hu ho, ?_⟩
        simp only [Option.isSome_some, List.mem_cons, ne_eq, forall_eq_or_imp, true_iff]
        exact ⟨by simpa using hu, by simpa using hiff⟩

theorem wrapList_ok (o : Option (List PyVal)) :
    ∃ cv, wrapList (.ok o) = .ok cv ∧ (cv ≠ .undefined ↔ o.isSome = true) := by
  cases o <;> simp [wrapList]

theorem seqFields_ok {rs : List (Out Unit FieldRes)} (h : ∀ r ∈ rs, ∃ x, r = .ok x) :
    ∃ o, seqFields rs = .ok o ∧ (o.isSome = true ↔ ∀ r ∈ rs, r ≠ .ok .invalid) := by
  induction rs with
  | nil => exact ⟨some [], rfl, by simp⟩
  | cons r rs ih =>
    obtain ⟨x, rfl⟩ := h r (by simp)
    obtain ⟨o, ho, hiff⟩ := ih (fun r hr => h r (by simp [hr]))
    cases x with
    | invalid => exact ⟨none, by simp [seqFields], by simp⟩
    | skip =>
      refine ⟨o, by simp [seqFields, ho], ?_⟩
      simp only [List.mem_cons, ne_eq, forall_eq_or_imp]
      constructor
      · intro h1; exact ⟨by simp, hiff.1 h1⟩
      · intro h1; exact hiff.2 h1.2
    | entry k cv =>
      cases o with
      | none =>
        refine ⟨none, by simp [seqFields, ho], ?_⟩
        simp only [Option.isSome_none, Bool.false_eq_true, List.mem_cons, ne_eq, forall_eq_or_imp, false_iff, not_and]
        intro _
        simpa using hiff
      | some es =>
        refine ⟨some ((k, cv) :: es), by simp [seqFields, ho], ?_⟩
        simp only [Option.isSome_some, List.mem_cons, ne_eq, forall_eq_or_imp, true_iff]
        exact ⟨by simp, by simpa using hiff⟩

theorem fieldOfCoerced_ok (name : List Nat) (cv : PyVal) :
    ∃ x, fieldOfCoerced name (.ok cv) = .ok x ∧ (x = .invalid ↔ cv = .undefined) := by
  cases cv <;> simp [fieldOfCoerced]

theorem fieldMissing_ok {D : Field → R} (hD : DefaultsTotal D) (f : Field) :
    ∃ x, fieldMissing D f = .ok x ∧ (x = .invalid ↔ f.isRequired = true) := by
  unfold fieldMissing
  by_cases hr : f.isRequired = true
  · simp [hr]
  · obtain ⟨r, hr'⟩ := hD f
    simp only [hr, Bool.false_eq_true, ↓reduceIte, hr']
    cases r <;> simp

theorem isDefined_iff (v : PyVal) : isDefined v = true ↔ v ≠ .undefined := by
  cases v <;> simp [isDefined]

theorem hasUnknownDefined_iff (kvs : List (List Nat × PyVal)) (fields : List Field) :
    hasUnknownDefined kvs fields = false ↔
      (kvs.filter fun kv => isDefined kv.2 && !fields.any (fun f => f.name = kv.1)) = [] := by
  unfold hasUnknownDefined
  rw [List.filter_eq_nil_iff]
  constructor
  · intro h a ha
    have := List.any_eq_false.1 h a ha
    simpa using this
  · intro h
    apply List.any_eq_false.2
    intro a ha
    simpa using h a ha

section unfold
variable (c : PyConv) (D : Field → R) (tm : TypeMap)

theorem coerceValue_list_iter {v : PyVal} {t' : InType} {xs : List PyVal}
    (hn : ¬ v.isNullish = true) (hit : v.iterItems = some xs) :
    coerceValue c D tm v (.list t') =
      wrapList (seqItems (xs.attach.map fun ⟨x, _⟩ => coerceValue c D tm x t')) := by
  rw [coerceValue]; simp only [hn, Bool.false_eq_true, ↓reduceIte]
  split
  · rename_i xs' h'; rw [hit] at h'; cases h'; rfl
  · rename_i h'; rw [hit] at h'; cases h'

theorem coerceValue_list_single {v : PyVal} {t' : InType}
    (hn : ¬ v.isNullish = true) (hit : v.iterItems = none) :
    coerceValue c D tm v (.list t') =
      (match coerceValue c D tm v t' with
        | .ok .undefined => .ok .undefined
        | .ok r => .ok (.list [r])
        | .err e => .err e
        | .crash k => .crash k) := by
  rw [coerceValue]; simp only [hn, Bool.false_eq_true, ↓reduceIte]
  split
  · rename_i xs' h'; rw [hit] at h'; cases h'
  · rfl

theorem validateValue_list_iter {v : PyVal} {t' : InType} {xs : List PyVal} {path : Path}
    (hn : ¬ v.isNullish = true) (hit : v.iterItems = some xs) :
    validateValue c tm v (.list t') path =
      xs.attach.zipIdx.flatMap fun ⟨⟨x, _⟩, i⟩ => validateValue c tm x t' (path ++ [.idx i]) := by
  rw [validateValue]; simp only [hn, Bool.false_eq_true, ↓reduceIte]
  split
  · rename_i xs' h'; rw [hit] at h'; cases h'; rfl
  · rename_i h'; rw [hit] at h'; cases h'

theorem validateValue_list_single {v : PyVal} {t' : InType} {path : Path}
    (hn : ¬ v.isNullish = true) (hit : v.iterItems = none) :
    validateValue c tm v (.list t') path = validateValue c tm v t' path := by
  rw [validateValue]; simp only [hn, Bool.false_eq_true, ↓reduceIte]
  split
  · rename_i xs' h'; rw [hit] at h'; cases h'
  · rfl

theorem coerceValue_obj {v : PyVal} {n : List Nat} {fields : List Field} {oneOf : Bool}
    {kvs : List (List Nat × PyVal)}
    (hn : ¬ v.isNullish = true) (hf : tm.find n = some (.inputObject fields oneOf)) (hd : v.asDict = some kvs) :
    coerceValue c D tm v (.named n) =
      if hasUnknownDefined kvs fields then .ok .undefined
      else
        match seqFields (fields.map fun f =>
          match h : dictGetDefined kvs f.name with
          | some fv => fieldOfCoerced f.name (coerceValue c D tm fv f.type)
          | none => fieldMissing D f) with
        | .ok (some entries) =>
          if oneOf then oneOfValue (definedCount kvs) entries else .ok (.dict entries)
        | .ok none => .ok .undefined
        | .err e => .err e
        | .crash k => .crash k := by
  rw [coerceValue]; simp only [hn, Bool.false_eq_true, ↓reduceIte, hf]
  split
  · rename_i kvs' h'; rw [hd] at h'; cases h'; rfl
  · rename_i h'; rw [hd] at h'; cases h'

theorem coerceValue_notobj {v : PyVal} {n : List Nat} {fields : List Field} {oneOf : Bool}
    (hn : ¬ v.isNullish = true) (hf : tm.find n = some (.inputObject fields oneOf)) (hd : v.asDict = none) :
    coerceValue c D tm v (.named n) = .ok .undefined := by
  rw [coerceValue]; simp only [hn, Bool.false_eq_true, ↓reduceIte, hf]
  split
  · rename_i kvs' h'; rw [hd] at h'; cases h'
  · rfl

theorem validateValue_obj {v : PyVal} {n : List Nat} {fields : List Field} {oneOf : Bool}
    {kvs : List (List Nat × PyVal)} {path : Path}
    (hn : ¬ v.isNullish = true) (hf : tm.find n = some (.inputObject fields oneOf)) (hd : v.asDict = some kvs) :
    validateValue c tm v (.named n) path =
      (fields.flatMap fun f =>
          match h : dictGetDefined kvs f.name with
          | some fv => validateValue c tm fv f.type (path ++ [.key f.name])
          | none => if f.isRequired then [path] else [])
        ++ ((kvs.filter fun kv => isDefined kv.2 && !fields.any (fun f => f.name = kv.1)).map fun _ => path)
        ++ (if oneOf then
              oneOfValueErrors path (kvs.filter fun kv => isDefined kv.2 && fields.any (fun f => f.name = kv.1))
            else []) := by
  rw [validateValue]; simp only [hn, Bool.false_eq_true, ↓reduceIte, hf]
  split
  · rename_i kvs' h'; rw [hd] at h'; cases h'; rfl
  · rename_i h'; rw [hd] at h'; cases h'

theorem validateValue_notobj {v : PyVal} {n : List Nat} {fields : List Field} {oneOf : Bool} {path : Path}
    (hn : ¬ v.isNullish = true) (hf : tm.find n = some (.inputObject fields oneOf)) (hd : v.asDict = none) :
    validateValue c tm v (.named n) path = [path] := by
  rw [validateValue]; simp only [hn, Bool.false_eq_true, ↓reduceIte, hf]
  split
  · rename_i kvs' h'; rw [hd] at h'; cases h'
  · rfl

end unfold

/-- Agreement of value coercion and value validation, for type maps without OneOf objects. -/
theorem coerce_validate_value (c : PyConv) (D : Field → R) (tm : TypeMap)
    (hD : DefaultsTotal D) (hO : NoOneOf tm) (v : PyVal) (t : InType) (path : Path) :
    ∃ cv, coerceValue c D tm v t = .ok cv ∧ (validateValue c tm v t path = [] ↔ cv ≠ .undefined) := by
  induction v, t, path using validateValue.induct c tm with
  | case1 v path t' hn =>
    rw [coerceValue, validateValue]; simp [hn]
  | case2 v path t' hn ih =>
    rw [coerceValue, validateValue]; simpa [hn] using ih
  | case3 v path t' hn =>
    rw [coerceValue, validateValue]; simp [hn]
  | case4 v path t' hn xs hit ih =>
    rw [coerceValue_list_iter c D tm hn hit, validateValue_list_iter c tm hn hit]
    obtain ⟨xs', rfl⟩ : ∃ xs', xs' = xs := ⟨xs, rfl⟩
    · have hall : ∀ r ∈ (xs'.attach.map fun ⟨x, _⟩ => coerceValue c D tm x t'), ∃ cv, r = .ok cv := by
        intro r hr
        simp only [List.mem_map, List.mem_attach, true_and, Subtype.exists] at hr
        obtain ⟨x, hx, rfl⟩ := hr
        obtain ⟨cv, hcv, _⟩ := ih x hx 0
        exact ⟨cv, hcv⟩
      obtain ⟨o, ho, hiff⟩ := seqItems_ok hall
      obtain ⟨cv, hcv, hcvu⟩ := wrapList_ok o
      refine ⟨cv, by rw [ho, hcv], ?_⟩
      rw [hcvu, hiff, List.flatMap_eq_nil_iff]
      constructor
      · intro h r hr
        simp only [List.mem_map, List.mem_attach, true_and, Subtype.exists] at hr
        obtain ⟨x, hx, rfl⟩ := hr
        have hmem : (⟨x, hx⟩ : {y // y ∈ xs'}) ∈ List.map Prod.fst (xs'.attach.zipIdx) := by
          rw [List.zipIdx_map_fst]; exact List.mem_attach _ _
        obtain ⟨⟨⟨x', hx'⟩, i⟩, hmi, heq⟩ := List.mem_map.1 hmem
        simp only at heq
        have := h _ hmi
        obtain ⟨cv, hcv, hv⟩ := ih x hx i
        cases heq
        simp only at this
        rw [hcv]
        intro hc
        simp only [Out.ok.injEq] at hc
        exact (hv.1 this) hc
      · intro h ⟨⟨x, hx⟩, i⟩ _
        simp only
        obtain ⟨cv, hcv, hv⟩ := ih x hx i
        apply hv.2
        intro hc
        apply h (coerceValue c D tm x t')
        · simp only [List.mem_map, List.mem_attach, true_and, Subtype.exists]
          exact ⟨x, hx, rfl⟩
        · rw [hcv, hc]
  | case5 v path t' hn hit ih =>
    rw [coerceValue_list_single c D tm hn hit, validateValue_list_single c tm hn hit]
    obtain ⟨cv, hcv, hv⟩ := ih
    · rw [hcv]
      by_cases hu : cv = .undefined
      · subst hu; exact ⟨.undefined, rfl, by simpa using hv⟩
      · refine ⟨.list [cv], ?_, by simpa [hu] using hv⟩
        cases cv <;> simp_all
  | case6 v path n hn =>
    rw [coerceValue, validateValue]; simp [hn]
  | case7 v path n hn fields oneOf hf kvs hd ih =>
    have ho := hO n fields oneOf hf
    subst ho
    rw [coerceValue_obj c D tm hn hf hd, validateValue_obj c tm hn hf hd]
    obtain ⟨kvs', rfl⟩ : ∃ kvs', kvs' = kvs := ⟨kvs, rfl⟩
    · by_cases hunk : hasUnknownDefined kvs' fields = true
      · refine ⟨.undefined, by simp [hunk], ?_⟩
        have hne : ¬ ((kvs'.filter fun kv => isDefined kv.2 && !fields.any (fun f => f.name = kv.1)) = []) := by
          rw [← hasUnknownDefined_iff]; simp [hunk]
        simp only [ne_eq, not_true_eq_false, iff_false]
        intro h
        simp only [List.append_eq_nil_iff, List.map_eq_nil_iff] at h
        exact hne h.1.2
      · have hunk' : hasUnknownDefined kvs' fields = false := by simpa using hunk
        simp only [hunk', Bool.false_eq_true, ↓reduceIte, List.append_nil]
        -- per-field facts
        have hfield : ∀ f ∈ fields, ∃ x,
            (match h : dictGetDefined kvs' f.name with
              | some fv => fieldOfCoerced f.name (coerceValue c D tm fv f.type)
              | none => fieldMissing D f) = .ok x ∧
            (x = .invalid ↔
              (match h : dictGetDefined kvs' f.name with
                | some fv => validateValue c tm fv f.type (path ++ [.key f.name])
                | none => if f.isRequired then [path] else []) ≠ []) := by
          intro f _
          split
          · rename_i fv hfv
            obtain ⟨cv, hcv, hv⟩ := ih f fv hfv
            obtain ⟨x, hx, hxi⟩ := fieldOfCoerced_ok f.name cv
            refine ⟨x, by rw [hcv, hx], ?_⟩
            rw [hxi]
            constructor
            · intro hu h0; exact (hv.1 h0) hu
            · intro h0; by_cases hu : cv = .undefined
              · exact hu
              · exact absurd (hv.2 hu) h0
          · obtain ⟨x, hx, hxi⟩ := fieldMissing_ok hD f
            refine ⟨x, hx, ?_⟩
            rw [hxi]
            by_cases hr : f.isRequired = true <;> simp [hr]
        have hall : ∀ r ∈ (fields.map fun f =>
            match h : dictGetDefined kvs' f.name with
            | some fv => fieldOfCoerced f.name (coerceValue c D tm fv f.type)
            | none => fieldMissing D f), ∃ x, r = .ok x := by
          intro r hr
          obtain ⟨f, hf', rfl⟩ := List.mem_map.1 hr
          obtain ⟨x, hx, _⟩ := hfield f hf'
          exact ⟨x, hx⟩
        obtain ⟨o, hso, hiff⟩ := seqFields_ok hall
        rw [hso]
        have hvalid : ((fields.flatMap fun f =>
              match h : dictGetDefined kvs' f.name with
              | some fv => validateValue c tm fv f.type (path ++ [.key f.name])
              | none => if f.isRequired then [path] else []) ++
            List.map (fun _ => path)
              (kvs'.filter fun kv => isDefined kv.2 && !fields.any (fun f => f.name = kv.1)) = []) ↔ o.isSome = true := by
          rw [hiff]
          have h2 := (hasUnknownDefined_iff kvs' fields).1 hunk'
          rw [h2]
          simp only [List.map_nil, List.append_nil, List.flatMap_eq_nil_iff]
          constructor
          · intro h r hr
            obtain ⟨f, hf', rfl⟩ := List.mem_map.1 hr
            obtain ⟨x, hx, hxi⟩ := hfield f hf'
            rw [hx]
            intro hc
            simp only [Out.ok.injEq] at hc
            exact (hxi.1 hc) (h f hf')
          · intro h f hf'
            obtain ⟨x, hx, hxi⟩ := hfield f hf'
            by_cases h0 : (match h : dictGetDefined kvs' f.name with
                | some fv => validateValue c tm fv f.type (path ++ [.key f.name])
                | none => if f.isRequired then [path] else []) = []
            · exact h0
            · exfalso
              have := hxi.2 h0
              subst this
              exact h _ (List.mem_map.2 ⟨f, hf', rfl⟩) hx
        cases o with
        | none => exact ⟨.undefined, rfl, by simpa using hvalid⟩
        | some es => exact ⟨.dict es, rfl, by simpa using hvalid⟩
  | case8 v path n hn fields oneOf hf hd =>
    rw [coerceValue_notobj c D tm hn hf hd, validateValue_notobj c tm hn hf hd]
    exact ⟨.undefined, rfl, by simp⟩
  | case9 v path n hn s hf hdv =>
    rw [coerceValue, validateValue]
    simp only [hn, Bool.false_eq_true, ↓reduceIte, hf, hdv]
    exact ⟨_, rfl, by simpa using (isDefined_iff _).1 hdv⟩
  | case10 v path n hn s hf hdv =>
    rw [coerceValue, validateValue]
    simp only [hn, Bool.false_eq_true, ↓reduceIte, hf, hdv]
    refine ⟨_, rfl, ?_⟩
    have : ¬ (leafValue c (Leaf.scalar s) v ≠ .undefined) := fun h => hdv ((isDefined_iff _).2 h)
    simpa using this
  | case11 v path n hn e hf hdv =>
    rw [coerceValue, validateValue]
    simp only [hn, Bool.false_eq_true, ↓reduceIte, hf, hdv]
    exact ⟨_, rfl, by simpa using (isDefined_iff _).1 hdv⟩
  | case12 v path n hn e hf hdv =>
    rw [coerceValue, validateValue]
    simp only [hn, Bool.false_eq_true, ↓reduceIte, hf, hdv]
    refine ⟨_, rfl, ?_⟩
    have : ¬ (leafValue c (Leaf.enum e) v ≠ .undefined) := fun h => hdv ((isDefined_iff _).2 h)
    simpa using this
  | case13 v path n hn hf =>
    rw [coerceValue, validateValue]
    simp [hn, hf]

end Gql.Values
