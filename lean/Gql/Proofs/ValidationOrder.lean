import Gql.Proofs.ValidationSingle
/-!
Lemmas for C12-2 (order): without a limit the `errors` list of `validate()` is `errsTrav` — the concatenation,
over the enter/leave events of the complete traversal in depth-first order, of what the members report at that
event, members taken in list (= rule) order; what a member reports at an event is determined by its own
independent evolution (`Member.enter` / `Member.leave` on its own `Member.trav` state).
-/
namespace Gql.Validation
variable {τ σ ε : Type}

mutual
  /-- The errors reported during the complete traversal of a subtree: event by event (enter, children, leave),
  at each event the members in list order. -/
  def errsTrav (D : Driver τ) : TI τ → List (Member τ σ ε) → Tree → List ε
    | ti, ms, .node i cs =>
      ms.flatMap (fun m => (Member.enter (D.enter ti i) i m).2)
        ++ errsTravList D (D.enter ti i) (ms.map (fun m => (Member.enter (D.enter ti i) i m).1)) cs
        ++ ((ms.map (fun m => (Member.enter (D.enter ti i) i m).1)).map (fun m => Member.travList D (D.enter ti i) m cs)).flatMap
            (fun m => (Member.leave (tiTravList D (D.enter ti i) cs) i m).2)
  def errsTravList (D : Driver τ) : TI τ → List (Member τ σ ε) → List Tree → List ε
    | _, _, [] => []
    | ti, ms, t :: ts =>
      errsTrav D ti ms t ++ errsTravList D (tiTrav D ti t) (ms.map (fun m => Member.trav D ti m t)) ts
end

theorem flatMap_nil_of {α β : Type} (f : α → List β) (xs : List α) (h : ∀ x ∈ xs, f x = []) : xs.flatMap f = [] := by
  induction xs with
  | nil => rfl
  | cons x xs ih =>
    simp only [List.flatMap_cons]
    rw [h x List.mem_cons_self, ih (fun y hy => h y (List.mem_cons_of_mem _ hy))]
    rfl

/-- `par_enter_step` with the reported errors made explicit -/
theorem par_enter_step' (D : Driver τ) (ti : TI τ) (ms : List (Member τ σ ε)) (snk : Sink ε) (i : Info)
    (h : snk.aborted = false) :
    (tiVisitor D (parallel none)).enter (ti, ⟨ms, snk⟩) i =
      (Action.idle, (D.enter ti i, ⟨ms.map (fun m => (Member.enter (D.enter ti i) i m).1),
        ⟨snk.errs ++ ms.flatMap (fun m => (Member.enter (D.enter ti i) i m).2), false⟩⟩)) := by
  cases hc : (parallel (τ := τ) (σ := σ) (ε := ε) none).hEnter ⟨ms, snk⟩ i.kind with
  | true =>
    rw [tiVisitor_enter_pos D _ _ _ hc]
    dsimp only
    rw [parallel_enter_eq]
    simp only [memberLoop_none _ _ _ h]
    simp
  | false =>
    rw [tiVisitor_enter_neg D _ _ _ hc]
    have hno' := parallel_handles_false none ⟨ms, snk⟩ i.kind hc
    rw [map_id_of, flatMap_nil_of]
    · cases snk; simp_all
    · intro m hm; rw [Member.enter_unhandled _ _ _ (hno' m hm).1]
    · intro m hm; rw [Member.enter_unhandled _ _ _ (hno' m hm).1]

theorem par_leave_step' (D : Driver τ) (ti : TI τ) (ms : List (Member τ σ ε)) (snk : Sink ε) (i : Info)
    (h : snk.aborted = false) (hw : ∀ m ∈ ms, m.WF) :
    (tiVisitor D (parallel none)).leave (ti, ⟨ms, snk⟩) i =
      (Action.idle, (D.leave ti i, ⟨ms.map (fun m => (Member.leave ti i m).1),
        ⟨snk.errs ++ ms.flatMap (fun m => (Member.leave ti i m).2), false⟩⟩)) := by
  cases hc : (parallel (τ := τ) (σ := σ) (ε := ε) none).hLeave ⟨ms, snk⟩ i.kind with
  | true =>
    rw [tiVisitor_leave_pos D _ _ _ hc]
    dsimp only
    rw [parallel_leave_eq]
    simp only [memberLoop_none _ _ _ h]
    simp
  | false =>
    rw [tiVisitor_leave_neg D _ _ _ hc]
    have hno' := parallel_handles_false none ⟨ms, snk⟩ i.kind hc
    rw [map_id_of, flatMap_nil_of]
    · cases snk; simp_all
    · intro m hm; rw [Member.leave_unhandled _ _ _ (hw m hm) (hno' m hm).1 (hno' m hm).2]
    · intro m hm; rw [Member.leave_unhandled _ _ _ (hw m hm) (hno' m hm).1 (hno' m hm).2]

/-- `par_run` with the appended errors made explicit: they are `errsTrav`. -/
theorem par_run_errs (D : Driver τ) :
    (∀ t (ti : TI τ) (ms : List (Member τ σ ε)) (snk : Sink ε), snk.aborted = false → (∀ m ∈ ms, m.WF) →
      run0 (tiVisitor D (parallel none)) (ti, ⟨ms, snk⟩) t =
        ((tiTrav D ti t, ⟨ms.map (fun m => Member.trav D ti m t), ⟨snk.errs ++ errsTrav D ti ms t, false⟩⟩), false)) ∧
    (∀ ts (ti : TI τ) (ms : List (Member τ σ ε)) (snk : Sink ε), snk.aborted = false → (∀ m ∈ ms, m.WF) →
      run0List (tiVisitor D (parallel none)) (ti, ⟨ms, snk⟩) ts =
        ((tiTravList D ti ts, ⟨ms.map (fun m => Member.travList D ti m ts), ⟨snk.errs ++ errsTravList D ti ms ts, false⟩⟩), false)) := by
  apply Tree.induct
  · intro i cs ih ti ms snk h hw
    have h1 := par_enter_step' D ti ms snk i h
    have hw1 : ∀ m ∈ ms.map (fun m => (Member.enter (D.enter ti i) i m).1), m.WF := by
      intro m hm
      obtain ⟨m0, hm0, rfl⟩ := List.mem_map.mp hm
      exact Member.enter_WF _ _ _ (hw m0 hm0)
    have h2 := ih (D.enter ti i) _ ⟨snk.errs ++ ms.flatMap (fun m => (Member.enter (D.enter ti i) i m).2), false⟩ rfl hw1
    have hw2 : ∀ m ∈ (ms.map (fun m => (Member.enter (D.enter ti i) i m).1)).map
        (fun m => Member.travList D (D.enter ti i) m cs), m.WF := by
      intro m hm
      obtain ⟨m0, hm0, rfl⟩ := List.mem_map.mp hm
      exact (Member.trav_WF D).2 _ _ _ (hw1 m0 hm0)
    have h3 := par_leave_step' D (tiTravList D (D.enter ti i) cs) _
      ⟨snk.errs ++ ms.flatMap (fun m => (Member.enter (D.enter ti i) i m).2)
        ++ errsTravList D (D.enter ti i) (ms.map (fun m => (Member.enter (D.enter ti i) i m).1)) cs, false⟩ i rfl hw2
    rw [run0_node_always _ (fun _ _ => rfl) (fun _ _ => rfl)]
    rw [h1]
    dsimp only
    rw [h2]
    simp only [Bool.false_eq_true, if_false]
    rw [h3]
    simp [tiTrav, Member.trav, errsTrav, List.map_map, Function.comp_def, List.append_assoc]
  · intro ti ms snk h _
    cases snk; simp_all [run0List, tiTravList, Member.travList, errsTravList]
  · intro t ts iht ihts ti ms snk h hw
    have h1 := iht ti ms snk h hw
    have hw1 : ∀ m ∈ ms.map (fun m => Member.trav D ti m t), m.WF := by
      intro m hm
      obtain ⟨m0, hm0, rfl⟩ := List.mem_map.mp hm
      exact (Member.trav_WF D).1 _ _ _ (hw m0 hm0)
    have h2 := ihts (tiTrav D ti t) _ ⟨snk.errs ++ errsTrav D ti ms t, false⟩ rfl hw1
    rw [run0List, h1]
    simp only [Bool.false_eq_true, if_false]
    rw [h2]
    simp [tiTravList, Member.travList, errsTravList, List.map_map, Function.comp_def, List.append_assoc]

/-- what one member alone contributes is what `Member.trav` appends to its own error log -/
theorem trav_errs (D : Driver τ) :
    (∀ t (ti : TI τ) (m : Member τ σ ε), (Member.trav D ti m t).errs = m.errs ++ errsTrav D ti [m] t) ∧
    (∀ ts (ti : TI τ) (m : Member τ σ ε), (Member.travList D ti m ts).errs = m.errs ++ errsTravList D ti [m] ts) := by
  apply Tree.induct
  · intro i cs ih ti m
    rw [Member.trav, errsTrav]
    simp only [List.map_cons, List.map_nil, List.flatMap_cons, List.flatMap_nil, List.append_nil]
    rw [Member.leave_errs, ih, Member.enter_errs]
    simp [List.append_assoc]
  · intro ti m; simp [Member.travList, errsTravList]
  · intro t ts iht ihts ti m
    rw [Member.travList, errsTravList]
    simp only [List.map_cons, List.map_nil]
    rw [ihts, iht]
    simp [List.append_assoc]

theorem sublist_flatMap_of_mem {α β : Type} (f : α → List β) (xs : List α) (x : α) (h : x ∈ xs) :
    (f x).Sublist (xs.flatMap f) := by
  induction xs with
  | nil => cases h
  | cons y ys ih =>
    simp only [List.flatMap_cons]
    rcases List.mem_cons.mp h with rfl | h'
    · exact List.sublist_append_left _ _
    · exact (ih h').trans (List.sublist_append_right _ _)

/-- the errors of one member, in order, are a subsequence of the errors of any member list containing it -/
theorem errsTrav_sublist (D : Driver τ) :
    (∀ t (ti : TI τ) (ms : List (Member τ σ ε)) (m : Member τ σ ε), m ∈ ms → (errsTrav D ti [m] t).Sublist (errsTrav D ti ms t)) ∧
    (∀ ts (ti : TI τ) (ms : List (Member τ σ ε)) (m : Member τ σ ε), m ∈ ms → (errsTravList D ti [m] ts).Sublist (errsTravList D ti ms ts)) := by
  apply Tree.induct
  · intro i cs ih ti ms m hm
    rw [errsTrav, errsTrav]
    simp only [List.map_cons, List.map_nil, List.flatMap_cons, List.flatMap_nil, List.append_nil]
    apply List.Sublist.append
    · apply List.Sublist.append
      · exact sublist_flatMap_of_mem (fun m => (Member.enter (D.enter ti i) i m).2) ms m hm
      · exact ih _ _ _ (List.mem_map_of_mem hm)
    · exact sublist_flatMap_of_mem (fun m => (Member.leave (tiTravList D (D.enter ti i) cs) i m).2) _ _
        (List.mem_map_of_mem (List.mem_map_of_mem hm))
  · intro ti ms m _; simp [errsTravList]
  · intro t ts iht ihts ti ms m hm
    rw [errsTravList, errsTravList]
    simp only [List.map_cons, List.map_nil]
    exact List.Sublist.append (iht _ _ _ hm) (ihts _ _ _ (List.mem_map_of_mem hm))

/-! ### `plainVisitor` is `TypeInfoVisitor` with a driver that does nothing -/

/-- the enter step of `visit()`: call the handler if there is one -/
def enterStep {σ' : Type} (v : V0 σ') (s : σ') (i : Info) : Action × σ' :=
  if v.hEnter s i.kind then v.enter s i else (Action.idle, s)
def leaveStep {σ' : Type} (v : V0 σ') (s : σ') (i : Info) : Action × σ' :=
  if v.hLeave s i.kind then v.leave s i else (Action.idle, s)

theorem run0_node_steps {σ' : Type} (v : V0 σ') (s : σ') (i : Info) (cs : List Tree) :
    run0 v s (.node i cs) =
      match (enterStep v s i).1 with
      | .brk => ((enterStep v s i).2, true)
      | .skip => ((enterStep v s i).2, false)
      | .idle =>
        if (run0List v (enterStep v s i).2 cs).2 then ((run0List v (enterStep v s i).2 cs).1, true)
        else ((leaveStep v (run0List v (enterStep v s i).2 cs).1 i).2, (leaveStep v (run0List v (enterStep v s i).2 cs).1 i).1 == Action.brk) := by
  rw [run0]; rfl

theorem enterStep_plain {σ' : Type} (ti0 : TI τ) (v : V τ σ') (s : σ') (i : Info) :
    enterStep (tiVisitor idDriver v) (ti0, s) i =
      ((enterStep (plainVisitor ti0 v) s i).1, (ti0, (enterStep (plainVisitor ti0 v) s i).2)) := by
  unfold enterStep
  cases hE : v.hEnter s i.kind with
  | false => simp [tiVisitor, plainVisitor, idDriver, hE]
  | true =>
    simp [tiVisitor, plainVisitor, idDriver, hE]
    exact ite_self _

theorem leaveStep_plain {σ' : Type} (ti0 : TI τ) (v : V τ σ') (s : σ') (i : Info) :
    leaveStep (tiVisitor idDriver v) (ti0, s) i =
      ((leaveStep (plainVisitor ti0 v) s i).1, (ti0, (leaveStep (plainVisitor ti0 v) s i).2)) := by
  unfold leaveStep
  cases hL : v.hLeave s i.kind with
  | false => simp [tiVisitor, plainVisitor, idDriver, hL]
  | true => simp [tiVisitor, plainVisitor, idDriver, hL]

theorem run0_plain {σ' : Type} (ti0 : TI τ) (v : V τ σ') :
    (∀ t (s : σ'), run0 (tiVisitor idDriver v) (ti0, s) t =
      ((ti0, (run0 (plainVisitor ti0 v) s t).1), (run0 (plainVisitor ti0 v) s t).2)) ∧
    (∀ ts (s : σ'), run0List (tiVisitor idDriver v) (ti0, s) ts =
      ((ti0, (run0List (plainVisitor ti0 v) s ts).1), (run0List (plainVisitor ti0 v) s ts).2)) := by
  apply Tree.induct
  · intro i cs ih s
    rw [run0_node_steps, run0_node_steps, enterStep_plain]
    generalize enterStep (plainVisitor ti0 v) s i = r
    obtain ⟨a, s1⟩ := r
    cases a with
    | brk => rfl
    | skip => rfl
    | idle =>
      dsimp only
      rw [ih s1]
      cases hs : (run0List (plainVisitor ti0 v) s1 cs).2 with
      | true => simp
      | false =>
        simp only [Bool.false_eq_true, if_false]
        rw [leaveStep_plain]
  · intro s; simp [run0List]
  · intro t ts iht ihts s
    rw [run0List, run0List, iht s]
    cases hs : (run0 (plainVisitor ti0 v) s t).2 with
    | true => simp
    | false => simp only [Bool.false_eq_true, if_false]; exact ihts _

/-! ### the complete run from the start state, for any driver -/

def startMembers (rules : List (Rule τ σ ε × σ)) : List (Member τ σ ε) := rules.map (fun r => Member.start r.1 r.2)

theorem startMembers_WF (rules : List (Rule τ σ ε × σ)) : ∀ m ∈ startMembers rules, m.WF := by
  intro m hm
  obtain ⟨r, _, rfl⟩ := List.mem_map.mp hm
  exact Member.start_WF _ _

/-- The whole unlimited run in closed form. -/
theorem run_closed (D : Driver τ) (ti : TI τ) (rules : List (Rule τ σ ε × σ)) (doc : Tree) :
    run0 (tiVisitor D (parallel none)) (ti, PState.start rules) doc =
      ((tiTrav D ti doc, ⟨(startMembers rules).map (fun m => Member.trav D ti m doc),
        ⟨errsTrav D ti (startMembers rules) doc, false⟩⟩), false) := by
  have := (par_run_errs D).1 doc ti (startMembers rules) ⟨[], false⟩ rfl (startMembers_WF rules)
  simpa [PState.start, startMembers] using this

theorem errsTrav_single (D : Driver τ) (ti : TI τ) (r : Rule τ σ ε × σ) (doc : Tree) :
    (Member.trav D ti (Member.start r.1 r.2) doc).errs = errsTrav D ti [Member.start r.1 r.2] doc := by
  rw [(trav_errs D).1]; simp [Member.start]

/-- multiset form, any driver -/
theorem errsTrav_perm (D : Driver τ) (ti : TI τ) (rules : List (Rule τ σ ε × σ)) (doc : Tree) :
    (errsTrav D ti (startMembers rules) doc).Perm (rules.flatMap (fun r => errsTrav D ti [Member.start r.1 r.2] doc)) := by
  have hstart : UnionInv (PState.start rules) := by
    refine ⟨rfl, ?_⟩
    have : (PState.start rules).members.flatMap (fun m => m.errs) = [] := by
      simp [PState.start, Member.start, List.flatMap_map]
    rw [this]; exact List.Perm.refl _
  have hu := (union_inv D).1 doc (ti, PState.start rules) hstart
  simp only [Vu] at hu
  rw [run_closed] at hu
  have h2 := hu.2
  simp only [startMembers, List.flatMap_map] at h2
  refine h2.trans ?_
  apply perm_flatMap_congr
  intro r _
  rw [errsTrav_single]

end Gql.Validation
