import Gql.Proofs.RulesFuel2
/-!
C12 — `get_recursively_referenced_fragments` computes reachability in the spread graph.
-/
namespace Gql.Validation.Rules

/-- The fragment names reachable from the selection set `root` through spreads: a spread below `root`, or a spread
below the selection set of the fragment `get_fragment` returns for a reachable name. -/
inductive Reach (doc : ATree) (root : ATree) : String → Prop
  | base {sp : ATree} {n : String} : sp ∈ (getSpreads root).1 → sp.nameValue = some n → Reach doc root n
  | step {m : String} {g ss sp : ATree} {n : String} : Reach doc root m → getFragment doc m = some g →
      g.kid "selection_set" = some ss → sp ∈ (getSpreads ss).1 → sp.nameValue = some n → Reach doc root n

theorem refsInner_names_mono (doc : ATree) (sps : List ATree) (names : List String) (frs sets : List ATree) :
    ∀ n ∈ names, n ∈ (refsInner doc sps names frs sets).1 := by
  fun_induction refsInner doc sps names frs sets <;> grind

theorem refsInner_names_sps (doc : ATree) (sps : List ATree) (names : List String) (frs sets : List ATree) :
    ∀ sp ∈ sps, ∀ n, sp.nameValue = some n → n ∈ (refsInner doc sps names frs sets).1 := by
  fun_induction refsInner doc sps names frs sets <;> grind [refsInner_names_mono]

theorem refsInner_frs_mono (doc : ATree) (sps : List ATree) (names : List String) (frs sets : List ATree) :
    ∀ f ∈ frs, f ∈ (refsInner doc sps names frs sets).2.1 := by
  fun_induction refsInner doc sps names frs sets <;> grind

theorem refsInner_sets_mono (doc : ATree) (sps : List ATree) (names : List String) (frs sets : List ATree) :
    ∀ s ∈ sets, s ∈ (refsInner doc sps names frs sets).2.2 := by
  fun_induction refsInner doc sps names frs sets <;> grind

theorem refsInner_new_frs (doc : ATree) (sps : List ATree) (names : List String) (frs sets : List ATree) :
    ∀ n ∈ (refsInner doc sps names frs sets).1, n ∉ names → ∀ f, getFragment doc n = some f →
      f ∈ (refsInner doc sps names frs sets).2.1 := by
  fun_induction refsInner doc sps names frs sets <;> grind [refsInner_frs_mono]

theorem refsInner_new_sets (doc : ATree) (sps : List ATree) (names : List String) (frs sets : List ATree) :
    ∀ n ∈ (refsInner doc sps names frs sets).1, n ∉ names → ∀ g ss, getFragment doc n = some g →
      g.kid "selection_set" = some ss → ss ∈ (refsInner doc sps names frs sets).2.2 := by
  fun_induction refsInner doc sps names frs sets <;> grind [refsInner_sets_mono]

-- soundness
theorem refsInner_names_from (doc : ATree) (sps : List ATree) (names : List String) (frs sets : List ATree) :
    ∀ n ∈ (refsInner doc sps names frs sets).1, n ∈ names ∨ ∃ sp ∈ sps, sp.nameValue = some n := by
  fun_induction refsInner doc sps names frs sets <;> grind

theorem refsInner_frs_from (doc : ATree) (sps : List ATree) (names : List String) (frs sets : List ATree) :
    ∀ f ∈ (refsInner doc sps names frs sets).2.1, f ∈ frs ∨
      ∃ sp ∈ sps, ∃ n, sp.nameValue = some n ∧ getFragment doc n = some f := by
  fun_induction refsInner doc sps names frs sets <;> grind

theorem refsInner_sets_from (doc : ATree) (sps : List ATree) (names : List String) (frs sets : List ATree) :
    ∀ s ∈ (refsInner doc sps names frs sets).2.2, s ∈ sets ∨
      ∃ sp ∈ sps, ∃ n g, sp.nameValue = some n ∧ getFragment doc n = some g ∧ g.kid "selection_set" = some s := by
  fun_induction refsInner doc sps names frs sets <;> grind

/-! ## the worklist loop -/

/-- `s` is the root selection set or the selection set of the fragment of a reachable name -/
def RSet (doc root s : ATree) : Prop :=
  s = root ∨ ∃ m g, Reach doc root m ∧ getFragment doc m = some g ∧ g.kid "selection_set" = some s

/-- `f` is what `get_fragment` returns for a reachable name -/
def RFrag (doc root f : ATree) : Prop := ∃ n, Reach doc root n ∧ getFragment doc n = some f

theorem reach_of_spread {doc root s sp : ATree} {n : String} (hs : RSet doc root s) (hsp : sp ∈ (getSpreads s).1)
    (hn : sp.nameValue = some n) : Reach doc root n := by
  rcases hs with rfl | ⟨m, g, hm, hg, hk⟩
  · exact Reach.base hsp hn
  · exact Reach.step hm hg hk hsp hn

theorem refsLoop_sound (doc root : ATree) : ∀ (fuel : Nat) (stack : List ATree) (names : List String) (frs : List ATree),
    (∀ s ∈ stack, RSet doc root s) → (∀ n ∈ names, Reach doc root n) → (∀ f ∈ frs, RFrag doc root f) →
    ∀ f ∈ (refsLoop doc fuel stack names frs).1, RFrag doc root f := by
  intro fuel
  induction fuel with
  | zero => intro stack names frs _ _ hf; cases stack <;> simpa [refsLoop] using hf
  | succ k ih =>
    intro stack names frs hs hn hf
    cases stack with
    | nil => simpa [refsLoop] using hf
    | cons s st =>
      rw [refsLoop]
      simp only
      have hs0 : RSet doc root s := hs s (by simp)
      apply ih
      · intro s' hs'
        rcases List.mem_append.mp hs' with h | h
        · rcases refsInner_sets_from doc _ names frs [] s' (List.mem_reverse.mp h) with h0 | ⟨sp, hsp, n, g, h1, h2, h3⟩
          · simp at h0
          · exact Or.inr ⟨n, g, reach_of_spread hs0 hsp h1, h2, h3⟩
        · exact hs s' (List.mem_cons_of_mem _ h)
      · intro n hn'
        rcases refsInner_names_from doc _ names frs [] n hn' with h0 | ⟨sp, hsp, h1⟩
        · exact hn n h0
        · exact reach_of_spread hs0 hsp h1
      · intro f hf'
        rcases refsInner_frs_from doc _ names frs [] f hf' with h0 | ⟨sp, hsp, n, h1, h2⟩
        · exact hf f h0
        · exact ⟨n, reach_of_spread hs0 hsp h1, h2⟩

/-- every collected name's fragment is in the result list -/
def Link (doc : ATree) (names : List String) (frs : List ATree) : Prop :=
  ∀ n ∈ names, ∀ f, getFragment doc n = some f → f ∈ frs

/-- the selection sets the loop has to look at, given the collected names -/
def Src (doc root : ATree) (names : List String) (ss : ATree) : Prop :=
  ss = root ∨ ∃ n ∈ names, ∃ g, getFragment doc n = some g ∧ g.kid "selection_set" = some ss

/-- every spread below `ss` has been collected -/
def Done (names : List String) (ss : ATree) : Prop :=
  ∀ sp ∈ (getSpreads ss).1, ∀ n, sp.nameValue = some n → n ∈ names

theorem refsLoop_complete (doc root : ATree) : ∀ (fuel : Nat) (stack : List ATree) (names : List String)
    (frs : List ATree), (refsLoop doc fuel stack names frs).2 = false → Link doc names frs →
    (∀ ss, Src doc root names ss → ss ∈ stack ∨ Done names ss) →
    ∃ namesF, (∀ n ∈ names, n ∈ namesF) ∧ Link doc namesF (refsLoop doc fuel stack names frs).1 ∧
      ∀ ss, Src doc root namesF ss → Done namesF ss := by
  intro fuel
  induction fuel with
  | zero =>
    intro stack names frs hfl hl hc
    cases stack with
    | nil => exact ⟨names, fun _ h => h, by simpa [refsLoop] using hl, fun ss h => by simpa using hc ss h⟩
    | cons s st => simp [refsLoop] at hfl
  | succ k ih =>
    intro stack names frs hfl hl hc
    cases stack with
    | nil => exact ⟨names, fun _ h => h, by simpa [refsLoop] using hl, fun ss h => by simpa using hc ss h⟩
    | cons s st =>
      rw [refsLoop] at hfl ⊢
      simp only at hfl ⊢
      have hfl' := (Bool.or_eq_false_iff.mp hfl).1
      have hmono := refsInner_names_mono doc (getSpreads s).1 names frs []
      obtain ⟨namesF, h1, h2, h3⟩ := ih _ _ _ hfl'
        (by
          intro n hn f hf
          by_cases hin : n ∈ names
          · exact refsInner_frs_mono doc _ names frs [] f (hl n hin f hf)
          · exact refsInner_new_frs doc _ names frs [] n hn hin f hf)
        (by
          intro ss hss
          have old : (ss ∈ s :: st ∨ Done names ss) → ss ∈ (refsInner doc (getSpreads s).1 names frs []).2.2.reverse ++ st ∨
              Done (refsInner doc (getSpreads s).1 names frs []).1 ss := by
            rintro (h | h)
            · rcases List.mem_cons.mp h with rfl | h'
              · exact Or.inr (fun sp hsp n hn => refsInner_names_sps doc _ names frs [] sp hsp n hn)
              · exact Or.inl (List.mem_append.mpr (Or.inr h'))
            · exact Or.inr (fun sp hsp n hn => hmono n (h sp hsp n hn))
          rcases hss with rfl | ⟨n, hn, g, hg, hk⟩
          · exact old (hc _ (Or.inl rfl))
          · by_cases hin : n ∈ names
            · exact old (hc ss (Or.inr ⟨n, hin, g, hg, hk⟩))
            · exact Or.inl (List.mem_append.mpr (Or.inl (List.mem_reverse.mpr
                (refsInner_new_sets doc _ names frs [] n hn hin g ss hg hk))))
          )
      exact ⟨namesF, fun n hn => h1 n (hmono n hn), h2, h3⟩

/-- **`get_recursively_referenced_fragments` is reachability.**  For an operation (or any node) with selection set
`ss`: a fragment definition is in the returned list iff it is what `get_fragment` returns for a name reachable from
`ss` through spreads. -/
theorem getRecFrags_mem_iff (doc op ss : ATree) (hss : op.kid "selection_set" = some ss) (f : ATree) :
    f ∈ (getRecFrags doc op).1 ↔ ∃ n, Reach doc ss n ∧ getFragment doc n = some f := by
  have hfl := recFrags_fuel_enough doc op
  unfold getRecFrags at hfl ⊢
  rw [hss] at hfl ⊢
  simp only at hfl ⊢
  constructor
  · intro h
    exact refsLoop_sound doc ss _ [ss] [] [] (by intro s hs; simp at hs; exact Or.inl hs) (by simp) (by simp) f h
  · rintro ⟨n, hr, hg⟩
    obtain ⟨namesF, _, h2, h3⟩ := refsLoop_complete doc ss _ [ss] [] [] hfl (by intro n hn; simp at hn)
      (by
        intro s hs
        rcases hs with rfl | ⟨n, hn, _⟩
        · exact Or.inl (by simp)
        · simp at hn)
    have hall : ∀ n, Reach doc ss n → n ∈ namesF := by
      intro n hr
      induction hr with
      | base hsp hn => exact h3 ss (Or.inl rfl) _ hsp _ hn
      | step _ hg hk hsp hn ihm => exact h3 _ (Or.inr ⟨_, ihm, _, hg, hk⟩) _ hsp _ hn
    exact h2 n (hall n hr) f hg

theorem getRecFrags_no_selection_set (doc op : ATree) (hss : op.kid "selection_set" = none) :
    (getRecFrags doc op).1 = [] := by
  unfold getRecFrags; rw [hss]

end Gql.Validation.Rules
