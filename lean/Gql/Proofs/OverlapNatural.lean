import Gql.Proofs.OverlapArgs
/-! C14: `natural_comparison_key` induces a linear order on names, so `sort_value_node` is
canonical (`LinOrd naturalLe`, the hypothesis of `sameArguments_iff`). -/
namespace Gql.Exec
open Overlap

structure LawfulCmp {α : Type} (c : α → α → Ordering) : Prop where
  eq_iff : ∀ a b, c a b = .eq ↔ a = b
  swap_lt : ∀ a b, c a b = .lt ↔ c b a = .gt
  lt_trans : ∀ a b d, c a b = .lt → c b d = .lt → c a d = .lt

theorem char_eq_of_not_lt {a b : Char} (h1 : ¬ a < b) (h2 : ¬ b < a) : a = b :=
  Char.le_antisymm (Char.not_lt.1 h2) (Char.not_lt.1 h1)

theorem cmpChars_eq_iff : ∀ (a b : List Char), cmpChars a b = .eq ↔ a = b
  | [], [] => by simp [cmpChars]
  | [], _ :: _ => by simp [cmpChars]
  | _ :: _, [] => by simp [cmpChars]
  | a :: as, b :: bs => by
    simp only [cmpChars]
    by_cases h1 : a < b
    · have : a ≠ b := fun e => by subst e; exact Char.lt_irrefl _ h1
      simp [h1, this]
    · by_cases h2 : b < a
      · have : a ≠ b := fun e => by subst e; exact Char.lt_irrefl _ h2
        simp [h1, h2, this]
      · have e := char_eq_of_not_lt h1 h2
        simp [h1, h2, e, cmpChars_eq_iff as bs]

theorem cmpChars_swap : ∀ (a b : List Char), cmpChars a b = .lt ↔ cmpChars b a = .gt
  | [], [] => by simp [cmpChars]
  | [], _ :: _ => by simp [cmpChars]
  | _ :: _, [] => by simp [cmpChars]
  | a :: as, b :: bs => by
    simp only [cmpChars]
    by_cases h1 : a < b
    · have h2 : ¬ b < a := Char.lt_asymm h1
      simp [h1, h2]
    · by_cases h2 : b < a
      · simp [h1, h2]
      · simp [h1, h2, cmpChars_swap as bs]

theorem cmpChars_lt_trans : ∀ (a b d : List Char), cmpChars a b = .lt → cmpChars b d = .lt →
    cmpChars a d = .lt
  | [], [], _, h, _ => by simp [cmpChars] at h
  | [], _ :: _, [], _, h => by simp [cmpChars] at h
  | [], _ :: _, _ :: _, _, _ => by simp [cmpChars]
  | _ :: _, [], _, h, _ => by simp [cmpChars] at h
  | _ :: _, _ :: _, [], _, h => by simp [cmpChars] at h
  | a :: as, b :: bs, d :: ds, h1, h2 => by
    simp only [cmpChars] at h1 h2 ⊢
    by_cases ab : a < b
    · by_cases bd : b < d
      · simp [Char.lt_trans ab bd]
      · by_cases db : d < b
        · simp [bd, db] at h2
        · have e := char_eq_of_not_lt bd db
          subst e
          simp [ab]
    · by_cases ba : b < a
      · simp [ab, ba] at h1
      · have e := char_eq_of_not_lt ab ba
        subst e
        simp only [ab, ba, if_false] at h1
        by_cases ad : a < d
        · simp [ad]
        · by_cases da : d < a
          · simp [ad, da] at h2
          · simp only [ad, da, if_false] at h2 ⊢
            exact cmpChars_lt_trans as bs ds h1 h2

theorem cmpChars_lawful : LawfulCmp cmpChars :=
  ⟨cmpChars_eq_iff, cmpChars_swap, cmpChars_lt_trans⟩

/-- comparison of two runs at the same position of two natural keys -/
def cmpElem (dig : Bool) (a b : List Char) : Ordering :=
  if dig then
    (if digitsVal a < digitsVal b then .lt else if digitsVal b < digitsVal a then .gt
     else cmpChars a b)
  else cmpChars a b

theorem cmpElem_lawful (dig : Bool) : LawfulCmp (cmpElem dig) := by
  cases dig with
  | false =>
    have : cmpElem false = cmpChars := by funext a b; simp [cmpElem]
    rw [this]; exact cmpChars_lawful
  | true =>
    refine ⟨fun a b => ?_, fun a b => ?_, fun a b d h1 h2 => ?_⟩
    · simp only [cmpElem, if_true]
      by_cases h1 : digitsVal a < digitsVal b
      · have : a ≠ b := fun e => by subst e; omega
        simp [h1, this]
      · by_cases h2 : digitsVal b < digitsVal a
        · have : a ≠ b := fun e => by subst e; omega
          simp [h1, h2, this]
        · simp [h1, h2, cmpChars_eq_iff]
    · simp only [cmpElem, if_true]
      by_cases h1 : digitsVal a < digitsVal b
      · have h2 : ¬ digitsVal b < digitsVal a := by omega
        simp [h1, h2]
      · by_cases h2 : digitsVal b < digitsVal a
        · simp [h1, h2]
        · simp [h1, h2, cmpChars_swap]
    · simp only [cmpElem, if_true] at h1 h2 ⊢
      by_cases ab : digitsVal a < digitsVal b
      · by_cases bd : digitsVal b < digitsVal d
        · have : digitsVal a < digitsVal d := by omega
          simp [this]
        · by_cases db : digitsVal d < digitsVal b
          · simp [bd, db] at h2
          · have : digitsVal a < digitsVal d := by omega
            simp [this]
      · by_cases ba : digitsVal b < digitsVal a
        · simp [ab, ba] at h1
        · simp only [ab, ba, if_false] at h1
          by_cases bd : digitsVal b < digitsVal d
          · have : digitsVal a < digitsVal d := by omega
            simp [this]
          · by_cases db : digitsVal d < digitsVal b
            · simp [bd, db] at h2
            · simp only [bd, db, if_false] at h2
              have x1 : ¬ digitsVal a < digitsVal d := by omega
              have x2 : ¬ digitsVal d < digitsVal a := by omega
              simp only [x1, x2, if_false]
              exact cmpChars_lt_trans a b d h1 h2

theorem cmpRuns_cons (dig : Bool) (a b : List Char) (as bs : List (List Char)) :
    cmpRuns dig (a :: as) (b :: bs) =
      match cmpElem dig a b with
      | .eq => cmpRuns (!dig) as bs
      | o => o := by
  cases dig <;> simp [cmpRuns, cmpElem] <;> rfl

theorem cmpRuns_eq_iff : ∀ (xs ys : List (List Char)) (dig : Bool),
    cmpRuns dig xs ys = .eq ↔ xs = ys
  | [], [], dig => by simp [cmpRuns]
  | [], _ :: _, dig => by simp [cmpRuns]
  | _ :: _, [], dig => by simp [cmpRuns]
  | a :: as, b :: bs, dig => by
    rw [cmpRuns_cons]
    have hl := cmpElem_lawful dig
    cases hc : cmpElem dig a b with
    | eq =>
      have := (hl.eq_iff a b).1 hc
      simp [this, cmpRuns_eq_iff as bs (!dig)]
    | lt =>
      have : a ≠ b := fun e => by rw [(hl.eq_iff a b).2 e] at hc; cases hc
      simp [this]
    | gt =>
      have : a ≠ b := fun e => by rw [(hl.eq_iff a b).2 e] at hc; cases hc
      simp [this]

theorem cmpElem_gt_of_lt {dig : Bool} {a b : List Char} (h : cmpElem dig a b = .lt) :
    cmpElem dig b a = .gt := ((cmpElem_lawful dig).swap_lt a b).1 h

theorem cmpElem_lt_of_gt {dig : Bool} {a b : List Char} (h : cmpElem dig a b = .gt) :
    cmpElem dig b a = .lt := ((cmpElem_lawful dig).swap_lt b a).2 h

theorem cmpElem_refl (dig : Bool) (a : List Char) : cmpElem dig a a = .eq :=
  ((cmpElem_lawful dig).eq_iff a a).2 rfl

theorem cmpRuns_swap : ∀ (xs ys : List (List Char)) (dig : Bool),
    cmpRuns dig xs ys = .lt ↔ cmpRuns dig ys xs = .gt
  | [], [], dig => by simp [cmpRuns]
  | [], _ :: _, dig => by simp [cmpRuns]
  | _ :: _, [], dig => by simp [cmpRuns]
  | a :: as, b :: bs, dig => by
    rw [cmpRuns_cons, cmpRuns_cons]
    cases hc : cmpElem dig a b with
    | eq =>
      have e := ((cmpElem_lawful dig).eq_iff a b).1 hc
      subst e
      simp [cmpElem_refl, cmpRuns_swap as bs (!dig)]
    | lt => simp [cmpElem_gt_of_lt hc]
    | gt => simp [cmpElem_lt_of_gt hc]

theorem cmpRuns_lt_trans : ∀ (xs ys zs : List (List Char)) (dig : Bool),
    cmpRuns dig xs ys = .lt → cmpRuns dig ys zs = .lt → cmpRuns dig xs zs = .lt
  | [], [], _, dig, h, _ => by simp [cmpRuns] at h
  | [], _ :: _, [], dig, _, h => by simp [cmpRuns] at h
  | [], _ :: _, _ :: _, dig, _, _ => by simp [cmpRuns]
  | _ :: _, [], _, dig, h, _ => by simp [cmpRuns] at h
  | _ :: _, _ :: _, [], dig, _, h => by simp [cmpRuns] at h
  | a :: as, b :: bs, d :: ds, dig, h1, h2 => by
    rw [cmpRuns_cons] at h1 h2 ⊢
    have hl := cmpElem_lawful dig
    cases hab : cmpElem dig a b with
    | gt => simp [hab] at h1
    | lt =>
      cases hbd : cmpElem dig b d with
      | gt => simp [hbd] at h2
      | lt => simp [hl.lt_trans a b d hab hbd]
      | eq =>
        have e := (hl.eq_iff b d).1 hbd
        subst e
        simp [hab]
    | eq =>
      have e := (hl.eq_iff a b).1 hab
      subst e
      simp only [hab] at h1
      cases hbd : cmpElem dig a d with
      | gt => simp [hbd] at h2
      | lt => simp
      | eq =>
        simp only [hbd] at h2 ⊢
        exact cmpRuns_lt_trans as bs ds (!dig) h1 h2

/-! ### the key determines the name -/

theorem splitRuns_flatten : ∀ (cs : List Char) (dig : Bool) (cur : List Char),
    (splitRuns cs dig cur).flatten = cur.reverse ++ cs
  | [], dig, cur => by cases dig <;> simp [splitRuns]
  | c :: cs, dig, cur => by
    simp only [splitRuns]
    split
    · rw [splitRuns_flatten cs dig (c :: cur)]; simp
    · simp [splitRuns_flatten cs (!dig) [c]]

def naturalKey (a : String) : List (List Char) := splitRuns a.toList false []

theorem naturalKey_inj {a b : String} (h : naturalKey a = naturalKey b) : a = b := by
  have h1 := congrArg List.flatten h
  simp only [naturalKey, splitRuns_flatten, List.reverse_nil, List.nil_append] at h1
  exact String.toList_inj.mp h1

/-- `natural_comparison_key` orders names linearly. -/
theorem naturalLe_linOrd : LinOrd naturalLe := by
  have hdef : ∀ a b, naturalLe a b = (cmpRuns false (naturalKey a) (naturalKey b) != .gt) :=
    fun _ _ => rfl
  refine ⟨fun a b => ?_, fun a b c h1 h2 => ?_, fun a b h1 h2 => ?_⟩
  · rw [hdef, hdef]
    cases hc : cmpRuns false (naturalKey a) (naturalKey b) with
    | lt => simp
    | eq => simp
    | gt =>
      have := (cmpRuns_swap (naturalKey b) (naturalKey a) false).2 hc
      simp [this]
  · rw [hdef] at h1 h2 ⊢
    cases hab : cmpRuns false (naturalKey a) (naturalKey b) with
    | gt => simp [hab] at h1
    | eq =>
      have e := (cmpRuns_eq_iff _ _ _).1 hab
      rw [e]; exact h2
    | lt =>
      cases hbc : cmpRuns false (naturalKey b) (naturalKey c) with
      | gt => simp [hbc] at h2
      | eq =>
        have e := (cmpRuns_eq_iff _ _ _).1 hbc
        rw [← e, hab]; simp
      | lt => rw [cmpRuns_lt_trans _ _ _ _ hab hbc]; simp
  · rw [hdef] at h1 h2
    cases hab : cmpRuns false (naturalKey a) (naturalKey b) with
    | gt => simp [hab] at h1
    | eq => exact naturalKey_inj ((cmpRuns_eq_iff _ _ _).1 hab)
    | lt =>
      have := (cmpRuns_swap _ _ _).1 hab
      simp [this] at h2

end Gql.Exec
