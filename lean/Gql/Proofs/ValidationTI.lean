import Gql.Proofs.ValidationLimit
/-!
Lemmas for C12-3 (`typeinfo_balanced`): under `TypeInfoVisitor`, for every inner visitor (skipping or
not), after a sub-traversal that was not stopped by BREAK every TypeInfo stack is what it was before,
and every register is unchanged or `None` — provided the enter/leave table is balanced (checked by
`decide` on the table generated from type_info.py).
-/
namespace Gql.Validation
variable {τ σ ε : Type}

/-- every kind pops each stack as often as it pushes it -/
def TITable.Balanced (tbl : TITable) : Prop := ∀ row ∈ tbl, ∀ s, row.pushes.count s = row.pops.count s

/-- decidable form of `Balanced` -/
def TITable.balancedB (tbl : TITable) : Bool :=
  tbl.all (fun row => (row.pushes ++ row.pops).all (fun s => row.pushes.count s == row.pops.count s))

theorem TITable.balanced_of_balancedB (tbl : TITable) (h : tbl.balancedB = true) : tbl.Balanced := by
  intro row hrow s
  have h1 := List.all_eq_true.mp h row hrow
  by_cases hs : s ∈ row.pushes ++ row.pops
  · have := List.all_eq_true.mp h1 s hs
    simpa using this
  · have h2 : s ∉ row.pushes := fun h => hs (List.mem_append_left _ h)
    have h3 : s ∉ row.pops := fun h => hs (List.mem_append_right _ h)
    rw [List.count_eq_zero_of_not_mem h2, List.count_eq_zero_of_not_mem h3]

/-- every register a kind assigns on enter is reset to `None` by its leave -/
def TITable.RegsReset (tbl : TITable) : Prop := ∀ row ∈ tbl, ∀ r ∈ row.sets, r ∈ row.resets

theorem TITable.row_mem (tbl : TITable) (k : String) (row : TIRow) (h : tbl.row k = some row) : row ∈ tbl :=
  List.mem_of_find?_eq_some h

namespace TI

theorem foldl_setReg_stacks (rs : List String) (f : String → Option τ) (ti : TI τ) :
    (rs.foldl (fun acc r => acc.setReg r (f r)) ti).stacks = ti.stacks := by
  induction rs generalizing ti with
  | nil => rfl
  | cons r rs ih => simp only [List.foldl_cons]; rw [ih]; rfl

theorem foldl_push_regs (ps : List String) (f : String → Option τ) (ti : TI τ) :
    (ps.foldl (fun acc s => acc.push s (f s)) ti).regs = ti.regs := by
  induction ps generalizing ti with
  | nil => rfl
  | cons p ps ih => simp only [List.foldl_cons]; rw [ih]; rfl

theorem foldl_pop_regs (ps : List String) (ti : TI τ) :
    (ps.foldl (fun acc s => acc.pop s) ti).regs = ti.regs := by
  induction ps generalizing ti with
  | nil => rfl
  | cons p ps ih => simp only [List.foldl_cons]; rw [ih]; rfl

theorem foldl_push_stack (ps : List String) (f : String → Option τ) (ti : TI τ) (s : String) :
    ∃ pre, (ps.foldl (fun acc s => acc.push s (f s)) ti).stacks s = pre ++ ti.stacks s ∧ pre.length = ps.count s := by
  induction ps generalizing ti with
  | nil => exact ⟨[], rfl, rfl⟩
  | cons p ps ih =>
    simp only [List.foldl_cons]
    obtain ⟨pre, h1, h2⟩ := ih (ti.push p (f p))
    by_cases hp : p = s
    · subst hp
      refine ⟨pre ++ [f p], ?_, ?_⟩
      · rw [h1]; simp [push]
      · simp [h2]
    · refine ⟨pre, ?_, ?_⟩
      · rw [h1]; simp [push, Ne.symm hp]
      · rw [h2, List.count_cons]; simp [hp]

theorem foldl_pop_stack (ps : List String) (ti : TI τ) (s : String) :
    (ps.foldl (fun acc s => acc.pop s) ti).stacks s = (ti.stacks s).drop (ps.count s) := by
  induction ps generalizing ti with
  | nil => simp
  | cons p ps ih =>
    simp only [List.foldl_cons]
    rw [ih]
    by_cases hp : p = s
    · subst hp
      simp [pop, List.drop_tail]
    · simp [pop, Ne.symm hp, hp]

theorem foldl_setReg_reg (rs : List String) (f : String → Option τ) (ti : TI τ) (r : String) :
    (rs.foldl (fun acc r => acc.setReg r (f r)) ti).regs r = if r ∈ rs then f r else ti.regs r := by
  induction rs generalizing ti with
  | nil => simp
  | cons q rs ih =>
    simp only [List.foldl_cons]
    rw [ih]
    by_cases hq : r = q
    · subst hq
      by_cases hr : r ∈ rs <;> simp [hr, setReg]
    · by_cases hr : r ∈ rs <;> simp [hr, hq, setReg]

/-- the stacks after `leave` depend only on the stacks before it -/
theorem leave_stacks_congr (tbl : TITable) (i : Info) (a b : TI τ) (h : a.stacks = b.stacks) :
    (a.leave tbl i).stacks = (b.leave tbl i).stacks := by
  unfold leave
  cases tbl.row i.kind with
  | none => exact h
  | some row =>
    funext s
    simp only
    rw [foldl_pop_stack, foldl_pop_stack, foldl_setReg_stacks, foldl_setReg_stacks, h]

/-- `leave` undoes on the stacks what `enter` did (balanced table) -/
theorem leave_enter_stacks (tbl : TITable) (hb : tbl.Balanced) (L : Lookups τ) (ti : TI τ) (i : Info) :
    ((ti.enter tbl L i).leave tbl i).stacks = ti.stacks := by
  unfold leave enter
  cases hrow : tbl.row i.kind with
  | none => simp
  | some row =>
    funext s
    simp only
    rw [foldl_pop_stack, foldl_setReg_stacks]
    obtain ⟨pre, h1, h2⟩ := foldl_push_stack row.pushes (fun s => L.stackVal s i ti)
      (row.sets.foldl (fun acc reg => acc.setReg reg (L.regVal reg i ti)) ti) s
    rw [h1, foldl_setReg_stacks]
    rw [← hb row (TITable.row_mem tbl _ _ hrow) s, ← h2]
    simp

theorem enter_reg (tbl : TITable) (L : Lookups τ) (ti : TI τ) (i : Info) (r : String) :
    (ti.enter tbl L i).regs r =
      match tbl.row i.kind with
      | none => ti.regs r
      | some row => if r ∈ row.sets then L.regVal r i ti else ti.regs r := by
  unfold enter
  cases tbl.row i.kind with
  | none => rfl
  | some row => simp only; rw [foldl_push_regs, foldl_setReg_reg]

theorem leave_reg (tbl : TITable) (ti : TI τ) (i : Info) (r : String) :
    (ti.leave tbl i).regs r =
      match tbl.row i.kind with
      | none => ti.regs r
      | some row => if r ∈ row.resets then none else ti.regs r := by
  unfold leave
  cases tbl.row i.kind with
  | none => rfl
  | some row => simp only; rw [foldl_pop_regs, foldl_setReg_reg]

end TI

/-- Statement of balance for one sub-traversal: stacks restored, registers unchanged or `None`. -/
def Restored (before after : TI τ) : Prop :=
  after.stacks = before.stacks ∧ ∀ r, after.regs r = before.regs r ∨ after.regs r = none

theorem Restored.refl (ti : TI τ) : Restored ti ti := ⟨rfl, fun _ => Or.inl rfl⟩

theorem Restored.trans {a b c : TI τ} (h1 : Restored a b) (h2 : Restored b c) : Restored a c := by
  refine ⟨h2.1.trans h1.1, fun r => ?_⟩
  rcases h2.2 r with h | h
  · rcases h1.2 r with h' | h'
    · exact Or.inl (h.trans h')
    · exact Or.inr (h.trans h')
  · exact Or.inr h

/-- enter, anything restored in between, leave: restored -/
theorem restored_around (tbl : TITable) (hb : tbl.Balanced) (hr : tbl.RegsReset) (L : Lookups τ) (ti mid : TI τ) (i : Info)
    (h : Restored (ti.enter tbl L i) mid) : Restored ti (mid.leave tbl i) := by
  constructor
  · rw [TI.leave_stacks_congr tbl i mid (ti.enter tbl L i) h.1]
    exact TI.leave_enter_stacks tbl hb L ti i
  · intro r
    rw [TI.leave_reg]
    have he := TI.enter_reg tbl L ti i r
    cases hrow : tbl.row i.kind with
    | none =>
      rw [hrow] at he
      simp only
      rcases h.2 r with h' | h'
      · left; rw [h', he]
      · right; exact h'
    | some row =>
      rw [hrow] at he
      simp only at he ⊢
      by_cases hres : r ∈ row.resets
      · right; simp [hres]
      · have hset : r ∉ row.sets := fun hs => hres (hr row (TITable.row_mem tbl _ _ hrow) r hs)
        simp only [hres, if_false]
        simp only [hset, if_false] at he
        rcases h.2 r with h' | h'
        · left; rw [h', he]
        · right; exact h'

/-- **TypeInfo is balanced** over every sub-traversal under `TypeInfoVisitor`, whatever the inner visitor
does (descend, SKIP); nothing is claimed when the traversal was stopped (BREAK / abort). -/
theorem ti_balanced (tbl : TITable) (hb : tbl.Balanced) (hr : tbl.RegsReset) (L : Lookups τ) {σ' : Type} (v : V τ σ') :
    (∀ t (s : TI τ × σ'), (run0 (tiVisitor (realDriver tbl L) v) s t).2 = false →
      Restored s.1 (run0 (tiVisitor (realDriver tbl L) v) s t).1.1) ∧
    (∀ ts (s : TI τ × σ'), (run0List (tiVisitor (realDriver tbl L) v) s ts).2 = false →
      Restored s.1 (run0List (tiVisitor (realDriver tbl L) v) s ts).1.1) := by
  apply Tree.induct
  · intro i cs ih s
    rw [run0_node_always _ (fun _ _ => rfl) (fun _ _ => rfl)]
    obtain ⟨ti, st⟩ := s
    cases hc : v.hEnter st i.kind with
    | false =>
      rw [tiVisitor_enter_neg _ _ _ _ hc]
      dsimp only
      intro hstop
      split at hstop
      · simp at hstop
      · rename_i hns
        have hch := ih _ (by simpa using hns)
        simp only [Bool.not_eq_true] at hns
        simp only [hns, Bool.false_eq_true, if_false]
        have : ((tiVisitor (realDriver tbl L) v).leave (run0List (tiVisitor (realDriver tbl L) v) ((realDriver tbl L).enter ti i, st) cs).1 i).2.1 =
            (run0List (tiVisitor (realDriver tbl L) v) ((realDriver tbl L).enter ti i, st) cs).1.1.leave tbl i := by
          simp only [tiVisitor, realDriver]
        rw [this]
        exact restored_around tbl hb hr L ti _ i hch
    | true =>
      rw [tiVisitor_enter_pos _ _ _ _ hc]
      dsimp only
      generalize v.enter st ((realDriver tbl L).enter ti i) i = r
      obtain ⟨a, st1⟩ := r
      cases a with
      | brk => intro hstop; simp at hstop
      | skip =>
        intro _
        simp only [realDriver]
        exact restored_around tbl hb hr L ti _ i (Restored.refl _)
      | idle =>
        dsimp only
        simp only [if_true]
        intro hstop
        split at hstop
        · simp at hstop
        · rename_i hns
          have hch := ih _ (by simpa using hns)
          simp only [Bool.not_eq_true] at hns
          simp only [hns, Bool.false_eq_true, if_false]
          have : ((tiVisitor (realDriver tbl L) v).leave (run0List (tiVisitor (realDriver tbl L) v) ((realDriver tbl L).enter ti i, st1) cs).1 i).2.1 =
              (run0List (tiVisitor (realDriver tbl L) v) ((realDriver tbl L).enter ti i, st1) cs).1.1.leave tbl i := by
            simp only [tiVisitor, realDriver]
          rw [this]
          exact restored_around tbl hb hr L ti _ i hch
  · intro s _
    simp only [run0List]
    exact Restored.refl _
  · intro t ts iht ihts s
    rw [run0List]
    intro hstop
    split at hstop
    · simp at hstop
    · rename_i hns
      have h1 := iht s (by simpa using hns)
      simp only [Bool.not_eq_true] at hns
      simp only [hns, Bool.false_eq_true, if_false] at hstop ⊢
      exact Restored.trans h1 (ihts _ hstop)

end Gql.Validation
