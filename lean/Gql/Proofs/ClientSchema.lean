import Gql.Types.WFSchema
import Gql.Proofs.Introspection
/-! Lemmas for C18: `buildClient` inverts `introspect` on well-formed schemas. -/
namespace Gql.Types
open Json

/-! ### generic -/

theorem mapMOut_map_ok {α β γ : Type} (f : β → R γ) (g : α → β) (h : α → γ) (xs : List α)
    (H : ∀ x ∈ xs, f (g x) = .ok (h x)) : mapMOut f (xs.map g) = .ok (xs.map h) := by
  induction xs with
  | nil => rfl
  | cons x xs ih =>
    have hx := H x (by simp)
    have hr := ih (fun y hy => H y (by simp [hy]))
    simp [mapMOut, hx, hr]

theorem mapMOut_map_id {α β : Type} (f : β → R α) (g : α → β) (xs : List α)
    (H : ∀ x ∈ xs, f (g x) = .ok x) : mapMOut f (xs.map g) = .ok xs := by
  have := mapMOut_map_ok f g id xs (by simpa using H)
  simpa using this

theorem nodupNames_cons {n : List Nat} {ns : List (List Nat)} :
    nodupNames (n :: ns) = true ↔ n ∉ ns ∧ nodupNames ns = true := by
  simp [nodupNames]

theorem dictInsert_not_mem {α : Type} (key : α → List Nat) (a : α) (acc : List α)
    (h : ∀ b ∈ acc, key b ≠ key a) : dictInsert key a acc = acc ++ [a] := by
  induction acc with
  | nil => rfl
  | cons b bs ih =>
    have hb : key b ≠ key a := h b (by simp)
    simp [dictInsert, hb, ih (fun c hc => h c (by simp [hc]))]

theorem dictFold_nodup {α : Type} (key : α → List Nat) (xs : List α) :
    ∀ acc : List α, (∀ b ∈ acc, ∀ x ∈ xs, key b ≠ key x) → nodupNames (xs.map key) = true →
      xs.foldl (fun acc a => dictInsert key a acc) acc = acc ++ xs := by
  induction xs with
  | nil => intro acc _ _; simp
  | cons x xs ih =>
    intro acc hacc hnd
    rw [List.map_cons, nodupNames_cons] at hnd
    have h1 : dictInsert key x acc = acc ++ [x] :=
      dictInsert_not_mem key x acc (fun b hb => hacc b hb x (by simp))
    simp only [List.foldl_cons, h1]
    rw [ih (acc ++ [x]) _ hnd.2]
    · simp
    · intro b hb y hy
      rcases List.mem_append.mp hb with hb | hb
      · exact hacc b hb y (by simp [hy])
      · have : b = x := by simpa using hb
        subst this
        intro heq
        exact hnd.1 (by rw [heq]; exact List.mem_map_of_mem hy)

theorem dictOfList_nodup {α : Type} (key : α → List Nat) (xs : List α)
    (h : nodupNames (xs.map key) = true) : dictOfList key xs = xs := by
  unfold dictOfList
  have := dictFold_nodup key xs [] (by simp) h
  simpa using this

/-! ### type references -/

theorem kindName_ne_list (k : Kind) : k.name ≠ cLIST := by cases k <;> decide
theorem kindName_ne_nonNull (k : Kind) : k.name ≠ cNON_NULL := by cases k <;> decide

theorem refJson_truthy (d : Nat) (r : TypeRef) : (refJson d r).truthy = true := by
  cases d <;> cases r <;> simp [refJson, Json.truthy]

theorem getNamedType_named (km : KindMap) (n : List Nat) (k : Kind) (rest : List (Key × Json))
    (hn : n.isEmpty = false) (hk : km.lookup n = some k) :
    getNamedType km (obj ((.kind, str k.name) :: (.name, str n) :: rest)) = .ok (.named n k) := by
  simp [getNamedType, Json.get?, List.lookup, hn, hk]

theorem getType_refJson (km : KindMap) (r : TypeRef) :
    ∀ (d fuel : Nat), r.depth ≤ d → r.depth < fuel → r.wellWrapped = true →
      r.namedName.isEmpty = false → km.lookup r.namedName = some r.namedKind →
      getType km fuel (refJson d r) = .ok r := by
  induction r with
  | named n k =>
    intro d fuel _ hf _ hn hk
    cases fuel with
    | zero => simp [TypeRef.depth] at hf
    | succ fuel =>
      have h1 := kindName_ne_list k
      have h2 := kindName_ne_nonNull k
      cases d <;>
        simp [refJson, getType, Json.get?, List.lookup, h1, h2] <;>
        exact getNamedType_named km n k _ hn hk
  | list r ih =>
    intro d fuel hd hf hw hn hk
    cases fuel with
    | zero => simp at hf
    | succ fuel =>
      cases d with
      | zero => simp [TypeRef.depth] at hd
      | succ d =>
        have hrec := ih d fuel (by simp [TypeRef.depth] at hd; omega) (by simp [TypeRef.depth] at hf; omega)
          (by simpa [TypeRef.wellWrapped] using hw) hn hk
        simp [refJson, getType, Json.get?, List.lookup, refJson_truthy, hrec]
  | nonNull r ih =>
    intro d fuel hd hf hw hn hk
    cases fuel with
    | zero => simp at hf
    | succ fuel =>
      cases d with
      | zero => simp [TypeRef.depth] at hd
      | succ d =>
        have hw' : r.isNonNull = false ∧ r.wellWrapped = true := by
          simpa [TypeRef.wellWrapped] using hw
        have hrec := ih d fuel (by simp [TypeRef.depth] at hd; omega) (by simp [TypeRef.depth] at hf; omega)
          hw'.2 hn hk
        have hne : cNON_NULL ≠ cLIST := by decide
        simp [refJson, getType, Json.get?, List.lookup, refJson_truthy, hrec, hne, hw'.1]

theorem getType_wfRef (km : KindMap) (d fuel : Nat) (r : TypeRef) (hlim : d < fuel)
    (h : wfRef km d r = true) : getType km fuel (refJson d r) = .ok r := by
  simp [wfRef] at h
  obtain ⟨⟨⟨h1, h2⟩, h3⟩, h4⟩ := h
  exact getType_refJson km r d fuel h1 (by omega) h2 (by simpa using h3) h4

theorem getTypeOfKind_wfNamedRef (km : KindMap) (d fuel : Nat) (want : Kind) (r : TypeRef) (hf : 0 < fuel)
    (h : wfNamedRef km want r = true) : getTypeOfKind km fuel want (refJson d r) = .ok r := by
  cases r with
  | named n k =>
    simp [wfNamedRef] at h
    obtain ⟨⟨hk, hn⟩, hl⟩ := h
    subst hk
    have := getType_refJson km (.named n k) d fuel (by simp [TypeRef.depth]) (by simpa [TypeRef.depth] using hf)
      rfl (by simpa [TypeRef.namedName] using hn) (by simpa [TypeRef.namedName, TypeRef.namedKind] using hl)
    simp [getTypeOfKind, this]
  | list r => simp [wfNamedRef] at h
  | nonNull r => simp [wfNamedRef] at h

/-! ### input values, fields, enum values -/

@[simp] theorem optStrOf_ofOptStr (x : Option (List Nat)) : optStrOf (ofOptStr x) = .ok x := by
  cases x <;> rfl

section
variable {V : Type} (env : ClientEnv V) (km : KindMap) (printV : V → List Nat)

theorem ivJson_full (d : Nat) (iv : InputValue V) :
    ivJson printV (Options.full d) iv = obj [(.name, str iv.name), (.description, ofOptStr iv.description),
      (.type, refJson d iv.type), (.defaultValue, ofOptStr (iv.default.map printV)),
      (.isDeprecated, Json.bool iv.deprecationReason.isSome), (.deprecationReason, ofOptStr iv.deprecationReason)] := by
  simp [ivJson, descPart]

theorem parseDefault_print (hpp : ∀ v, env.parseV (printV v) = .ok v) (x : Option V) :
    parseDefault env (ofOptStr (x.map printV)) = .ok x := by
  cases x with
  | none => rfl
  | some v => simp [ofOptStr, parseDefault, hpp]

theorem buildInputValue_ivJson (hpp : ∀ v, env.parseV (printV v) = .ok v) (d : Nat) (hlim : d < env.limit)
    (iv : InputValue V) (hwf : wfInputValue km d iv = true) :
    buildInputValue env km (ivJson printV (Options.full d) iv) = .ok iv := by
  simp [wfInputValue] at hwf
  obtain ⟨⟨_, hr⟩, hi⟩ := hwf
  have hty := getType_wfRef km d env.limit iv.type hlim hr
  have hdv := parseDefault_print env printV hpp iv.default
  rw [ivJson_full]
  simp [buildInputValue, index, dget, List.lookup, hty, hi, hdv, nameOf]

theorem checkNames_ok {α : Type} (name : α → List Nat) (xs : List α)
    (h : ∀ x ∈ xs, isName (name x) = true) : checkNames name xs = .ok () := by
  have : (xs.all fun x => isName (name x)) = true := by simpa using h
  simp [checkNames, this]

theorem buildInputValues_ivsJson (hpp : ∀ v, env.parseV (printV v) = .ok v) (d : Nat) (hlim : d < env.limit)
    (ivs : List (InputValue V)) (hwf : wfInputValues km d ivs = true) :
    buildInputValues env km (ivsJson printV (Options.full d) ivs) = .ok ivs := by
  simp [wfInputValues] at hwf
  obtain ⟨hall, hnd⟩ := hwf
  have hm : mapMOut (buildInputValue env km) (ivs.map (ivJson printV (Options.full d))) = .ok ivs :=
    mapMOut_map_id _ _ ivs (fun iv hiv => buildInputValue_ivJson env km printV hpp d hlim iv (hall iv hiv))
  have hd : dictOfList InputValue.name ivs = ivs := dictOfList_nodup _ ivs hnd
  have hc : checkNames InputValue.name ivs = .ok () :=
    checkNames_ok _ ivs (fun iv hiv => by have := hall iv hiv; simp [wfInputValue] at this; exact this.1.1)
  simp [buildInputValues, ivsJson, visibleInputs, items, hm, hd, hc]

theorem fieldJson_full (d : Nat) (f : Field V) :
    fieldJson printV (Options.full d) f = obj [(.name, str f.name), (.description, ofOptStr f.description),
      (.args, ivsJson printV (Options.full d) f.args), (.type, refJson d f.type),
      (.isDeprecated, Json.bool f.deprecationReason.isSome), (.deprecationReason, ofOptStr f.deprecationReason)] := by
  simp [fieldJson, descPart]

theorem ivsJson_ne_null (o : Options) (ivs : List (InputValue V)) : ivsJson printV o ivs ≠ null := by
  simp [ivsJson]

theorem buildField_fieldJson (hpp : ∀ v, env.parseV (printV v) = .ok v) (d : Nat) (hlim : d < env.limit)
    (f : Field V) (hwf : wfField km d f = true) :
    buildField env km (fieldJson printV (Options.full d) f) = .ok f := by
  simp [wfField] at hwf
  obtain ⟨⟨⟨_, hr⟩, ho⟩, ha⟩ := hwf
  have hty := getType_wfRef km d env.limit f.type hlim hr
  have hargs := buildInputValues_ivsJson env km printV hpp d hlim f.args ha
  rw [fieldJson_full]
  simp only [buildField, index, dget, List.lookup, key_beq]
  simp [hty, ho, nameOf]
  simp only [ivsJson] at hargs ⊢
  simp [hargs]

theorem enumValueJson_full (d : Nat) (e : EnumValue) :
    enumValueJson (Options.full d) e = obj [(.name, str e.name), (.description, ofOptStr e.description),
      (.isDeprecated, Json.bool e.deprecationReason.isSome), (.deprecationReason, ofOptStr e.deprecationReason)] := by
  simp [enumValueJson, descPart]

theorem buildEnumValue_enumValueJson (d : Nat) (e : EnumValue) :
    buildEnumValue (enumValueJson (Options.full d) e) = .ok e := by
  rw [enumValueJson_full]
  simp [buildEnumValue, index, dget, List.lookup, nameOf]

theorem typeJson_full (types : List (TypeDef V)) (d : Nat) (t : TypeDef V) :
    typeJson printV types (Options.full d) t = obj [(.kind, str t.kind.name), (.name, str t.name),
      (.description, ofOptStr t.description), (.specifiedByURL, ofOptStr t.specifiedByURL),
      (.isOneOf, if t.kind = .inputObject then Json.bool t.isOneOf else null),
      (.fields, if t.kind = .object ∨ t.kind = .interface then
          arr (t.fields.map (fieldJson printV (Options.full d))) else null),
      (.inputFields, if t.kind = .inputObject then ivsJson printV (Options.full d) t.inputFields else null),
      (.interfaces, if t.kind = .object ∨ t.kind = .interface then arr (t.interfaces.map (refJson d)) else null),
      (.enumValues, if t.kind = .enum then arr (t.enumValues.map (enumValueJson (Options.full d))) else null),
      (.possibleTypes,
        if t.kind = .union then arr (t.members.map (refJson d))
        else if t.kind = .interface then arr ((implementors types t.name).map (refJson d))
        else null)] := by
  simp [typeJson, descPart]

theorem kindOfName_name (k : Kind) : kindOfName k.name = some k := by cases k <;> decide

theorem isReserved_eq (n : List Nat) :
    isReserved env n = (env.reserved.find? fun r => r.name = n).isSome := by
  unfold isReserved
  induction env.reserved with
  | nil => rfl
  | cons r rs ih =>
    by_cases h : r.name = n <;> simp [List.find?, List.any, h, ih]

variable [DecidableEq V]

theorem eagerEntry_typeJson (types : List (TypeDef V)) (d : Nat) (t : TypeDef V)
    (hwf : wfType env km d t = true) :
    eagerEntry env (typeJson printV types (Options.full d) t)
      = .ok ⟨t.name, t.kind, typeJson printV types (Options.full d) t⟩ := by
  have hev : mapMOut (index .name) (t.enumValues.map (enumValueJson (Options.full d)))
      = .ok (t.enumValues.map fun e => str e.name) :=
    mapMOut_map_ok _ _ _ t.enumValues (fun e _ => by rw [enumValueJson_full]; simp [index, List.lookup])
  have hres := isReserved_eq env t.name
  unfold wfType at hwf
  rw [typeJson_full]
  cases hf : env.reserved.find? (fun r => r.name = t.name) with
  | some r =>
    rw [hf] at hwf hres
    simp at hwf hres
    obtain ⟨_, hk⟩ := hwf
    rcases hk with (hk | hk) | hk <;>
      simp [eagerEntry, index, List.lookup, Json.get?, kindOfName_name, nameOf, hres, hk]
  | none =>
    rw [hf] at hwf hres
    simp at hwf hres
    have hname : isName t.name = true := hwf.1.1.1.1.1.1.1
    cases hk : t.kind <;>
      simp [eagerEntry, index, List.lookup, Json.get?, kindOfName_name, nameOf, hres, hk, assertName, hname,
        items, hev, ivsJson]

theorem wrapThunk_ok {α : Type} (a : α) : wrapThunk (Out.ok a : R α) = .ok a := rfl

theorem buildTypeDef_typeJson (hpp : ∀ v, env.parseV (printV v) = .ok v) (types : List (TypeDef V)) (d : Nat)
    (hlim : d < env.limit) (t : TypeDef V)
    (hnr : (env.reserved.find? fun r => r.name = t.name) = none) (hwf : wfType env km d t = true) :
    buildTypeDef env km t.name t.kind (typeJson printV types (Options.full d) t) = .ok t := by
  unfold wfType at hwf
  rw [hnr] at hwf
  simp at hwf
  obtain ⟨⟨⟨⟨⟨⟨⟨_, hshape⟩, hfields⟩, hfnd⟩, hifaces⟩, hmembers⟩, hevnd⟩, hifs⟩ := hwf
  have hpos : 0 < env.limit := by omega
  have hfs : mapMOut (buildField env km) (t.fields.map (fieldJson printV (Options.full d))) = .ok t.fields :=
    mapMOut_map_id _ _ t.fields (fun f hf => buildField_fieldJson env km printV hpp d hlim f (hfields f hf))
  have hfd : dictOfList Field.name t.fields = t.fields := dictOfList_nodup _ _ hfnd
  have hfc : checkNames Field.name t.fields = .ok () :=
    checkNames_ok _ _ (fun f hf => by have := hfields f hf; simp [wfField] at this; exact this.1.1.1)
  have his : mapMOut (getTypeOfKind km env.limit .interface) (t.interfaces.map (refJson d)) = .ok t.interfaces :=
    mapMOut_map_id _ _ t.interfaces
      (fun r hr => getTypeOfKind_wfNamedRef km d env.limit .interface r hpos (hifaces r hr))
  have hms : mapMOut (getTypeOfKind km env.limit .object) (t.members.map (refJson d)) = .ok t.members :=
    mapMOut_map_id _ _ t.members
      (fun r hr => getTypeOfKind_wfNamedRef km d env.limit .object r hpos (hmembers r hr))
  have hevs : mapMOut buildEnumValue (t.enumValues.map (enumValueJson (Options.full d))) = .ok t.enumValues :=
    mapMOut_map_id _ _ t.enumValues (fun e _ => buildEnumValue_enumValueJson d e)
  have hevd : dictOfList EnumValue.name t.enumValues = t.enumValues := dictOfList_nodup _ _ hevnd
  have hinp := buildInputValues_ivsJson env km printV hpp d hlim t.inputFields hifs
  rw [typeJson_full]
  obtain ⟨kind, name, desc, url, fields, ifaces, members, evs, ifs, oneOf⟩ := t
  simp only at *
  cases kind <;>
    simp [wfShape] at hshape <;>
    simp [buildTypeDef, dget, List.lookup, buildInterfaces, buildFields, items, wrapThunk_ok, boolOf,
      hfs, hfd, hfc, his, hms, hevs, hevd, hinp, hshape]

theorem directiveJson_full (d : Nat) (x : Directive V) :
    directiveJson printV (Options.full d) x = obj [(.name, str x.name), (.description, ofOptStr x.description),
      (.isRepeatable, Json.bool x.isRepeatable), (.isDeprecated, Json.bool x.deprecationReason.isSome),
      (.deprecationReason, ofOptStr x.deprecationReason), (.locations, arr (x.locations.map str)),
      (.args, ivsJson printV (Options.full d) x.args)] := by
  simp [directiveJson, descPart]

theorem buildDirective_directiveJson (hpp : ∀ v, env.parseV (printV v) = .ok v) (d : Nat) (hlim : d < env.limit)
    (x : Directive V) (hwf : wfDirective env km d x = true) :
    buildDirective env km (directiveJson printV (Options.full d) x) = .ok x := by
  simp [wfDirective] at hwf
  obtain ⟨⟨hname, hlocs⟩, hargs⟩ := hwf
  have hargs' := hargs
  simp [wfInputValues] at hargs'
  obtain ⟨hall, hnd⟩ := hargs'
  have hm : mapMOut (buildInputValue env km) (x.args.map (ivJson printV (Options.full d))) = .ok x.args :=
    mapMOut_map_id _ _ x.args (fun iv hiv => buildInputValue_ivJson env km printV hpp d hlim iv (hall iv hiv))
  have hd : dictOfList InputValue.name x.args = x.args := dictOfList_nodup _ _ hnd
  have hc : checkNames InputValue.name x.args = .ok () :=
    checkNames_ok _ _ (fun iv hiv => by have := hall iv hiv; simp [wfInputValue] at this; exact this.1.1)
  have hl : mapMOut (buildLocation env) (x.locations.map str) = .ok x.locations :=
    mapMOut_map_id _ _ x.locations (fun l hl => by simp [buildLocation, hlocs l hl])
  rw [directiveJson_full]
  simp [buildDirective, index, dget, List.lookup, ivsJson, visibleInputs, items, nameOf, assertName, hname, hm, hd,
    hc, hl, boolOf]

theorem buildDirectives_ok (hpp : ∀ v, env.parseV (printV v) = .ok v) (d : Nat) (hlim : d < env.limit)
    (ds : List (Directive V)) (hwf : ∀ x ∈ ds, wfDirective env km d x = true) :
    buildDirectives env km (arr (ds.map (directiveJson printV (Options.full d)))) = .ok ds := by
  have hm : mapMOut (buildDirective env km) (ds.map (directiveJson printV (Options.full d))) = .ok ds :=
    mapMOut_map_id _ _ ds (fun x hx => buildDirective_directiveJson env km printV hpp d hlim x (hwf x hx))
  cases ds with
  | nil => simp [buildDirectives, Json.truthy]
  | cons x xs => simp [buildDirectives, Json.truthy, items] at hm ⊢; simpa [items] using hm

theorem buildRoot_rootJson (r : Option (List Nat × Kind)) (hpos : 0 < env.limit) (hwf : wfRoot km r = true) :
    buildRoot env km (rootJson r) = .ok r := by
  cases r with
  | none => rfl
  | some nk =>
    obtain ⟨n, k⟩ := nk
    simp [wfRoot] at hwf
    obtain ⟨⟨hk, hn⟩, hl⟩ := hwf
    subst hk
    obtain ⟨fuel, hfuel⟩ : ∃ f, env.limit = f + 1 := ⟨env.limit - 1, by omega⟩
    have h1 : Kind.object.name ≠ cLIST := by decide
    have h2 : Kind.object.name ≠ cNON_NULL := by decide
    simp [buildRoot, rootJson, getTypeOfKind, hfuel, getType, Json.get?, List.lookup, h1, h2, getNamedType, hn, hl]

theorem entryKind_of_wf (_types : List (TypeDef V)) (d : Nat) (t : TypeDef V) (j : Json)
    (hwf : wfType env km d t = true) : entryKind env ⟨t.name, t.kind, j⟩ = t.kind := by
  unfold wfType at hwf
  unfold entryKind
  cases hf : env.reserved.find? (fun r => r.name = t.name) with
  | none => simp [hf]
  | some r =>
    simp only [hf] at hwf ⊢
    simp at hwf
    rw [hwf.1]

theorem finishEntry_ok (hpp : ∀ v, env.parseV (printV v) = .ok v) (types : List (TypeDef V)) (d : Nat)
    (hlim : d < env.limit) (t : TypeDef V) (hwf : wfType env km d t = true) :
    finishEntry env km ⟨t.name, t.kind, typeJson printV types (Options.full d) t⟩ = .ok t := by
  unfold finishEntry
  cases hf : env.reserved.find? (fun r => r.name = t.name) with
  | none =>
    simp only [hf]
    exact buildTypeDef_typeJson env km printV hpp types d hlim t hf hwf
  | some r =>
    unfold wfType at hwf
    simp only [hf] at hwf ⊢
    simp at hwf
    rw [hwf.1]

theorem schemaJson_full (s : Schema V) (d : Nat) :
    schemaJson printV s (Options.full d) = obj [(.description, ofOptStr s.description),
      (.queryType, rootJson s.query), (.mutationType, rootJson s.mutation),
      (.subscriptionType, rootJson s.subscription),
      (.types, arr (s.types.map (typeJson printV s.types (Options.full d)))),
      (.directives, arr (s.directives.map (directiveJson printV (Options.full d))))] := by
  simp [schemaJson, visibleDirectives]

theorem client_roundtrip (hpp : ∀ v, env.parseV (printV v) = .ok v) (d : Nat) (s : Schema V)
    (hwf : wfSchema env d s = true) :
    buildClient env (introspect printV s (Options.full d)) = .ok s := by
  simp [wfSchema] at hwf
  obtain ⟨⟨⟨⟨⟨⟨hlim, hnd⟩, htypes⟩, hdirs⟩, hq⟩, hm⟩, hsub⟩ := hwf
  have hpos : 0 < env.limit := by omega
  let mk : TypeDef V → Entry := fun t => ⟨t.name, t.kind, typeJson printV s.types (Options.full d) t⟩
  have he : mapMOut (eagerEntry env) (s.types.map (typeJson printV s.types (Options.full d)))
      = .ok (s.types.map mk) :=
    mapMOut_map_ok _ _ mk s.types
      (fun t ht => eagerEntry_typeJson env (kindMapOf s.types) printV s.types d t (htypes t ht))
  have hdict : dictOfList Entry.name (s.types.map mk) = s.types.map mk :=
    dictOfList_nodup _ _ (by simpa [List.map_map, Function.comp_def, mk] using hnd)
  have hkm : (s.types.map mk).map (fun e => (e.name, entryKind env e)) = kindMapOf s.types := by
    simp only [List.map_map, kindMapOf]
    apply List.map_congr_left
    intro t ht
    simp [mk, entryKind_of_wf env (kindMapOf s.types) s.types d t _ (htypes t ht)]
  have hfin : mapMOut (finishEntry env (kindMapOf s.types)) (s.types.map mk) = .ok s.types :=
    mapMOut_map_id _ _ s.types
      (fun t ht => finishEntry_ok env (kindMapOf s.types) printV hpp s.types d hlim t (htypes t ht))
  have hds := buildDirectives_ok env (kindMapOf s.types) printV hpp d hlim s.directives hdirs
  have hrq := buildRoot_rootJson env (kindMapOf s.types) s.query hpos hq
  have hrm := buildRoot_rootJson env (kindMapOf s.types) s.mutation hpos hm
  have hrs := buildRoot_rootJson env (kindMapOf s.types) s.subscription hpos hsub
  simp [introspect, schemaJson_full, buildClient, Json.get?, List.lookup, index, dget, items,
    he, hdict, hkm, hfin, hds, hrq, hrm, hrs]

end

end Gql.Types
