/-
C02 — algebra of ordered grouped field sets: `appendGroup` / `mergeGroups` (spec) and
`addField` (implementation), used by the CollectFields refinement.
-/
import Gql.Exec.ImplExec
import Gql.Exec.SpecExec

namespace Gql.Exec.Refine
open Gql.Exec

abbrev SG := Spec.Groups

def keys (g : SG) : List Name := g.map (·.1)

/-- erase the allocation serials -/
def nodes (g : Impl.Groups) : SG := g.map (fun p => (p.1, p.2.map (·.node)))

theorem nodes_addField (g : Impl.Groups) (k : Name) (fd : Impl.FieldDetails) :
    nodes (Impl.addField g k fd) = Spec.appendGroup (nodes g) k [fd.node] := by
  induction g with
  | nil => simp [Impl.addField, Spec.appendGroup, nodes]
  | cons h t ih =>
    obtain ⟨k', fds⟩ := h
    simp only [Impl.addField, nodes, List.map_cons, Spec.appendGroup]
    by_cases hk : (k' == k) = true
    · simp [hk]
    · simp only [hk, Bool.false_eq_true, ↓reduceIte, List.map_cons, List.cons.injEq, true_and]
      exact ih

theorem keys_appendGroup (g : SG) (k : Name) (fs : List FieldNode) :
    keys (Spec.appendGroup g k fs) = if k ∈ keys g then keys g else keys g ++ [k] := by
  induction g with
  | nil => simp [Spec.appendGroup, keys]
  | cons h t ih =>
    obtain ⟨k', g'⟩ := h
    simp only [Spec.appendGroup, keys, List.map_cons] at *
    by_cases hk : (k' == k) = true
    · have : k' = k := by simpa using hk
      subst this
      simp
    · have hne : ¬ k' = k := by simpa using hk
      have hne' : ¬ k = k' := fun h => hne h.symm
      simp only [hk, Bool.false_eq_true, ↓reduceIte, List.map_cons, ih, List.mem_cons, hne', false_or]
      split <;> simp_all

theorem mem_keys_appendGroup (g : SG) (k k' : Name) (fs : List FieldNode) :
    k' ∈ keys (Spec.appendGroup g k fs) ↔ k' ∈ keys g ∨ k' = k := by
  rw [keys_appendGroup]
  split
  · constructor
    · intro h; exact Or.inl h
    · rintro (h | h)
      · exact h
      · subst h; assumption
  · simp

theorem nodup_keys_appendGroup (g : SG) (k : Name) (fs : List FieldNode) (h : (keys g).Nodup) :
    (keys (Spec.appendGroup g k fs)).Nodup := by
  rw [keys_appendGroup]
  split
  · exact h
  · rename_i hk
    rw [List.nodup_append]
    refine ⟨h, by simp, ?_⟩
    intro a ha b hb
    simp at hb
    subst hb
    intro hab
    subst hab
    exact hk ha

theorem appendGroup_appendGroup_same (g : SG) (k : Name) (a b : List FieldNode) :
    Spec.appendGroup (Spec.appendGroup g k a) k b = Spec.appendGroup g k (a ++ b) := by
  induction g with
  | nil => simp [Spec.appendGroup]
  | cons h t ih =>
    obtain ⟨k', g'⟩ := h
    by_cases hk : (k' == k) = true
    · simp [Spec.appendGroup, hk]
    · simp [Spec.appendGroup, hk, ih]

theorem appendGroup_comm (g : SG) (k k2 : Name) (a b : List FieldNode) (hne : k ≠ k2)
    (hk : k ∈ keys g) :
    Spec.appendGroup (Spec.appendGroup g k2 b) k a = Spec.appendGroup (Spec.appendGroup g k a) k2 b := by
  induction g with
  | nil => simp [keys] at hk
  | cons h t ih =>
    obtain ⟨k', g'⟩ := h
    by_cases h1 : k' = k
    · subst h1
      have h2 : ¬ (k' == k2) = true := by simpa using hne
      simp [Spec.appendGroup, h2]
    · have hk' : k ∈ keys t := by
        simp only [keys, List.map_cons, List.mem_cons] at hk
        rcases hk with hk | hk
        · exact absurd hk.symm h1
        · exact hk
      have h1' : ¬ (k' == k) = true := by simpa using h1
      by_cases h2 : (k' == k2) = true
      · simp [Spec.appendGroup, h2, h1']
      · simp [Spec.appendGroup, h2, h1', ih hk']

theorem mergeGroups_nil (g : SG) : Spec.mergeGroups g [] = g := rfl

theorem mergeGroups_cons (g : SG) (k : Name) (fs : List FieldNode) (rest : SG) :
    Spec.mergeGroups g ((k, fs) :: rest) = Spec.mergeGroups (Spec.appendGroup g k fs) rest := rfl

theorem appendGroup_eq_merge (g : SG) (k : Name) (fs : List FieldNode) :
    Spec.appendGroup g k fs = Spec.mergeGroups g [(k, fs)] := rfl

theorem mem_keys_mergeGroups (g a : SG) (k : Name) :
    k ∈ keys (Spec.mergeGroups g a) ↔ k ∈ keys g ∨ k ∈ keys a := by
  induction a generalizing g with
  | nil => simp [Spec.mergeGroups, keys]
  | cons h t ih =>
    obtain ⟨k', fs⟩ := h
    rw [mergeGroups_cons, ih, mem_keys_appendGroup]
    simp only [keys, List.map_cons, List.mem_cons]
    constructor
    · rintro ((h | h) | h)
      · exact Or.inl h
      · exact Or.inr (Or.inl h)
      · exact Or.inr (Or.inr h)
    · rintro (h | h | h)
      · exact Or.inl (Or.inl h)
      · exact Or.inl (Or.inr h)
      · exact Or.inr h

theorem nodup_keys_mergeGroups (g a : SG) (h : (keys g).Nodup) :
    (keys (Spec.mergeGroups g a)).Nodup := by
  induction a generalizing g with
  | nil => exact h
  | cons hd t ih =>
    obtain ⟨k', fs⟩ := hd
    rw [mergeGroups_cons]
    exact ih _ (nodup_keys_appendGroup g k' fs h)

/-- appending to an existing key commutes with merging groups that do not mention the key -/
theorem appendGroup_mergeGroups_comm (g a : SG) (k : Name) (fs : List FieldNode)
    (hk : k ∈ keys g) (hna : k ∉ keys a) :
    Spec.appendGroup (Spec.mergeGroups g a) k fs = Spec.mergeGroups (Spec.appendGroup g k fs) a := by
  induction a generalizing g with
  | nil => rfl
  | cons hd t ih =>
    obtain ⟨k2, g2⟩ := hd
    have hne : k ≠ k2 := by
      intro h; subst h; exact hna (by simp [keys])
    have hnt : k ∉ keys t := by
      intro h; exact hna (by simp [keys] at h ⊢; exact Or.inr h)
    rw [mergeGroups_cons, mergeGroups_cons]
    rw [ih (Spec.appendGroup g k2 g2) ((mem_keys_appendGroup g k2 k g2).2 (Or.inl hk)) hnt]
    rw [appendGroup_comm g k k2 fs g2 hne hk]

/-- merging an accumulator extended by one group = extending the merge -/
theorem mergeGroups_appendGroup (b a : SG) (k : Name) (fs : List FieldNode)
    (hnd : (keys a).Nodup) :
    Spec.mergeGroups b (Spec.appendGroup a k fs) = Spec.appendGroup (Spec.mergeGroups b a) k fs := by
  induction a generalizing b with
  | nil => rfl
  | cons hd t ih =>
    obtain ⟨k1, g1⟩ := hd
    have hnd' : (keys t).Nodup := by
      simp only [keys, List.map_cons, List.nodup_cons] at hnd
      exact hnd.2
    have hk1 : k1 ∉ keys t := by
      simp only [keys, List.map_cons, List.nodup_cons] at hnd
      exact hnd.1
    by_cases h1 : k1 = k
    · subst h1
      simp only [Spec.appendGroup, beq_self_eq_true, ↓reduceIte, mergeGroups_cons]
      rw [appendGroup_mergeGroups_comm _ t k1 fs ((mem_keys_appendGroup b k1 k1 g1).2 (Or.inr rfl)) hk1]
      rw [appendGroup_appendGroup_same]
    · have h1' : ¬ (k1 == k) = true := by simpa using h1
      simp only [Spec.appendGroup, h1', Bool.false_eq_true, ↓reduceIte, mergeGroups_cons]
      exact ih _ hnd'

theorem mergeGroups_assoc (b a f : SG) (hnd : (keys a).Nodup) :
    Spec.mergeGroups (Spec.mergeGroups b a) f = Spec.mergeGroups b (Spec.mergeGroups a f) := by
  induction f generalizing a with
  | nil => rfl
  | cons hd t ih =>
    obtain ⟨k, fs⟩ := hd
    rw [mergeGroups_cons, mergeGroups_cons, ← mergeGroups_appendGroup b a k fs hnd]
    exact ih (Spec.appendGroup a k fs) (nodup_keys_appendGroup a k fs hnd)

theorem keys_nodes (g : Impl.Groups) : keys (nodes g) = g.map (·.1) := by
  simp [keys, nodes]

end Gql.Exec.Refine
