import Gql.Text.Lexer
import Gql.Text.PrintString
/-!
Lemmas for C08-1: `print_string` followed by the lexer's `read_string` is the identity on
strings of Unicode scalar values.  Everything is parametric in the escape table; the facts
about the concrete table (`Generated.escapeTable`) are decided in `Gql/Props/C08.lean`.
-/
namespace Gql.Text

/-! ### Indexing into `pre ++ l` -/

theorem charAt_append (pre l : List Nat) (i : Nat) : charAt (pre ++ l) (pre.length + i) = l[i]? := by
  simp [charAt, List.getElem?_append_right]

theorem charAt_append0 (pre l : List Nat) : charAt (pre ++ l) pre.length = l[0]? := by
  simpa using charAt_append pre l 0

theorem index_append (pre l : List Nat) (c : Nat) (rest : List Nat) (h : l = c :: rest) :
    (Out.index (pre ++ l) pre.length : LexOut Nat) = .ok c := by
  subst h; simp [Out.index]

theorem slice_snoc (body : List Nat) (cs pos c : Nat) (h : cs ≤ pos) (hc : body[pos]? = some c) :
    slice body cs (pos + 1) = slice body cs pos ++ [c] := by
  unfold slice
  have h1 : pos + 1 - cs = (pos - cs) + 1 := by omega
  rw [h1, List.take_add_one]
  congr 1
  simp [List.getElem?_drop, show cs + (pos - cs) = pos by omega, hc]

theorem slice_self (body : List Nat) (p : Nat) : slice body p p = [] := by simp [slice]

/-! ### A well-formed table entry decodes to its key -/

/-- Shape of a table entry the lexer decodes back to `c`: a two-character escape `\x` with
`_ESCAPED_CHARS[x] = c`, or a fixed-width `\uXXXX` whose four hex digits denote `c` (a
non-surrogate BMP code point). -/
def entryOK (c : Nat) (e : List Nat) : Bool :=
  match e with
  | [92, x] => escapedChar (some x) == some c
  | [92, 117, h1, h2, h3, h4] =>
    h1 != 123 && read16 [h1, h2, h3, h4] 0 == some c && decide (c ≤ 0xD7FF)
  | _ => false

def tableOK : List (Nat × List Nat) → Bool
  | [] => true
  | (k, v) :: rest => entryOK k v && tableOK rest

theorem tableOK_lookup {table : List (Nat × List Nat)} (h : tableOK table = true) {c : Nat} {e : List Nat}
    (hl : escapeLookup table c = some e) : entryOK c e = true := by
  induction table with
  | nil => simp [escapeLookup] at hl
  | cons p rest ih =>
    obtain ⟨k, v⟩ := p
    simp only [tableOK, Bool.and_eq_true] at h
    simp only [escapeLookup] at hl
    split at hl
    · rename_i hk
      cases hl; subst hk; exact h.1
    · exact ih h.2 hl

/-- The table escapes everything the lexer cannot read raw inside a quoted string. -/
def tableComplete (table : List (Nat × List Nat)) : Bool :=
  [34, 92, 10, 13].all (fun c => (escapeLookup table c).isSome)

/-- The documented contract of `print_string` ("replaces control characters ... with escape
sequences"): every C0 control (U+0000-U+001F) and DEL / C1 control (U+007F-U+009F) has an entry. -/
def tableCoversControls (table : List (Nat × List Nat)) : Bool :=
  (List.range 32 ++ (List.range 33).map (· + 127)).all (fun c => (escapeLookup table c).isSome)

theorem tableComplete_none {table : List (Nat × List Nat)} (h : tableComplete table = true) {c : Nat}
    (hl : escapeLookup table c = none) : c ≠ 34 ∧ c ≠ 92 ∧ c ≠ 10 ∧ c ≠ 13 := by
  simp only [tableComplete, List.all_cons, List.all_nil, Bool.and_true, Bool.and_eq_true] at h
  refine ⟨?_, ?_, ?_, ?_⟩ <;> intro hc <;> subst hc <;> simp [hl] at h

theorem read16_append (pre : List Nat) (h1 h2 h3 h4 : Nat) (tail : List Nat) :
    read16 (pre ++ h1 :: h2 :: h3 :: h4 :: tail) pre.length = read16 [h1, h2, h3, h4] 0 := by
  have e0 := charAt_append pre (h1 :: h2 :: h3 :: h4 :: tail) 0
  have e1 := charAt_append pre (h1 :: h2 :: h3 :: h4 :: tail) 1
  have e2 := charAt_append pre (h1 :: h2 :: h3 :: h4 :: tail) 2
  have e3 := charAt_append pre (h1 :: h2 :: h3 :: h4 :: tail) 3
  simp only [Nat.add_zero] at e0
  simp [read16, e0, e1, e2, e3, charAt]

end Gql.Text

namespace Gql.Text

theorem index_of_getElem? {body : List Nat} {pos c : Nat} (h : body[pos]? = some c) :
    pos < body.length ∧ (Out.index body pos : LexOut Nat) = .ok c := by
  have hl : pos < body.length := by
    rcases Nat.lt_or_ge pos body.length with h' | h'
    · exact h'
    · simp [List.getElem?_eq_none h'] at h
  exact ⟨hl, by simp [Out.index, h]⟩

/-- A two-character escape at `pos`. -/
theorem esc2_step (body : List Nat) (st : LexState) (start pos cs x c : Nat) (acc : List Nat)
    (h0 : body[pos]? = some 92) (h1 : body[pos + 1]? = some x)
    (hx : escapedChar (some x) = some c) :
    readStringLoop body st start pos cs acc =
      readStringLoop body st start (pos + 2) (pos + 2) (acc ++ slice body cs pos ++ [c]) := by
  have hx117 : x ≠ 117 := by
    intro h; subst h; simp [escapedChar] at hx
  obtain ⟨hlen, hidx⟩ := index_of_getElem? h0
  rw [readStringLoop]
  simp [hlen, hidx, charAt, h1, hx117, readEscapedCharacter, hx]

/-- A fixed-width `\uXXXX` escape of a non-surrogate code point at `pos`. -/
theorem esc6_step (body : List Nat) (st : LexState) (start pos cs h1 c : Nat) (acc : List Nat)
    (h0 : body[pos]? = some 92) (hu : body[pos + 1]? = some 117) (hh1 : body[pos + 2]? = some h1)
    (hne : h1 ≠ 123) (hr : read16 body (pos + 2) = some c) (hc : c ≤ 0xD7FF) :
    readStringLoop body st start pos cs acc =
      readStringLoop body st start (pos + 6) (pos + 6) (acc ++ slice body cs pos ++ [c]) := by
  obtain ⟨hlen, hidx⟩ := index_of_getElem? h0
  have hcl : c ≤ 55295 ∨ 57344 ≤ c := Or.inl hc
  rw [readStringLoop]
  simp [hlen, hidx, charAt, hu, hh1, hne, readEscapedUnicodeFixedWidth, hr, hcl]

/-- One escape sequence of a well-formed entry, read at `pre.length` in `pre ++ (e ++ tail)`. -/
theorem escape_step (st : LexState) (start : Nat) (pre e tail : List Nat) (c : Nat) (cs : Nat)
    (acc : List Nat) (hOK : entryOK c e = true) :
    readStringLoop (pre ++ (e ++ tail)) st start pre.length cs acc =
      readStringLoop (pre ++ (e ++ tail)) st start (pre.length + e.length) (pre.length + e.length)
        (acc ++ slice (pre ++ (e ++ tail)) cs pre.length ++ [c]) := by
  unfold entryOK at hOK
  split at hOK
  · rename_i x
    have hx : escapedChar (some x) = some c := by simpa using hOK
    exact esc2_step _ st start pre.length cs x c acc
      (by simp) (by simp [List.getElem?_append_right]) hx
  · rename_i h1 h2 h3 h4
    simp only [Bool.and_eq_true, bne_iff_ne, ne_eq, beq_iff_eq, decide_eq_true_eq] at hOK
    obtain ⟨⟨hh1, hr⟩, hc⟩ := hOK
    have r16 : read16 (pre ++ ([92, 117, h1, h2, h3, h4] ++ tail)) (pre.length + 2) = some c := by
      have := read16_append (pre ++ [92, 117]) h1 h2 h3 h4 tail
      simp only [List.length_append, List.length_cons, List.length_nil] at this
      simp only [List.append_assoc, List.cons_append, List.nil_append] at this ⊢
      rw [this]; exact hr
    exact esc6_step _ st start pre.length cs h1 c acc
      (by simp) (by simp [List.getElem?_append_right]) (by simp [List.getElem?_append_right]) hh1 r16 hc
  · simp at hOK

end Gql.Text

namespace Gql.Text

/-- A character that is copied verbatim by the printer is skipped verbatim by the lexer. -/
theorem plain_step (body : List Nat) (st : LexState) (start pos cs c : Nat) (acc : List Nat)
    (h0 : body[pos]? = some c) (hs : isScalar c = true)
    (hne : c ≠ 34 ∧ c ≠ 92 ∧ c ≠ 10 ∧ c ≠ 13) :
    readStringLoop body st start pos cs acc = readStringLoop body st start (pos + 1) cs acc := by
  obtain ⟨hlen, hidx⟩ := index_of_getElem? h0
  obtain ⟨a, b, c', d⟩ := hne
  rw [readStringLoop]
  simp [hlen, hidx, a, b, c', d, hs]

/-- The closing quote. -/
theorem quote_step (body : List Nat) (st : LexState) (start pos cs : Nat) (acc : List Nat)
    (h0 : body[pos]? = some 34) :
    readStringLoop body st start pos cs acc =
      .ok (mkToken st .string start (pos + 1) (some (acc ++ slice body cs pos))) := by
  obtain ⟨hlen, hidx⟩ := index_of_getElem? h0
  rw [readStringLoop]
  simp [hlen, hidx]

/-- Main induction: reading `translate s ++ '"' ++ rest` placed after any prefix. -/
theorem readStringLoop_translate (table : List (Nat × List Nat)) (hT : tableOK table = true)
    (hC : tableComplete table = true) (st : LexState) (start : Nat) (rest : List Nat) :
    ∀ (s pre acc : List Nat) (cs : Nat), cs ≤ pre.length → (∀ c ∈ s, isScalar c = true) →
      readStringLoop (pre ++ (translate table s ++ 34 :: rest)) st start pre.length cs acc =
        .ok (mkToken st .string start (pre.length + (translate table s).length + 1)
          (some (acc ++ slice (pre ++ (translate table s ++ 34 :: rest)) cs pre.length ++ s))) := by
  intro s
  induction s with
  | nil =>
    intro pre acc cs _ _
    simp only [translate, List.nil_append, List.length_nil, Nat.add_zero, List.append_nil]
    exact quote_step _ st start pre.length cs acc (by simp)
  | cons c s ih =>
    intro pre acc cs hcs hsc
    have hc : isScalar c = true := hsc c (by simp)
    have hs' : ∀ d ∈ s, isScalar d = true := fun d hd => hsc d (by simp [hd])
    cases hl : escapeLookup table c with
    | none =>
      have hne := tableComplete_none hC hl
      have hbody : pre ++ (translate table (c :: s) ++ 34 :: rest) =
          (pre ++ [c]) ++ (translate table s ++ 34 :: rest) := by simp [translate, hl]
      have hget : (pre ++ (translate table (c :: s) ++ 34 :: rest))[pre.length]? = some c := by
        simp [translate, hl]
      rw [plain_step _ st start pre.length cs c acc hget hc hne]
      have := ih (pre ++ [c]) acc cs (by simp; omega) hs'
      simp only [List.length_append, List.length_cons, List.length_nil, Nat.zero_add] at this
      rw [hbody, this]
      have hsl := slice_snoc ((pre ++ [c]) ++ (translate table s ++ 34 :: rest)) cs pre.length c hcs
        (by simp)
      rw [hsl]
      simp [translate, hl, Nat.add_assoc, Nat.add_comm 1]
    | some e =>
      have hOK := tableOK_lookup hT hl
      have hbody : pre ++ (translate table (c :: s) ++ 34 :: rest) =
          pre ++ (e ++ (translate table s ++ 34 :: rest)) := by simp [translate, hl]
      rw [hbody, escape_step st start pre e _ c cs acc hOK]
      have hbody2 : pre ++ (e ++ (translate table s ++ 34 :: rest)) =
          (pre ++ e) ++ (translate table s ++ 34 :: rest) := by simp
      have := ih (pre ++ e) (acc ++ slice (pre ++ (e ++ (translate table s ++ 34 :: rest))) cs pre.length ++ [c])
        (pre.length + e.length) (by simp) hs'
      simp only [List.length_append] at this
      rw [hbody2] at this ⊢
      rw [this, slice_self]
      simp [translate, hl, Nat.add_assoc]

/-- C08-1 for an arbitrary well-formed table. -/
theorem printStringWith_roundtrip (table : List (Nat × List Nat)) (hT : tableOK table = true)
    (hC : tableComplete table = true) (s rest : List Nat) (st : LexState)
    (hs : ∀ c ∈ s, isScalar c = true) :
    readString (printStringWith table s ++ rest) st 0 =
      .ok (mkToken st .string 0 (printStringWith table s).length (some s)) := by
  unfold readString printStringWith
  have := readStringLoop_translate table hT hC st 0 rest s [34] [] 1 (by simp) hs
  simp only [List.length_cons, List.length_nil, Nat.zero_add, List.nil_append] at this
  simp only [List.append_assoc, List.cons_append, List.nil_append, Nat.zero_add] at this ⊢
  rw [this, slice_self]
  simp [Nat.add_comm 1]

end Gql.Text
