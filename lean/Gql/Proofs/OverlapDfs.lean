import Gql.Proofs.OverlapUConf
/-! C14: the executable oracle `Spec.specConflictB` (work-list depth-first search with a `seen`
list of state keys and numeric fuel) decides the proposition `Spec.SpecConflict`.

Part A — the search itself, for an abstract universe `U` of states closed under `succs`:
soundness (no hypothesis), completeness (keys injective on `U`), termination (keys of `U` lie in
a finite list, `succs` is bounded on `U`).
Part B (`OverlapDfsBound.lean`) — the universe of a document, the bounds, the final theorems. -/
namespace Gql.Exec
open Overlap

abbrev Spec.Key := Nat × Nat × Bool

section dfs
variable (s : Schema) (d : Doc)

/-- `some true` is only returned for a state reachable from the work list. -/
theorem dfs_sound : ∀ (n : Nat) (seen : List Spec.Key) (work : List Spec.State),
    Spec.dfs s d n seen work = some true →
      ∃ st0 ∈ work, ∃ st, Spec.Reach s d st0 st ∧ Spec.direct s st = true := by
  intro n
  induction n with
  | zero =>
    intro seen work h
    cases work <;> simp [Spec.dfs] at h
  | succ n ih =>
    intro seen work h
    cases work with
    | nil => simp [Spec.dfs] at h
    | cons st rest =>
      simp only [Spec.dfs] at h
      split at h
      · obtain ⟨st0, h0, x, hr, hd⟩ := ih _ _ h
        exact ⟨st0, List.mem_cons_of_mem _ h0, x, hr, hd⟩
      · split at h
        · rename_i hd
          exact ⟨st, List.mem_cons_self, st, Spec.Reach.refl _, hd⟩
        · obtain ⟨st0, h0, x, hr, hd⟩ := ih _ _ h
          rcases List.mem_append.1 h0 with h0 | h0
          · exact ⟨st, List.mem_cons_self, x, Spec.Reach.step h0 hr, hd⟩
          · exact ⟨st0, List.mem_cons_of_mem _ h0, x, hr, hd⟩

variable (U : Spec.State → Prop)

/-- every expanded state of the universe is conflict-free and its successors are expanded or
waiting -/
def DfsInv (seen : List Spec.Key) (work : List Spec.State) : Prop :=
  ∀ x, U x → x.key ∈ seen →
    Spec.direct s x = false ∧ ∀ y ∈ Spec.succs s d x, y.key ∈ seen ∨ y ∈ work

variable (hClosed : ∀ x, U x → ∀ y ∈ Spec.succs s d x, U y)
  (hKey : ∀ x y, U x → U y → x.key = y.key → x = y)
include hClosed hKey

theorem dfs_complete_aux : ∀ (n : Nat) (seen : List Spec.Key) (work : List Spec.State),
    (∀ x ∈ work, U x) → DfsInv s d U seen work → Spec.dfs s d n seen work = some false →
      ∃ seen', seen ⊆ seen' ∧ (∀ x ∈ work, x.key ∈ seen') ∧ DfsInv s d U seen' [] := by
  intro n
  induction n with
  | zero =>
    intro seen work hW hI h
    cases work with
    | nil => exact ⟨seen, fun _ h => h, by simp, hI⟩
    | cons st rest => simp [Spec.dfs] at h
  | succ n ih =>
    intro seen work hW hI h
    cases work with
    | nil => exact ⟨seen, fun _ h => h, by simp, hI⟩
    | cons st rest =>
      simp only [Spec.dfs] at h
      split at h
      · rename_i hc
        have hmem : st.key ∈ seen := by simpa using hc
        have hI' : DfsInv s d U seen rest := by
          intro x hx hxs
          obtain ⟨h1, h2⟩ := hI x hx hxs
          refine ⟨h1, fun y hy => ?_⟩
          rcases h2 y hy with h3 | h3
          · exact Or.inl h3
          · rcases List.mem_cons.1 h3 with rfl | h3
            · exact Or.inl hmem
            · exact Or.inr h3
        obtain ⟨seen', hsub, hk, hinv⟩ :=
          ih seen rest (fun x hx => hW x (List.mem_cons_of_mem _ hx)) hI' h
        refine ⟨seen', hsub, fun x hx => ?_, hinv⟩
        rcases List.mem_cons.1 hx with rfl | hx
        · exact hsub hmem
        · exact hk x hx
      · split at h
        · cases h
        · rename_i hc hd
          have hdf : Spec.direct s st = false := by simpa using hd
          have hUst : U st := hW st List.mem_cons_self
          have hW' : ∀ x ∈ Spec.succs s d st ++ rest, U x := by
            intro x hx
            rcases List.mem_append.1 hx with hx | hx
            · exact hClosed st hUst x hx
            · exact hW x (List.mem_cons_of_mem _ hx)
          have hI' : DfsInv s d U (st.key :: seen) (Spec.succs s d st ++ rest) := by
            intro x hx hxs
            rcases List.mem_cons.1 hxs with hxk | hxs
            · have : x = st := hKey x st hx hUst hxk
              subst this
              exact ⟨hdf, fun y hy => Or.inr (List.mem_append_left _ hy)⟩
            · obtain ⟨h1, h2⟩ := hI x hx hxs
              refine ⟨h1, fun y hy => ?_⟩
              rcases h2 y hy with h3 | h3
              · exact Or.inl (List.mem_cons_of_mem _ h3)
              · rcases List.mem_cons.1 h3 with rfl | h3
                · exact Or.inl List.mem_cons_self
                · exact Or.inr (List.mem_append_right _ h3)
          obtain ⟨seen', hsub, hk, hinv⟩ := ih _ _ hW' hI' h
          refine ⟨seen', fun k hk' => hsub (List.mem_cons_of_mem _ hk'), fun x hx => ?_, hinv⟩
          rcases List.mem_cons.1 hx with rfl | hx
          · exact hsub List.mem_cons_self
          · exact hk x (List.mem_append_right _ hx)

/-- From a work list inside the universe, `some false` means nothing conflicting is reachable. -/
theorem dfs_complete (n : Nat) (work : List Spec.State) (hW : ∀ x ∈ work, U x)
    (h : Spec.dfs s d n [] work = some false) :
    ¬ ∃ st0 ∈ work, ∃ st, Spec.Reach s d st0 st ∧ Spec.direct s st = true := by
  obtain ⟨seen', _, hk, hinv⟩ := dfs_complete_aux s d U hClosed hKey n [] work hW
    (fun x _ hx => by cases hx) h
  rintro ⟨st0, h0, st, hr, hd⟩
  have key : ∀ a b, Spec.Reach s d a b → U a → a.key ∈ seen' → U b ∧ b.key ∈ seen' := by
    intro a b hab
    induction hab with
    | refl _ => exact fun h1 h2 => ⟨h1, h2⟩
    | @step a b c hstep _ ih =>
      intro h1 h2
      have hb : U b := hClosed a h1 b hstep
      rcases (hinv a h1 h2).2 b hstep with h3 | h3
      · exact ih hb h3
      · cases h3
  obtain ⟨hu, hs⟩ := key st0 st hr (hW st0 h0) (hk st0 h0)
  rw [(hinv st hu hs).1] at hd
  cases hd

end dfs

/-! ### termination -/

section term
variable (s : Schema) (d : Doc) (U : Spec.State → Prop) (keys : List Spec.Key) (B : Nat)

/-- number of keys of the universe not yet expanded -/
def unseen (seen : List Spec.Key) : Nat := (keys.filter (fun k => !seen.contains k)).length

theorem unseen_cons_lt {seen : List Spec.Key} {k : Spec.Key} (hk : k ∈ keys) (hn : k ∉ seen) :
    unseen keys (k :: seen) < unseen keys seen := by
  apply filter_length_lt (y := k) _ _ _ _ hk
  · simp [hn]
  · simp
  · intro x _ hx
    simp only [Bool.not_eq_true', List.contains_eq_mem, decide_eq_false_iff_not, List.mem_cons,
      not_or] at hx ⊢
    exact hx.2

variable (hClosed : ∀ x, U x → ∀ y ∈ Spec.succs s d x, U y)
  (hBound : ∀ x, U x → x.key ∈ keys ∧ (Spec.succs s d x).length ≤ B)
include hClosed hBound

theorem dfs_isSome : ∀ (n : Nat) (seen : List Spec.Key) (work : List Spec.State),
    (∀ x ∈ work, U x) → work.length + unseen keys seen * (B + 1) ≤ n →
      (Spec.dfs s d n seen work).isSome = true := by
  intro n
  induction n with
  | zero =>
    intro seen work _ h
    cases work with
    | nil => simp [Spec.dfs]
    | cons st rest => simp at h
  | succ n ih =>
    intro seen work hW h
    cases work with
    | nil => simp [Spec.dfs]
    | cons st rest =>
      simp only [Spec.dfs]
      have hWr : ∀ x ∈ rest, U x := fun x hx => hW x (List.mem_cons_of_mem _ hx)
      split
      · apply ih _ _ hWr
        simp only [List.length_cons] at h
        omega
      · split
        · rfl
        · rename_i hc _
          have hnm : st.key ∉ seen := by simpa using hc
          have hUst : U st := hW st List.mem_cons_self
          obtain ⟨hk, hb⟩ := hBound st hUst
          have hlt := unseen_cons_lt keys hk hnm
          apply ih
          · intro x hx
            rcases List.mem_append.1 hx with hx | hx
            · exact hClosed st hUst x hx
            · exact hWr x hx
          · simp only [List.length_cons, List.length_append] at h ⊢
            have h1 : (unseen keys (st.key :: seen) + 1) * (B + 1) ≤ unseen keys seen * (B + 1) :=
              Nat.mul_le_mul_right _ hlt
            rw [Nat.succ_mul] at h1
            omega

end term

end Gql.Exec
