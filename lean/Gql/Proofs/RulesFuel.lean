import Gql.Validation.Rules
/-!
C12 — the `while sets_to_visit:` loop of `get_fragment_spreads` terminates: the fuel the model gives it (the number
of nodes of the selection set) is never used up.
-/
namespace Gql.Validation.Rules
namespace ATree

theorem sizeList_append (a b : List ATree) : sizeList (a ++ b) = sizeList a + sizeList b := by
  induction a with
  | nil => simp [sizeList]
  | cons t ts ih => simp [sizeList, ih]; omega

theorem sizeList_reverse (a : List ATree) : sizeList a.reverse = sizeList a := by
  induction a with
  | nil => rfl
  | cons t ts ih => simp [sizeList_append, sizeList, ih]; omega

theorem sizeList_filter_le (p : ATree → Bool) (a : List ATree) : sizeList (a.filter p) ≤ sizeList a := by
  induction a with
  | nil => simp [sizeList]
  | cons t ts ih =>
    by_cases h : p t = true
    · simp [h, sizeList]; omega
    · simp [h, sizeList]; omega

theorem size_le_of_mem (t : ATree) (a : List ATree) (h : t ∈ a) : size t ≤ sizeList a := by
  induction a with
  | nil => simp at h
  | cons x xs ih =>
    rcases List.mem_cons.mp h with rfl | h'
    · simp [sizeList]
    · have := ih h'; simp [sizeList]; omega

theorem size_kid_lt (x k : ATree) (f : String) (h : x.kid f = some k) : size k < size x := by
  have hm : k ∈ x.children := by
    unfold kid kids at h
    have := List.mem_of_mem_head? (by rw [h]; rfl : k ∈ (x.children.filter (fun c => c.field == f)).head?)
    exact (List.mem_filter.mp this).1
  have := size_le_of_mem k x.children hm
  cases x with
  | node i fl v cs => simp [size, children] at *; omega

theorem sizeList_filterMap_kid_le (f : String) (a : List ATree) :
    sizeList (a.filterMap (fun x => x.kid f)) ≤ sizeList a := by
  induction a with
  | nil => simp [sizeList]
  | cons x xs ih =>
    cases h : x.kid f with
    | none => simp [h, sizeList]; omega
    | some k =>
      have := size_kid_lt x k f h
      simp [h, sizeList]; omega

theorem size_pos (t : ATree) : 1 ≤ size t := by cases t; simp [size]

end ATree

open ATree in
/-- The loop of `get_fragment_spreads` never runs out of the fuel `getSpreads` gives it. -/
theorem spreadsLoop_fuel (fuel : Nat) : ∀ (stack acc : List ATree), sizeList stack ≤ fuel →
    (spreadsLoop fuel stack acc).2 = false := by
  induction fuel with
  | zero =>
    intro stack acc h
    cases stack with
    | nil => rfl
    | cons s st => have := size_pos s; simp [sizeList] at h; omega
  | succ n ih =>
    intro stack acc h
    cases stack with
    | nil => rfl
    | cons s st =>
      rw [spreadsLoop]
      apply ih
      rw [sizeList_append, sizeList_reverse]
      have h1 := sizeList_filterMap_kid_le "selection_set" ((s.kids "selections").filter (fun x => x.kind != "fragment_spread"))
      have h2 := sizeList_filter_le (fun x => x.kind != "fragment_spread") (s.kids "selections")
      have h3 : sizeList (s.kids "selections") ≤ sizeList s.children := sizeList_filter_le _ _
      have h4 : sizeList s.children + 1 = size s := by cases s; simp [size, children]; omega
      simp [sizeList] at h
      omega

/-- `context.get_fragment_spreads(selection_set)` terminates (the fuel flag is never set). -/
theorem spreads_fuel_enough (selSet : ATree) : (getSpreads selSet).2 = false := by
  unfold getSpreads
  apply spreadsLoop_fuel
  simp [ATree.sizeList]

end Gql.Validation.Rules
