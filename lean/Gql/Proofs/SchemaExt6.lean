import Gql.Proofs.SchemaExt5
namespace Gql.Types
open Gql Gql.Generated

/-- What a successful `stage` tells about its result: every reference resolves, and the type
names are those of the old schema plus those the document defines. -/
theorem stage_ok_inv (s a : Schema) (p : Parts) (h : stage s p = .ok a) :
    allRefsResolve a = true ∧ ∀ c, a.hasType c = (s.hasType c || definesType p c) := by
  unfold stage at h
  cases hT1 : mapMOut (fun t => extendType t (extsFor t.kind t.name p.typeExts)) s.types with
  | err e => rw [hT1] at h; cases h
  | crash c => rw [hT1] at h; cases h
  | ok T1 =>
  rw [hT1] at h; simp only [] at h
  cases hN1 : mapMOut (fun (dn : Option DescNode × TypeNode) =>
      buildNamedType dn.1 dn.2 (extsFor dn.2.body.kind dn.2.name p.typeExts)) (newTypeDefs p) with
  | err e => rw [hN1] at h; cases h
  | crash c => rw [hN1] at h; cases h
  | ok N1 =>
  rw [hN1] at h; simp only [] at h
  cases hD1 : mapMOut (extendDirective p.dirExts) s.directives with
  | err e => rw [hD1] at h; cases h
  | crash c => rw [hD1] at h; cases h
  | ok D1 =>
  rw [hD1] at h; simp only [] at h
  cases hND1 : mapMOut (buildDirective p.dirExts) (p.dirDefs.filter Def.isUserDirectiveDef) with
  | err e => rw [hND1] at h; cases h
  | crash c => rw [hND1] at h; cases h
  | ok ND1 =>
  rw [hND1] at h; simp only [] at h
  have hT1n : T1.map TypeDef.name = s.types.map TypeDef.name :=
    mapMOut_keys _ TypeDef.name TypeDef.name _ _ hT1 (fun t _ t' h => (extendType_name_kind t t' _ h).1)
  have hN1n : N1.map TypeDef.name = (newTypeDefs p).map (fun dn => dn.2.name) :=
    mapMOut_keys _ (fun dn => dn.2.name) TypeDef.name _ _ hN1
      (fun dn _ t h => (buildNamedType_name_kind dn.1 dn.2 _ t h).1)
  have hres : allRefsResolve a = true := by
    unfold finish at h
    split at h
    · rename_i hr; cases h; exact hr
    · cases h
  refine ⟨hres, ?_⟩
  have haeq := finish_ok _ _ h
  intro c
  subst haeq
  simp only [rootsOf_eq]
  rw [Bool.eq_iff_iff]
  simp only [Schema.hasType, Schema.typeNames, definesType, List.contains_iff_mem, Bool.or_eq_true,
    mem_upsertAll_keys, hT1n, hN1n]

/-- `autopick` after a successful `B`-value. -/
def mapPick (x : B Schema) : B Schema :=
  match x with
  | .ok s => .ok (autopick s)
  | .err e => .err e
  | .crash c => .crash c

/-- Extending the schema whose roots were picked by name equals extending first and picking by
name afterwards, when the extension part `pb` is root-stable over the types of `a0`. -/
theorem stage_autopick (a0 : Schema) (pb : Parts) (hsd : pb.schemaDef = none)
    (hres : allRefsResolve a0 = true) (hst : rootsStableParts a0.hasType pb = true) :
    stage (autopick a0) pb = mapPick (stage a0 pb) := by
  unfold stage
  simp only [autopick]
  cases hT1 : mapMOut (fun t => extendType t (extsFor t.kind t.name pb.typeExts)) a0.types with
  | err e => rfl
  | crash c => rfl
  | ok T1 =>
  simp only []
  cases hN1 : mapMOut (fun (dn : Option DescNode × TypeNode) =>
      buildNamedType dn.1 dn.2 (extsFor dn.2.body.kind dn.2.name pb.typeExts)) (newTypeDefs pb) with
  | err e => rfl
  | crash c => rfl
  | ok N1 =>
  simp only []
  cases hD1 : mapMOut (extendDirective pb.dirExts) a0.directives with
  | err e => rfl
  | crash c => rfl
  | ok D1 =>
  simp only []
  cases hND1 : mapMOut (buildDirective pb.dirExts) (pb.dirDefs.filter Def.isUserDirectiveDef) with
  | err e => rfl
  | crash c => rfl
  | ok ND1 =>
  simp only []
  have hT1n : T1.map TypeDef.name = a0.types.map TypeDef.name :=
    mapMOut_keys _ TypeDef.name TypeDef.name _ _ hT1 (fun t _ t' h => (extendType_name_kind t t' _ h).1)
  have hN1n : N1.map TypeDef.name = (newTypeDefs pb).map (fun dn => dn.2.name) :=
    mapMOut_keys _ (fun dn => dn.2.name) TypeDef.name _ _ hN1
      (fun dn _ t h => (buildNamedType_name_kind dn.1 dn.2 _ t h).1)
  simp only [rootsOf_eq, rootsTriple, hsd, extsRoots_ovr]
  simp only [rootsStableParts, Bool.and_eq_true, (extRoots_eq pb).1, (extRoots_eq pb).2.1, (extRoots_eq pb).2.2] at hst
  simp only [allRefsResolve, Bool.and_eq_true, rootOk_eq] at hres
  exact finish_pick
    { a0 with types := upsertAll TypeDef.name T1 N1, desc := descOf pb a0.desc, directives := D1 ++ ND1 }
    (ovr pb.schemaExts) (a0.query, a0.mutation, a0.subscription) a0.hasType (definesType pb)
    (by
      intro c
      rw [Bool.eq_iff_iff]
      simp only [Schema.hasType, Schema.typeNames, definesType, List.contains_iff_mem, Bool.or_eq_true,
        mem_upsertAll_keys, hT1n, hN1n])
    (fun n hn => by have := hres.1.1.2; simp only [] at hn; rw [hn] at this; exact this)
    (fun n hn => by have := hres.1.2; simp only [] at hn; rw [hn] at this; exact this)
    (fun n hn => by have := hres.2; simp only [] at hn; rw [hn] at this; exact this)
    hst.1.1 hst.1.2 hst.2

end Gql.Types
