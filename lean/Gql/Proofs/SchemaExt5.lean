import Gql.Proofs.SchemaExt4
import Gql.Types.SchemaRoots
/-!
# Extend equals build for base documents without a schema definition (C19-1)

`build_ast_schema` picks the roots by the names `Query` / `Mutation` / `Subscription` *after*
`extend_schema_args` ran over the whole document; `extend_schema` never does.  This file
characterises when the two orders agree (`rootsStable`) and proves the equality under it.
-/
namespace Gql.Types
open Gql Gql.Generated

/-! ## Names after `upsert` -/

theorem mem_upsert_keys {α : Type} (key : α → Str) (ys : List α) (x : α) (c : Str) :
    c ∈ (upsert key ys x).map key ↔ c ∈ ys.map key ∨ c = key x := by
  induction ys with
  | nil => simp [upsert]
  | cons y ys ih =>
    simp only [upsert]
    split
    · rename_i h
      simp only [List.map_cons, List.mem_cons, h]
      constructor
      · rintro (h1 | h1)
        · exact Or.inr h1
        · exact Or.inl (Or.inr h1)
      · rintro ((h1 | h1) | h1)
        · exact Or.inl h1
        · exact Or.inr h1
        · exact Or.inl h1
    · simp only [List.map_cons, List.mem_cons, ih]
      constructor
      · rintro (h1 | h1 | h1)
        · exact Or.inl (Or.inl h1)
        · exact Or.inl (Or.inr h1)
        · exact Or.inr h1
      · rintro ((h1 | h1) | h1)
        · exact Or.inl h1
        · exact Or.inr (Or.inl h1)
        · exact Or.inr (Or.inr h1)

theorem mem_upsertAll_keys {α : Type} (key : α → Str) (xs ys : List α) (c : Str) :
    c ∈ (upsertAll key xs ys).map key ↔ c ∈ xs.map key ∨ c ∈ ys.map key := by
  induction ys generalizing xs with
  | nil => simp [upsertAll]
  | cons y ys ih =>
    have h : upsertAll key xs (y :: ys) = upsertAll key (upsert key xs y) ys := by simp [upsertAll]
    rw [h, ih, mem_upsert_keys]
    simp only [List.map_cons, List.mem_cons]
    constructor
    · rintro ((h1 | h1) | h1)
      · exact Or.inl h1
      · exact Or.inr (Or.inl h1)
      · exact Or.inr (Or.inr h1)
    · rintro (h1 | h1 | h1)
      · exact Or.inl (Or.inl h1)
      · exact Or.inl (Or.inr h1)
      · exact Or.inr h1

/-! ## Roots as triples -/

def withRoots (s : Schema) (r : Option Str × Option Str × Option Str) : Schema :=
  { s with query := r.1, mutation := r.2.1, subscription := r.2.2 }

def or3 (o r : Option Str × Option Str × Option Str) : Option Str × Option Str × Option Str :=
  (o.1.or r.1, o.2.1.or r.2.1, o.2.2.or r.2.2)

theorem opsRoots_or3 (b r : Option Str × Option Str × Option Str) (ops : List (Op × Str)) :
    opsRoots (or3 b r) ops = or3 (opsRoots b ops) r := by
  induction ops generalizing b with
  | nil => simp [opsRoots]
  | cons p ps ih =>
    obtain ⟨o, n⟩ := p
    obtain ⟨b1, b2, b3⟩ := b
    cases o
    · have := ih (some n, b2, b3)
      simpa only [opsRoots, or3, Option.some_or] using this
    · have := ih (b1, some n, b3)
      simpa only [opsRoots, or3, Option.some_or] using this
    · have := ih (b1, b2, some n)
      simpa only [opsRoots, or3, Option.some_or] using this

theorem extsRoots_or3 (b r : Option Str × Option Str × Option Str) (xs : List (List (Op × Str))) :
    extsRoots (or3 b r) xs = or3 (extsRoots b xs) r := by
  induction xs generalizing b with
  | nil => rfl
  | cons x xs ih =>
    simp only [extsRoots, List.foldl_cons] at ih ⊢
    rw [opsRoots_or3, ih]

/-- The roots a list of schema extensions sets, whatever the roots were before. -/
def ovr (xs : List (List (Op × Str))) : Option Str × Option Str × Option Str := extsRoots (none, none, none) xs

theorem extsRoots_ovr (r : Option Str × Option Str × Option Str) (xs : List (List (Op × Str))) :
    extsRoots r xs = or3 (ovr xs) r := by
  have h : r = or3 (none, none, none) r := by simp [or3]
  rw [h, extsRoots_or3]
  rfl

/-! ## The condition (`Gql/Types/SchemaRoots.lean`) on triples -/

theorem extRoots_eq (p : Parts) :
    (extRoots p).query = (ovr p.schemaExts).1 ∧ (extRoots p).mutation = (ovr p.schemaExts).2.1 ∧
    (extRoots p).subscription = (ovr p.schemaExts).2.2 := by
  unfold extRoots
  rw [foldl_applyOps_eq]
  exact ⟨rfl, rfl, rfl⟩

theorem pick_comp (inA inB : Bool) (x rA : Option Str) (c : Str) (h : rootStableFor inA inB x c = true) :
    x.or (if inA = true then some c else rA) = (if (inA || inB) = true then some c else x.or rA) := by
  cases x with
  | none => cases inA <;> cases inB <;> simp_all [rootStableFor]
  | some n =>
    simp only [rootStableFor, Bool.or_eq_true, beq_iff_eq, Bool.and_eq_true, Bool.not_eq_eq_eq_not,
      Bool.not_true] at h
    rcases h with h | ⟨h1, h2⟩
    · subst h; simp
    · simp [h1, h2]

theorem rootOk_comp (hasU : Str → Bool) (inA : Bool) (x rA : Option Str) (c : Str)
    (hc : inA = true → hasU c = true) (hr : ∀ n, rA = some n → hasU n = true) :
    (match x.or (if inA = true then some c else rA) with | none => true | some n => hasU n) =
    (match x.or rA with | none => true | some n => hasU n) := by
  cases x with
  | some n => simp
  | none =>
    simp only [Option.none_or]
    cases inA with
    | false => simp
    | true =>
      simp only [↓reduceIte, hc rfl]
      cases rA with
      | none => rfl
      | some n => simp [hr n rfl]

/-! ## `finish` and `autopick` on explicit roots -/

def pick3 (has : Str → Bool) (r : Option Str × Option Str × Option Str) : Option Str × Option Str × Option Str :=
  (if has SchemaConsts.queryName = true then some SchemaConsts.queryName else r.1,
   if has SchemaConsts.mutationName = true then some SchemaConsts.mutationName else r.2.1,
   if has SchemaConsts.subscriptionName = true then some SchemaConsts.subscriptionName else r.2.2)

theorem autopick_withRoots (u : Schema) (r : Option Str × Option Str × Option Str) :
    autopick (withRoots u r) = withRoots u (pick3 u.hasType r) := rfl

theorem autopick_eq (s : Schema) :
    autopick s = withRoots s (pick3 s.hasType (s.query, s.mutation, s.subscription)) := rfl

theorem rootOk_eq (s : Schema) (o : Option Str) :
    rootOk s o = (match o with | none => true | some n => s.hasType n) := by
  cases o <;> rfl

theorem allRefsResolve_withRoots (u : Schema) (r : Option Str × Option Str × Option Str) :
    allRefsResolve (withRoots u r) =
      (u.types.all (typeRefsOk u) && u.directives.all (fun d => argRefsOk u d.args) &&
        rootOk u r.1 && rootOk u r.2.1 && rootOk u r.2.2) := by
  have ht : (withRoots u r).types = u.types := rfl
  have h1 : typeRefsOk (withRoots u r) = typeRefsOk u := funext (typeRefsOk_congr u _ ht)
  have h2 : rootOk (withRoots u r) = rootOk u := funext (rootOk_congr u _ ht)
  have h3 : (fun (d : Directive) => argRefsOk (withRoots u r) d.args) = (fun d => argRefsOk u d.args) := by
    funext d
    simp only [argRefsOk, resolves_congr u _ ht]
  unfold allRefsResolve
  rw [h1, h2, h3]
  rfl

/-- The heart of the matter: finishing with the roots "picked on the base, then overridden by
the extension" is finishing with the roots "overridden, then picked on the result". -/
theorem finish_pick (u : Schema) (o rA : Option Str × Option Str × Option Str) (hasA inB : Str → Bool)
    (hU : ∀ c, u.hasType c = (hasA c || inB c))
    (hrA1 : ∀ n, rA.1 = some n → hasA n = true) (hrA2 : ∀ n, rA.2.1 = some n → hasA n = true)
    (hrA3 : ∀ n, rA.2.2 = some n → hasA n = true)
    (h1 : rootStableFor (hasA SchemaConsts.queryName) (inB SchemaConsts.queryName) o.1 SchemaConsts.queryName = true)
    (h2 : rootStableFor (hasA SchemaConsts.mutationName) (inB SchemaConsts.mutationName) o.2.1
      SchemaConsts.mutationName = true)
    (h3 : rootStableFor (hasA SchemaConsts.subscriptionName) (inB SchemaConsts.subscriptionName) o.2.2
      SchemaConsts.subscriptionName = true) :
    finish (withRoots u (or3 o (pick3 hasA rA))) =
      (match finish (withRoots u (or3 o rA)) with
       | .ok s => .ok (autopick s)
       | .err e => .err e
       | .crash c => .crash c) := by
  have hup : ∀ c, hasA c = true → u.hasType c = true := fun c h => by rw [hU, h]; rfl
  have hroots : or3 o (pick3 hasA rA) = pick3 u.hasType (or3 o rA) := by
    simp only [or3, pick3, hU]
    rw [pick_comp _ _ _ _ _ h1, pick_comp _ _ _ _ _ h2, pick_comp _ _ _ _ _ h3]
  have hall : allRefsResolve (withRoots u (or3 o (pick3 hasA rA))) = allRefsResolve (withRoots u (or3 o rA)) := by
    simp only [allRefsResolve_withRoots, rootOk_eq, or3, pick3]
    rw [rootOk_comp u.hasType _ o.1 rA.1 _ (hup _) (fun n hn => hup n (hrA1 n hn)),
      rootOk_comp u.hasType _ o.2.1 rA.2.1 _ (hup _) (fun n hn => hup n (hrA2 n hn)),
      rootOk_comp u.hasType _ o.2.2 rA.2.2 _ (hup _) (fun n hn => hup n (hrA3 n hn))]
  unfold finish
  rw [hall]
  split
  · simp only [autopick_withRoots, hroots]
  · rfl

end Gql.Types
