import Gql.Proofs.SchemaDiff2
namespace Gql.Types
open Gql Gql.Generated

theorem argsSim_refl (s : Schema) (as : List Arg) (h : wfArgs s as = true) : ArgsSim as as := by
  simp only [wfArgs, Bool.and_eq_true] at h
  exact Rearranged.refl Arg.name as ((nodupNames_iff _).mp h.1)

theorem fieldSim_refl (s : Schema) (f : Field) (h : wfField s f = true) : FieldSim f f := by
  simp only [wfField, Bool.and_eq_true] at h
  exact ⟨rfl, rfl, argsSim_refl s f.args h.2⟩

theorem typeSim_refl (s : Schema) (t : TypeDef) (h : wfType s t = true) : TypeSim t t := by
  cases t with
  | scalar n d u => exact .scalar n d u
  | union n d ms => exact .union n d ms ms (List.Perm.refl _)
  | enum n d vs =>
    simp only [wfType, Bool.and_eq_true] at h
    exact .enum n d vs vs (Rearranged.refl _ _ ((nodupNames_iff _).mp h.1.2))
  | input n d o fs =>
    simp only [wfType, Bool.and_eq_true] at h
    exact .input n d o fs fs (argsSim_refl s fs h.2)
  | object n d is fs =>
    simp only [wfType, Bool.and_eq_true, List.all_eq_true] at h
    exact .object n d is is fs fs id (List.Perm.refl _) (Rearranged.refl _ _ ((nodupNames_iff _).mp h.1.2))
      (fun f hf => fieldSim_refl s f (h.2 f hf))
  | interface n d is fs =>
    simp only [wfType, Bool.and_eq_true, List.all_eq_true] at h
    exact .interface n d is is fs fs id (List.Perm.refl _) (Rearranged.refl _ _ ((nodupNames_iff _).mp h.1.2))
      (fun f hf => fieldSim_refl s f (h.2 f hf))

theorem dirSim_refl (s : Schema) (d : Directive) (h : wfDirective s d = true) : DirSim d d := by
  simp only [wfDirective, Bool.and_eq_true] at h
  exact ⟨rfl, rfl, rfl, List.Perm.refl _, argsSim_refl s d.args h.1.1.2⟩

/-- The specified scalar names are pairwise distinct (re-checked against the generated table). -/
theorem specifiedScalarNames_nodup : SchemaConsts.specifiedScalarNames.Nodup := by decide

theorem wfType_not_reserved (s : Schema) (t : TypeDef) (h : wfType s t = true) : isReservedType t.name = false := by
  cases t <;> simp_all [wfType, TypeDef.name]

theorem diffTypes_names_nodup (s : Schema) (h : WFSchema s = true) : ((diffTypes s).map TypeDef.name).Nodup := by
  simp only [WFSchema, Bool.and_eq_true] at h
  obtain ⟨⟨⟨⟨⟨⟨⟨hnd, htypes⟩, _⟩, _⟩, _⟩, _⟩, _⟩, _⟩ := h
  unfold diffTypes
  rw [List.map_append, List.map_map]
  have hmap : (TypeDef.name ∘ fun n => TypeDef.scalar n none none) = id := by funext n; rfl
  rw [hmap, List.map_id]
  rw [List.nodup_append]
  refine ⟨(nodupNames_iff _).mp hnd, List.Sublist.nodup List.filter_sublist specifiedScalarNames_nodup, ?_⟩
  · intro a ha b hb hab
    subst hab
    obtain ⟨t, ht, rfl⟩ := List.mem_map.mp ha
    have hres := wfType_not_reserved s t (List.all_eq_true.mp htypes t ht)
    have hmem : t.name ∈ SchemaConsts.specifiedScalarNames := (List.mem_filter.mp hb).1
    have : isReservedType t.name = true := by
      simp [isReservedType, reservedTypeNames, hmem]
    rw [this] at hres; exact Bool.noConfusion hres

theorem typeSim_of_mem_diffTypes (s : Schema) (h : WFSchema s = true) (t : TypeDef) (ht : t ∈ diffTypes s) :
    TypeSim t t := by
  simp only [WFSchema, Bool.and_eq_true] at h
  obtain ⟨⟨⟨⟨⟨⟨⟨_, htypes⟩, _⟩, _⟩, _⟩, _⟩, _⟩, _⟩ := h
  unfold diffTypes at ht
  rcases List.mem_append.mp ht with h1 | h2
  · exact typeSim_refl s t (List.all_eq_true.mp htypes t h1)
  · obtain ⟨n, _, rfl⟩ := List.mem_map.mp h2
    exact .scalar n none none

/-- **Comparing a schema with itself reports no change.** -/
theorem changes_refl (s : Schema) (h : WFSchema s = true) : changes s s = [] := by
  have hwf := h
  simp only [WFSchema, Bool.and_eq_true] at h
  obtain ⟨⟨⟨⟨⟨⟨⟨_, _⟩, hdn⟩, hdirs⟩, _⟩, _⟩, _⟩, _⟩ := h
  apply changes_nil_of_sim s s id id
  · exact Rearranged.refl _ _ (diffTypes_names_nodup s hwf)
  · exact fun t ht => typeSim_of_mem_diffTypes s hwf t ht
  · exact Rearranged.refl _ _ ((nodupNames_iff _).mp hdn)
  · exact fun d hd => dirSim_refl s d (List.all_eq_true.mp hdirs d hd)

end Gql.Types
